#!/venv/bin/python
"""Confirm seeded changes: for each /tmp/seeds/<ID>/<k>/ (patch.diff, demo_test.py, meta.json):
  - scratch copy of /repo (current HEAD working tree), patch applies;
  - demo FAILS with the patch, PASSES without;
  - the existing suite (network-port tests excluded) has the same failures as on the unpatched copy.
Writes /tmp/seeds/confirm.json. Scratch copies are removed. usage: confirm_seeds.py [ID/k ...]"""
import json, os, pathlib, shutil, subprocess, sys, tempfile, re
from concurrent.futures import ThreadPoolExecutor
SEEDS = pathlib.Path('/tmp/seeds')
PY = '/venv/bin/python'
SUITE = [PY, '-m', 'pytest', '-q', '-p', 'no:cacheprovider', '-n', '4', '--timeout=900', '-x' if False else '-q',
         '--ignore=supvisors/tests/test_supvisorswebsockets.py', '--ignore=supvisors/tests/test_supvisorszmq.py',
         '--deselect', 'supvisors/tests/test_options.py::test_check_dirpath', 'supvisors/tests']
FLAKY = {'test_multicast', 'test_create_external_publisher_zmq'}

def failures(out):
    return sorted({m.group(1) for m in re.finditer(r'^(?:FAILED|ERROR) (\S+)', out, flags=re.M)
                   if not any(f in m.group(1) for f in FLAKY)})

def copy_repo():
    tmp = tempfile.mkdtemp(prefix='confirm.')
    shutil.copytree('/repo', tmp + '/repo', ignore=shutil.ignore_patterns('.git', '__pycache__', '*.egg-info'))
    return tmp, tmp + '/repo'

def run(cmd, cwd):
    return subprocess.run(cmd, cwd=cwd, capture_output=True, text=True)

def baseline():
    tmp, repo = copy_repo()
    try:
        return failures(run(SUITE, repo).stdout)
    finally:
        shutil.rmtree(tmp, ignore_errors=True)

def confirm(seed):
    d = SEEDS / seed
    res = {'seed': seed}
    tmp, repo = copy_repo()
    try:
        demo = [PY, '-m', 'pytest', '-q', '-p', 'no:cacheprovider', str(d / 'demo_test.py')]
        r0 = run(demo, repo)
        res['demo_without'] = 'pass' if r0.returncode == 0 else 'FAIL'
        p = run(['patch', '-p1', '-s', '--no-backup-if-mismatch', '-i', str(d / 'patch.diff')], repo)
        res['patch_applies'] = p.returncode == 0
        if p.returncode:
            res['error'] = (p.stdout + p.stderr)[:300]
            return res
        r1 = run(demo, repo)
        res['demo_with'] = 'fail' if r1.returncode != 0 else 'PASS'
        res['demo_with_tail'] = r1.stdout.strip().splitlines()[-1][:160] if r1.stdout.strip() else ''
        s = run(SUITE, repo)
        res['suite_failures'] = failures(s.stdout)
        res['suite_tail'] = s.stdout.strip().splitlines()[-1][:160] if s.stdout.strip() else ''
        return res
    finally:
        shutil.rmtree(tmp, ignore_errors=True)

if __name__ == '__main__':
    seeds = sys.argv[1:] or sorted(str(p.parent.relative_to(SEEDS)) for p in SEEDS.glob('*/*/patch.diff'))
    base = baseline()
    print('baseline failures:', base, flush=True)
    out = {'baseline': base, 'seeds': {}}
    with ThreadPoolExecutor(4) as ex:
        for r in ex.map(confirm, seeds):
            r['suite_same'] = r.get('suite_failures') == base
            r['confirmed'] = bool(r.get('patch_applies') and r.get('demo_without') == 'pass' and r.get('demo_with') == 'fail'
                                  and r['suite_same'])
            out['seeds'][r['seed']] = r
            print(r['seed'], 'CONFIRMED' if r['confirmed'] else 'NOT-CONFIRMED %s' % {k: r.get(k) for k in
                  ('patch_applies', 'demo_without', 'demo_with', 'suite_failures')}, flush=True)
            json.dump(out, open(SEEDS / 'confirm.json', 'w'), indent=1)
