#!/venv/bin/python
"""Copy confirmed seeded changes from /tmp/seeds into /verif/seeded/<ID>-<k>/ and (re)generate seeded/RESULTS.md by
running every check on every kept change (scratch copies of /repo/supvisors)."""
import json, pathlib, shutil, subprocess, sys, tempfile, re
from concurrent.futures import ThreadPoolExecutor
VERIF = pathlib.Path(__file__).resolve().parent.parent
SRC = pathlib.Path('/tmp/seeds')
DST = VERIF / 'seeded'
props = sorted(p.stem.upper() for p in (VERIF / 'sa' / 'props').glob('c*.py'))
STRENGTHENED = {  # seed -> rule added or tightened after the seed was first missed
 'C01-2': 'C01.R5 (all-equal shape of evaluate_stability)', 'C02-2': 'C02.R1 (frozen documented relation)',
 'C03-2': 'C03.R7 (restart_sequence busy gate, new)', 'C10-1': 'C16.R8 (container mutated while iterated, new) + C10.R4 copy',
 'C11-3': 'C11.R2 (unconditional local_mtime stamp)', 'C07-2': 'C11.R2 (same patch as C11-3)',
 'C13-2': 'C13.R3 (proxy run-loop)', 'C13-3': 'C13.R4 (handshake timestamp)', 'C17-1': 'C17.R2 (exact type of the strategy)',
 'C07-1': 'C07.R6 (-1 sentinel)', 'C16-2': "C16.R4 (empty-string literal flow, new)",
 'C19-1': 'C19.R1 (SupervisorData sink) + C19.R2 (live parameter store)', 'C19-2': 'C19.R2 (faithful copy)',
 'C19-3': 'C19.R2 (no re-synthesis on mocks)', 'C03-1': 'C18.R1 (enum class vs annotation) - built with C18',
 # second round (defects hidden in refactorings): first missed, see DESIGN 10.5
 'C01-4': 'handshake order (shared, new)', 'C03-6': 'sound alias folding + C03.R2 pop from the attribute itself',
 'C04-4': 'pending load definition (shared, new)', 'C05-6': 'running_on definition (shared, new)',
 'C07-4': 'C07.R6 TICK counter before anything that can fail (new)', 'C07-5': 'C07.R7 local proxy renewal (new)',
 'C08-4': 'C08.R6 precedence of the failure causes (new)', 'C09-6': 'has_running_processes definition + plan scope (new)',
 'C10-5': 'C10.R3 event_time writers (new)', 'C10-6': 'C10.R3 forced marker removed from a copy (new)',
 'C12-6': 'running_processes definition (C12.R5, new)', 'C13-6': 'discovery eligibility (shared, new)',
 'C15-4': 'C15.R6 order state/reset/status (new)', 'C15-5': 'C15.R3 exact name before pattern (new)',
 'C17-5': 'C16.R7/C17.R2 raw parameter passed on (new)', 'C17-6': 'C17.R2 numprocs > 0 + assert facts after try',
 'C18-5': "C18.R4 regex syntax tree of the '#' index (new)", 'C18-6': 'C18.R5 multicast first byte (new)',
 'C19-4': 'C19.R1 setattr on live objects is a sink (new)', 'C20-5': 'C20.R4 re-insertion unless vanished (new)',
 'C20-6': 'C20.R4 psutil accesses covered (new)',
 # third round (one plain slip + one defect hidden in a refactoring per property): first missed, see DESIGN 11
 'C03-7': 'application strategy copied before the program rules are loaded (shared C03.R5 / C06.R2, new)',
 'C03-8': 'C03.R6 process_failure under EXACTLY the lost-instance fact',
 'C05-8': 'C05.R3 every call site of conciliate_conflicts in a Master-only half (was an analysis error)',
 'C06-7': 'C06.R2 inherited _master_next called first on every path (new)',
 'C07-7': 'C07.R7 on_instance_failure under exactly has_active_state() + its definition (new)',
 'C07-8': 'C07.R7 every proxied send covered by the SupervisorProxyException handler',
 'C08-7': 'C08.R7 Master forgotten when it leaves RUNNING (C01.R3 shared)',
 'C08-8': 'C08.R7 broken ServerProxy always dropped (shared, new)',
 'C09-7': 'C09.R4 RESTARTING / SHUTTING_DOWN accepted by the table from every state the RPC accepts (new)',
 'C10-8': 'C10.R4 modes of a lost peer forgotten for STOPPED and ISOLATED (shared, new)',
 'C11-7': 'C11.R2 synthetic payload of a lost instance (FATAL, unexpected, reason) (new)',
 'C12-7': 'C12.R1 forced payload rewritten on a copy (C10.R3 shared)',
 'C13-7': 'C13.R4 snapshot transferred exactly when AUTHORIZED (C12.R3 shared)',
 'C14-7': 'C14.R4 on_command_added candidates = get_process_identifiers(command.process)',
 'C15-7': 'C15.R4 exactly one positional argument (new)',
 'C16-8': 'C16.R4 typed-AST access check (C15.R1 shared)',
 'C17-8': 'C17.R2 enum lookups cannot fail with a bare KeyError / ValueError (new)',
 'C18-8': 'C18.R5 interval / NaN analysis follows the helper the converter applies',
}
confirm = {}
for f in sorted(SRC.glob('confirm*.json')):
    for k, v in json.load(open(f))['seeds'].items():
        if v.get('confirmed') or k not in confirm:
            confirm[k] = v
if '--copy' in sys.argv:
    for k, v in sorted(confirm.items()):
        if not v.get('confirmed'):
            print('skip (not confirmed)', k); continue
        d = DST / k.replace('/', '-')
        d.mkdir(parents=True, exist_ok=True)
        for n in ('patch.diff', 'demo_test.py'):
            shutil.copy(SRC / k / n, d / n)
        meta = json.load(open(SRC / k / 'meta.json'))
        meta['confirmed_by_me'] = {
            'how': 'tools/confirm_seeds.py on a scratch copy of /repo (HEAD with the fix: commits): patch applied with patch -p1; '
                   'demo run with and without the patch; existing suite (-n 4, network-port tests excluded) with the patch',
            'demo_without_patch': v['demo_without'], 'demo_with_patch': v['demo_with'], 'demo_tail': v.get('demo_with_tail'),
            'suite_with_patch': v.get('suite_tail'), 'suite_failures_same_as_unpatched': v.get('suite_same')}
        json.dump(meta, open(d / 'meta.json', 'w'), indent=1)

def run(d):
    tmp = tempfile.mkdtemp(prefix='seedrun.')
    try:
        shutil.copytree('/repo/supvisors', tmp + '/supvisors', ignore=shutil.ignore_patterns('__pycache__'))
        shutil.copytree('/repo/docs', tmp + '/docs')
        r = subprocess.run(['patch', '-p1', '-s', '--no-backup-if-mismatch', '-i', str(d / 'patch.diff')], cwd=tmp, capture_output=True, text=True)
        if r.returncode:
            return d, None
        out = {}
        for p in props:
            c = subprocess.run([str(VERIF / 'check'), p, '--root', tmp], capture_output=True, text=True)
            if c.returncode != 0:
                lines = [l.strip() for l in c.stdout.splitlines() if l.startswith('  C') or 'ANALYSIS-ERROR' in l]
                out[p] = (c.returncode, lines)
        return d, out
    finally:
        shutil.rmtree(tmp, ignore_errors=True)

dirs = sorted(p for p in DST.iterdir() if (p / 'patch.diff').exists())
rows, detail = [], []
with ThreadPoolExecutor(12) as ex:
    for d, out in ex.map(run, dirs):
        meta = json.load(open(d / 'meta.json'))
        prop = meta.get('property', d.name.split('-')[0])
        if out is None:
            rows.append((d.name, prop, 'PATCH DOES NOT APPLY', '', meta.get('summary', '')[:90])); continue
        own = prop in out
        fired = ', '.join('%s%s' % (p, '' if rc == 1 else '(exit %d)' % rc) for p, (rc, l) in sorted(out.items())) or 'MISSED'
        first = ''
        for p in ([prop] if own else []) + [x for x in sorted(out) if x != prop]:
            if out[p][1]:
                first = out[p][1][0].split(': ')[0][:110]; break
        rows.append((d.name, prop, fired, first, (meta.get('summary') or '')[:100].replace('|', '/')))
        meta['caught_by'] = {p: [l.split(' supvisors/')[0].strip() for l in ls[:4]] for p, (rc, ls) in out.items()}
        json.dump(meta, open(d / 'meta.json', 'w'), indent=1)
md = ['# Seeded changes: which checks fire', '',
      'Generated by `tools/keep_seeds.py` (every check run on a scratch copy of the current /repo/supvisors with the patch applied).',
      'Each change was produced by an independent sub-agent from the property text only, passes the existing suite, and has a',
      'demonstration (`demo_test.py`) that fails with it and passes without (confirmed, see each `meta.json`).', '',
      '| seed | property | checks that report a VIOLATION | first report (rule key) | change |', '|---|---|---|---|---|']
for r in rows:
    md.append('| %s | %s | %s | `%s` | %s |' % r)
n_own = sum(1 for r in rows if r[1] in r[2].split(', ') or any(x.startswith(r[1]) for x in r[2].split(', ')))
md += ['', '%d changes kept; %d caught by at least one check, %d by the check of the property they were written against.' %
       (len(rows), sum(1 for r in rows if r[2] not in ('MISSED', 'PATCH DOES NOT APPLY')), n_own), '',
       '## Strengthened after a miss', '', 'Changes that the checks of the time did not report, and the rule added or tightened for each:', '']
for k, v in sorted(STRENGTHENED.items()):
    md.append('* %s: %s' % (k, v))
(DST / 'RESULTS.md').write_text('\n'.join(md) + '\n')
print('\n'.join(md[-25:]))
