#!/venv/bin/python
"""Run the registered checks against every seeded change (applied to a scratch copy of /repo/supvisors).
usage: tools/seedrun.py [seed-root ...]   (default: /verif/seeded and /tmp/seeds)"""
import json, os, pathlib, shutil, subprocess, sys, tempfile
from concurrent.futures import ThreadPoolExecutor
VERIF = pathlib.Path(__file__).resolve().parent.parent
props = sorted(p.stem.upper() for p in (VERIF / 'sa' / 'props').glob('c*.py'))
roots = [pathlib.Path(a) for a in sys.argv[1:] if not a.startswith('--')] or [VERIF / 'seeded', pathlib.Path('/tmp/seeds')]
seeds = []
for r in roots:
    seeds += sorted(r.glob('*/patch.diff')) + sorted(r.glob('*/*/patch.diff'))

def run(patch):
    tmp = tempfile.mkdtemp(prefix='seedrun.')
    try:
        shutil.copytree('/repo/supvisors', tmp + '/supvisors', ignore=shutil.ignore_patterns('__pycache__'))
        os.makedirs(tmp + '/docs')
        shutil.copy('/repo/docs/configuration.rst', tmp + '/docs/configuration.rst')
        r = subprocess.run(['patch', '-p1', '-s', '--no-backup-if-mismatch', '-i', str(patch)], cwd=tmp, capture_output=True, text=True)
        if r.returncode != 0:
            return patch, 'PATCH-FAILED ' + (r.stdout + r.stderr).strip()[:200], {}
        out = {}
        for p in props:
            c = subprocess.run([str(VERIF / 'check'), p, '--root', tmp], capture_output=True, text=True)
            if c.returncode != 0:
                lines = [l.strip()[:160] for l in c.stdout.splitlines() if l.startswith('  C') or 'ANALYSIS-ERROR' in l]
                out[p] = (c.returncode, lines[:3])
        return patch, 'ok', out
    finally:
        shutil.rmtree(tmp, ignore_errors=True)

quiet = '--quiet' in sys.argv
roots = [r for r in roots if not str(r).startswith('--')]
seeds = [s for s in seeds if not str(s).startswith('--')]
n_alarm = n_total = 0
with ThreadPoolExecutor(16) as ex:
    for patch, st, out in ex.map(run, seeds):
        n_total += 1
        n_alarm += bool(out) or st != 'ok'
        if quiet and not out and st == 'ok':
            continue
        name = '/'.join(patch.parts[-3:-1])
        meta = {}
        try: meta = json.load(open(patch.parent / 'meta.json'))
        except Exception: pass
        print('== %s [%s] %s' % (name, meta.get('property', '?'), (meta.get('summary') or '')[:110]))
        if st != 'ok': print('   ', st); continue
        if not out: print('    SILENT: no check reports anything')
        for p, (rc, lines) in out.items():
            print('    %s exit=%d' % (p, rc))
            for l in lines: print('       ', l)
print('%d patches, %d with at least one report' % (n_total, n_alarm))
