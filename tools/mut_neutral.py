#!/venv/bin/python
"""Detection must survive behaviour-preserving rewriting: every seeded edit of sa/mutants.py (and every kept seeded
patch) is applied, THEN the whole package is rewritten by the global neutral kinds of tools/neutral_auto.py, and the
check of the property must still report something new.    usage: tools/mut_neutral.py [combo-spec] [PROP ...]"""
import ast, json, os, pathlib, shutil, subprocess, sys, tempfile
from concurrent.futures import ProcessPoolExecutor

VERIF = pathlib.Path(__file__).resolve().parent.parent
sys.path.insert(0, str(VERIF))
sys.path.insert(0, str(VERIF / 'tools'))
import neutral_auto                                    # noqa: E402
from sa import mutants                                  # noqa: E402

DEFAULT = 'rename-locals,invert-if-else,hoist-conditions,comp-to-loop,swap-eq,else-after-exit,extract-conditions'


def rewrite(tmp, kinds):
    if 'rename-private-methods' in kinds:
        neutral_auto.rename_private_methods.names = neutral_auto._collect_private(tmp + '/supvisors')
    for p in sorted(pathlib.Path(tmp, 'supvisors').rglob('*.py')):
        if 'tests' in p.parts or 'test' in p.parts:
            continue
        tree = ast.parse(p.read_text())
        k = 0
        for kd in kinds:
            k += neutral_auto.KINDS[kd](tree)
            ast.fix_missing_locations(tree)
            tree = ast.parse(ast.unparse(tree))
        if k:
            p.write_text(ast.unparse(tree) + '\n')


def keys(prop, root):
    from sa.main import analyse
    R = analyse(prop, root)
    return sorted(f['key'].split(' ')[0] for f in R.findings)


def prepare(edit=None, patch=None):
    tmp = tempfile.mkdtemp(prefix='mutneutral.')
    shutil.copytree('/repo/supvisors', tmp + '/supvisors', ignore=shutil.ignore_patterns('__pycache__', 'tests', 'test', 'ui'))
    os.makedirs(tmp + '/docs')
    shutil.copy('/repo/docs/configuration.rst', tmp + '/docs/configuration.rst')
    if edit:
        f, old, new = edit
        p = pathlib.Path(tmp, 'supvisors', f)
        t = p.read_text()
        if old not in t:
            return tmp, 'anchor absent'
        p.write_text(t.replace(old, new, 1))
    if patch:
        r = subprocess.run(['patch', '-p1', '-s', '--no-backup-if-mismatch', '-i', str(patch)], cwd=tmp, capture_output=True, text=True)
        if r.returncode != 0:
            return tmp, 'patch does not apply'
    return tmp, None


def one(args):
    label, prop, edit, patch, kinds, base = args
    tmp, err = prepare(edit, patch)
    try:
        if err:
            return label, prop, 'skipped: ' + err
        try:
            rewrite(tmp, kinds)
        except SyntaxError as exc:
            return label, prop, 'skipped: rewritten module does not compile (%s)' % exc
        try:
            ks = keys(prop, tmp)
        except Exception as exc:
            return label, prop, 'analysis-error (noticed): %s' % str(exc)[:80]
        new = [k for k in ks if k not in base]
        return label, prop, ('detected: ' + new[0]) if new else 'MISSED'
    finally:
        shutil.rmtree(tmp, ignore_errors=True)


def main():
    args = [a for a in sys.argv[1:]]
    spec = DEFAULT
    if args and ',' in args[0] or (args and args[0] in neutral_auto.KINDS):
        spec = args.pop(0)
    kinds = spec.split(',')
    props = args or sorted({m[0] for m in mutants.M})
    # base keys on the rewritten but otherwise unchanged tree
    tmp, _ = prepare()
    rewrite(tmp, kinds)
    base = {}
    for p in props:
        try:
            base[p] = keys(p, tmp)
        except Exception as exc:
            print('BASE analysis error on the rewritten tree for', p, exc)
            base[p] = []
    shutil.rmtree(tmp, ignore_errors=True)
    jobs = []
    for (p, f, old, new, expect) in mutants.M:
        if expect is not None and p in props:
            jobs.append(('%s: %r' % (f, old.strip().splitlines()[0][:50]), p, (f, old, new), None, kinds, base[p]))
    for pth in sorted((VERIF / 'seeded').glob('*/patch.diff')):
        p = pth.parent.name.split('-')[0]
        if p in props:
            jobs.append(('seeded/' + pth.parent.name, p, None, pth, kinds, base[p]))
    n = {'detected': 0, 'MISSED': 0, 'skipped': 0, 'analysis-error': 0}
    with ProcessPoolExecutor(16) as ex:
        for label, prop, res in ex.map(one, jobs):
            k = res.split(':')[0].split(' ')[0]
            n[k] = n.get(k, 0) + 1
            if not res.startswith('detected'):
                print('%s %s -> %s' % (prop, label, res))
    print('rewriting: %s' % spec)
    print(n)


if __name__ == '__main__':
    main()
