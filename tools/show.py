#!/venv/bin/python
"""debug aid: canonical source of a unit, its returns with facts (raw and closed).   usage: tools/show.py ROOT QUAL [QUAL..]"""
import ast, sys, pathlib
sys.path.insert(0, str(pathlib.Path(__file__).resolve().parent.parent))
from sa import normalise
from sa.paths import factmap, returns
from sa.defuse import closed_text
res = normalise.canonical_program(sys.argv[1])
P = res[0] if isinstance(res, tuple) else res
for q in sys.argv[2:]:
    u = P.unit(q)
    print(ast.unparse(u.node))
    fm = factmap(u)
    for v, f, n in returns(u):
        print('  RETURN', ast.unparse(v) if v is not None else None, '| closed:', closed_text(u, v) if v is not None else None)
        print('     facts', sorted((x[0], x[1]) for x in f), '| closed', sorted(fm.closed(n)) if n is not None else None)
