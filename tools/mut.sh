#!/bin/bash
# tools/mut.sh <file-under-supvisors> <python-regex> <replacement> <PROP>...   : apply one regex edit to a scratch copy and run checks
f="$1"; pat="$2"; rep="$3"; shift 3
tmp=$(mktemp -d /tmp/mut.XXXXXX); cp -r /repo/supvisors "$tmp/"; 
/venv/bin/python - "$tmp/supvisors/$f" "$pat" "$rep" <<'PY'
import re,sys
p,pat,rep=sys.argv[1:4]
s=open(p).read(); n=len(re.findall(pat,s,flags=re.S))
s2=re.sub(pat,rep,s,count=1,flags=re.S)
assert s2!=s, 'pattern not found / no change'
compile(s2,p,'exec'); open(p,'w').write(s2); print('edited (matches: %d)'%n)
PY
[ $? -eq 0 ] || { rm -rf "$tmp"; exit 3; }
for p in "$@"; do /verif/check $p --root "$tmp" | grep -E "^  C|ANALYSIS|VIOLATION|: [0-9]+ rules" | cut -c1-260; done
rm -rf "$tmp"
