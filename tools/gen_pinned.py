#!/venv/bin/python
"""Freeze the decomposition (classes, members, module functions and constants) of the tree the rules were confirmed on.
Run once by hand on the reference tree; never at check time.   usage: tools/gen_pinned.py [root]"""
import json, pathlib, subprocess, sys
VERIF = pathlib.Path(__file__).resolve().parent.parent
sys.path.insert(0, str(VERIF))
from sa.model import Program
from sa.normalise import symbols_of
root = sys.argv[1] if len(sys.argv) > 1 else '/repo'
syms = sorted(symbols_of(Program(root)))
head = subprocess.run(['git', '-C', root, 'rev-parse', 'HEAD'], capture_output=True, text=True).stdout.strip()
(VERIF / 'sa' / 'pinned.json').write_text(json.dumps({'reference_commit': head, 'symbols': syms}, indent=0) + '\n')
print(len(syms), 'symbols frozen from', head)
