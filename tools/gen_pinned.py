#!/venv/bin/python
"""Freeze the decomposition (classes, members, module functions and constants) of the tree the rules were confirmed on.
Run once by hand on the reference tree; never at check time.   usage: tools/gen_pinned.py [root]"""
import json, pathlib, subprocess, sys
VERIF = pathlib.Path(__file__).resolve().parent.parent
sys.path.insert(0, str(VERIF))
from sa.model import Program
from sa.normalise import symbols_of, signatures, Canonicaliser, body_hash
root = sys.argv[1] if len(sys.argv) > 1 else '/repo'
P0 = Program(root)
syms = sorted(symbols_of(P0))
# digest of every method / function body and its positional parameters, on the raw tree
bodies = {}
for u in P0.all_units(with_closures=False):
    if u.kind != 'setter':
        bodies[u.qual] = [body_hash(u.node), [a.arg for a in u.node.args.posonlyargs + u.node.args.args]]
# locals of every function, after the canonicalisation passes (which fold alias locals), with what defines them
C = Canonicaliser(P0, pinned=set(syms), pinned_locals={}, pinned_bodies={})
C.run()
locs = {}
for u in P0.all_units(with_closures=False):
    sg = signatures(u.node)
    if sg:
        locs[u.qual] = sg
head = subprocess.run(['git', '-C', root, 'rev-parse', 'HEAD'], capture_output=True, text=True).stdout.strip()
(VERIF / 'sa' / 'pinned.json').write_text(json.dumps({'reference_commit': head, 'symbols': syms, 'locals': locs, 'bodies': bodies,
                                                                  'cattrs': Canonicaliser.cattr_signatures(Program(root))},
                                                      indent=0, sort_keys=True) + '\n')
print(len(syms), 'symbols and the locals of', len(locs), 'functions frozen from', head)
