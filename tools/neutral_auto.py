#!/venv/bin/python
"""Systematic behaviour-preserving rewritings of the WHOLE package, to measure false alarms of the checks.

usage: tools/neutral_auto.py <kind>|all [--keep DIR] [--suite]
Each kind rewrites every eligible construct of every module of /repo/supvisors (tests excluded) in a scratch copy
(ast.unparse of the transformed tree), checks that it compiles, runs the 20 checks with --root on it and prints what
they report. Nothing reported = the rules do not depend on that spelling. With --suite the repository's own tests are
also run on the rewritten tree (to validate the rewriting itself, once)."""
import ast, copy, os, pathlib, shutil, subprocess, sys, tempfile
from concurrent.futures import ThreadPoolExecutor

VERIF = pathlib.Path(__file__).resolve().parent.parent
PROPS = sorted(p.stem.upper() for p in (VERIF / 'sa' / 'props').glob('c*.py'))


def own_nodes(fn):
    stack = list(ast.iter_child_nodes(fn))
    while stack:
        n = stack.pop()
        yield n
        if isinstance(n, (ast.FunctionDef, ast.AsyncFunctionDef, ast.ClassDef)):
            continue
        stack.extend(ast.iter_child_nodes(n))


def functions(tree):
    for n in tree.body:
        if isinstance(n, (ast.FunctionDef, ast.AsyncFunctionDef)):
            yield n
        elif isinstance(n, ast.ClassDef):
            for b in n.body:
                if isinstance(b, (ast.FunctionDef, ast.AsyncFunctionDef)):
                    yield b


def pure(e):
    if isinstance(e, (ast.Constant, ast.Name)):
        return True
    if isinstance(e, ast.Attribute):
        return pure(e.value)
    if isinstance(e, (ast.List, ast.Tuple)):
        return all(pure(x) for x in e.elts)
    return False


# ---------------------------------------------------------------------------------------------- kinds
def rename_locals(tree):
    n = 0
    for fn in functions(tree):
        if any(isinstance(x, (ast.Global, ast.Nonlocal)) for x in ast.walk(fn)):
            continue
        if any(isinstance(x, ast.Call) and isinstance(x.func, ast.Name) and x.func.id in ('locals', 'vars', 'eval', 'exec')
               for x in ast.walk(fn)):
            continue
        params = {a.arg for a in fn.args.posonlyargs + fn.args.args + fn.args.kwonlyargs}
        if fn.args.vararg:
            params.add(fn.args.vararg.arg)
        if fn.args.kwarg:
            params.add(fn.args.kwarg.arg)
        stored = set()
        for x in own_nodes(fn):
            if isinstance(x, ast.Name) and isinstance(x.ctx, (ast.Store, ast.Del)):
                stored.add(x.id)
            elif isinstance(x, ast.ExceptHandler) and x.name:
                stored.add(x.name)
        # names bound in a nested def / lambda (parameters or stores) are left alone
        nested = set()
        for x in own_nodes(fn):
            if isinstance(x, (ast.FunctionDef, ast.AsyncFunctionDef, ast.Lambda)):
                for y in ast.walk(x):
                    if isinstance(y, ast.arg):
                        nested.add(y.arg)
                    elif isinstance(y, ast.Name) and isinstance(y.ctx, ast.Store):
                        nested.add(y.id)
                if not isinstance(x, ast.Lambda):
                    nested.add(x.name)
            elif isinstance(x, (ast.Import, ast.ImportFrom)):
                for a in x.names:
                    nested.add((a.asname or a.name).split('.')[0])
        todo = stored - params - nested
        if not todo:
            continue
        for x in ast.walk(fn):
            if isinstance(x, ast.Name) and x.id in todo:
                x.id = x.id + '_rn'
                n += 1
            elif isinstance(x, ast.ExceptHandler) and x.name in todo:
                x.name = x.name + '_rn'
    return n


def invert_if_else(tree):
    n = 0
    for node in ast.walk(tree):
        if isinstance(node, ast.If) and node.orelse and not (len(node.orelse) == 1 and isinstance(node.orelse[0], ast.If)):
            t = node.test
            node.test = t.operand if isinstance(t, ast.UnaryOp) and isinstance(t.op, ast.Not) else \
                ast.UnaryOp(op=ast.Not(), operand=t)
            node.body, node.orelse = node.orelse, node.body
            n += 1
    return n


def hoist_conditions(tree):
    n = [0]

    def do_list(stmts, fn_names):
        out = []
        for st in stmts:
            for f in ('body', 'orelse', 'finalbody'):
                v = getattr(st, f, None)
                if isinstance(v, list) and v and isinstance(v[0], ast.stmt) and not isinstance(st, (ast.FunctionDef, ast.ClassDef, ast.AsyncFunctionDef)):
                    if f == 'orelse' and isinstance(st, ast.If) and len(v) == 1 and isinstance(v[0], ast.If):
                        # elif chain: only the bodies
                        chain = v[0]
                        while True:
                            chain.body = do_list(chain.body, fn_names)
                            if len(chain.orelse) == 1 and isinstance(chain.orelse[0], ast.If):
                                chain = chain.orelse[0]
                            else:
                                chain.orelse = do_list(chain.orelse, fn_names)
                                break
                    else:
                        setattr(st, f, do_list(v, fn_names))
            for h in getattr(st, 'handlers', []) or []:
                h.body = do_list(h.body, fn_names)
            if isinstance(st, ast.If) and not isinstance(st.test, (ast.Name, ast.Constant)) and \
                    not any(isinstance(x, ast.NamedExpr) for x in ast.walk(st.test)):
                n[0] += 1
                nm = 'cond_%d' % n[0]
                out.append(ast.Assign(targets=[ast.Name(id=nm, ctx=ast.Store())], value=st.test, lineno=st.lineno))
                st.test = ast.Name(id=nm, ctx=ast.Load())
            out.append(st)
        return out
    for fn in functions(tree):
        fn.body = do_list(fn.body, None)
    return n[0]


def comp_to_loop(tree):
    n = [0]

    def expand(comp, acc):
        kind = type(comp)
        if kind is ast.ListComp:
            leaf = ast.Expr(value=ast.Call(func=ast.Attribute(value=ast.Name(id=acc, ctx=ast.Load()), attr='append', ctx=ast.Load()), args=[comp.elt], keywords=[]))
            init = ast.List(elts=[], ctx=ast.Load())
        elif kind is ast.SetComp:
            leaf = ast.Expr(value=ast.Call(func=ast.Attribute(value=ast.Name(id=acc, ctx=ast.Load()), attr='add', ctx=ast.Load()), args=[comp.elt], keywords=[]))
            init = ast.Call(func=ast.Name(id='set', ctx=ast.Load()), args=[], keywords=[])
        else:
            leaf = ast.Assign(targets=[ast.Subscript(value=ast.Name(id=acc, ctx=ast.Load()), slice=comp.key, ctx=ast.Store())], value=comp.value)
            init = ast.Dict(keys=[], values=[])
        body = [leaf]
        for g in reversed(comp.generators):
            for c in reversed(g.ifs):
                body = [ast.If(test=c, body=body, orelse=[])]
            body = [ast.For(target=g.target, iter=g.iter, body=body, orelse=[])]
        return [ast.Assign(targets=[ast.Name(id=acc, ctx=ast.Store())], value=init)] + body

    def do_list(stmts, names):
        out = []
        for st in stmts:
            if not isinstance(st, (ast.FunctionDef, ast.ClassDef, ast.AsyncFunctionDef)):
                for f in ('body', 'orelse', 'finalbody'):
                    v = getattr(st, f, None)
                    if isinstance(v, list) and v and isinstance(v[0], ast.stmt):
                        setattr(st, f, do_list(v, names))
                for h in getattr(st, 'handlers', []) or []:
                    h.body = do_list(h.body, names)
            v = getattr(st, 'value', None)
            if isinstance(st, (ast.Assign, ast.Return)) and isinstance(v, (ast.ListComp, ast.SetComp, ast.DictComp)) \
                    and not any(g.is_async for g in v.generators):
                binders = {x.id for g in v.generators for x in ast.walk(g.target) if isinstance(x, ast.Name)}
                if binders & names:
                    out.append(st)      # a binder would leak over a local of the function
                    continue
                n[0] += 1
                acc = 'acc_%d' % n[0]
                out.extend(expand(v, acc))
                st.value = ast.Name(id=acc, ctx=ast.Load())
            out.append(st)
        return out
    for fn in functions(tree):
        names = {x.id for x in ast.walk(fn) if isinstance(x, ast.Name)} | {a.arg for a in ast.walk(fn) if isinstance(a, ast.arg)}
        # binders used elsewhere in the function cannot be leaked: only unique ones are unrolled
        counts = {}
        for x in ast.walk(fn):
            if isinstance(x, ast.comprehension):
                for y in ast.walk(x.target):
                    if isinstance(y, ast.Name):
                        counts[y.id] = counts.get(y.id, 0) + 1
        stores = {x.id for x in own_nodes(fn) if isinstance(x, ast.Name) and isinstance(x.ctx, ast.Store)
                  and not any(True for _ in ())}
        comp_binders = set(counts)
        real_locals = set()
        for x in own_nodes(fn):
            if isinstance(x, (ast.Assign, ast.For, ast.AugAssign, ast.AnnAssign, ast.withitem)):
                tg = x.targets if isinstance(x, ast.Assign) else [getattr(x, 'target', None) or getattr(x, 'optional_vars', None)]
                for t in tg:
                    if t is not None:
                        for y in ast.walk(t):
                            if isinstance(y, ast.Name):
                                real_locals.add(y.id)
        params = {a.arg for a in fn.args.posonlyargs + fn.args.args + fn.args.kwonlyargs}
        blocked = real_locals | params | {k for k, c in counts.items() if c > 1}
        fn.body = do_list(fn.body, blocked)
    return n[0]


def split_and(tree):
    n = 0
    for node in ast.walk(tree):
        if isinstance(node, ast.If) and not node.orelse and isinstance(node.test, ast.BoolOp) and \
                isinstance(node.test.op, ast.And) and len(node.test.values) == 2:
            a, b = node.test.values
            node.test = a
            node.body = [ast.If(test=b, body=node.body, orelse=[])]
            n += 1
    return n


def swap_eq(tree):
    n = 0
    for node in ast.walk(tree):
        if isinstance(node, ast.Compare) and len(node.ops) == 1 and isinstance(node.ops[0], (ast.Eq, ast.NotEq)) and \
                pure(node.left) and pure(node.comparators[0]):
            node.left, node.comparators[0] = node.comparators[0], node.left
            n += 1
    return n


def in_to_or(tree):
    n = [0]

    class T(ast.NodeTransformer):
        def visit_Compare(self, node):
            self.generic_visit(node)
            if len(node.ops) == 1 and isinstance(node.ops[0], ast.In) and isinstance(node.comparators[0], (ast.List, ast.Tuple)) \
                    and 2 <= len(node.comparators[0].elts) <= 4 and pure(node.left) and pure(node.comparators[0]):
                n[0] += 1
                return ast.BoolOp(op=ast.Or(), values=[ast.Compare(left=copy.deepcopy(node.left), ops=[ast.Eq()], comparators=[e])
                                                       for e in node.comparators[0].elts])
            return node
    T().visit(tree)
    return n[0]


def len_bool(tree):
    n = [0]

    class T(ast.NodeTransformer):
        def visit_If(self, node):
            self.generic_visit(node)
            t = node.test
            if isinstance(t, ast.Name) or (isinstance(t, ast.Attribute) and pure(t)):
                return node
            return node

        def visit_Compare(self, node):
            self.generic_visit(node)
            if len(node.ops) == 1 and isinstance(node.ops[0], ast.Gt) and isinstance(node.comparators[0], ast.Constant) \
                    and node.comparators[0].value == 0 and isinstance(node.left, ast.Call) and \
                    isinstance(node.left.func, ast.Name) and node.left.func.id == 'len':
                n[0] += 1
                return ast.Call(func=ast.Name(id='bool', ctx=ast.Load()), args=node.left.args, keywords=[])
            return node
    T().visit(tree)
    return n[0]


def guard_clauses(tree):
    """a function whose body ends with `if c: BODY` (no else, no value returned anywhere) -> `if not c: return` + BODY."""
    n = 0
    for fn in functions(tree):
        if any(isinstance(x, ast.Return) and x.value is not None for x in own_nodes(fn)):
            continue
        if any(isinstance(x, (ast.Yield, ast.YieldFrom)) for x in own_nodes(fn)):
            continue
        last = fn.body[-1]
        if isinstance(last, ast.If) and not last.orelse and len(fn.body) >= 1:
            t = last.test
            neg = t.operand if isinstance(t, ast.UnaryOp) and isinstance(t.op, ast.Not) else ast.UnaryOp(op=ast.Not(), operand=t)
            fn.body = fn.body[:-1] + [ast.If(test=neg, body=[ast.Return(value=None)], orelse=[])] + last.body
            n += 1
    return n


def alias_self_chains(tree):
    """hoist `self.a.b` chains read 2+ times in a method (and never re-bound there) into a local at the top."""
    n = 0
    for fn in functions(tree):
        if not fn.args.args or fn.args.args[0].arg != 'self' or fn.name == '__init__':
            continue
        if any(isinstance(x, (ast.FunctionDef, ast.Lambda, ast.AsyncFunctionDef)) for x in own_nodes(fn)):
            continue
        reads, bad = {}, set()
        for x in ast.walk(fn):
            if isinstance(x, ast.Attribute) and isinstance(x.value, ast.Attribute) and isinstance(x.value.value, ast.Name) \
                    and x.value.value.id == 'self' and x.value.attr == 'supvisors':
                txt = ast.unparse(x)
                if isinstance(x.ctx, ast.Load):
                    reads[txt] = reads.get(txt, 0) + 1
                else:
                    bad.add(txt)
        names = {x.id for x in ast.walk(fn) if isinstance(x, ast.Name)}
        for txt, c in reads.items():
            if c < 2 or txt in bad:
                continue
            nm = txt.split('.')[-1] + '_ref'
            if nm in names:
                continue

            class T(ast.NodeTransformer):
                def visit_Attribute(self, node):
                    if isinstance(node.ctx, ast.Load) and ast.unparse(node) == txt:
                        return ast.Name(id=nm, ctx=ast.Load())
                    return self.generic_visit(node)
            new_body = [T().visit(st) for st in fn.body]
            doc = 1 if new_body and isinstance(new_body[0], ast.Expr) and isinstance(new_body[0].value, ast.Constant) else 0
            asg = ast.Assign(targets=[ast.Name(id=nm, ctx=ast.Store())], value=ast.parse(txt, mode='eval').body)
            fn.body = new_body[:doc] + [asg] + new_body[doc:]
            n += 1
            break
    return n


def rename_private_methods(tree, _all=None):
    """every private method / property (single leading underscore) of the package gets another name, callers included."""
    n = 0
    names = rename_private_methods.names
    for x in ast.walk(tree):
        if isinstance(x, (ast.FunctionDef, ast.AsyncFunctionDef)) and x.name in names:
            x.name = x.name + '_rn'
            n += 1
        elif isinstance(x, ast.Attribute) and x.attr in names:
            x.attr = x.attr + '_rn'
        elif isinstance(x, ast.Name) and x.id in names:
            x.id = x.id + '_rn'
    return n


def _collect_private(root='/repo/supvisors'):
    names, used_in_tests = set(), set()
    for p in pathlib.Path(root).rglob('*.py'):
        if 'tests' in p.parts or 'test' in p.parts:
            continue
        t = ast.parse(p.read_text())
        for c in ast.walk(t):
            if isinstance(c, ast.ClassDef):
                for b in c.body:
                    if isinstance(b, ast.FunctionDef) and b.name.startswith('_') and not b.name.startswith('__'):
                        names.add(b.name)
    # class-level attributes with the same name (e.g. _Transitions) are not methods: only lower-case names
    return {n for n in names if n == n.lower()}


rename_private_methods.names = set()


def rename_params(tree):
    """positional parameters (other than self/cls) of private methods get another name (callers pass them positionally
    or the method is skipped)."""
    n = 0
    kw_used = {k.arg for x in ast.walk(tree) if isinstance(x, ast.Call) for k in x.keywords if k.arg}
    for fn in functions(tree):
        if not fn.name.startswith('_') or fn.name.startswith('__'):
            continue
        params = [a for a in fn.args.args if a.arg not in ('self', 'cls')]
        if not params or any(a.arg in kw_used for a in params) or fn.args.kwonlyargs:
            continue
        if any(isinstance(x, (ast.Global, ast.Nonlocal)) for x in ast.walk(fn)):
            continue
        ren = {a.arg: a.arg + '_p' for a in params}
        for x in ast.walk(fn):
            if isinstance(x, ast.Name) and x.id in ren:
                x.id = ren[x.id]
            elif isinstance(x, ast.arg) and x.arg in ren and x in fn.args.args:
                x.arg = ren[x.arg]
        n += 1
    return n


def ifexp_to_if(tree):
    n = [0]

    def do_list(stmts):
        out = []
        for st in stmts:
            if not isinstance(st, (ast.FunctionDef, ast.ClassDef, ast.AsyncFunctionDef)):
                for f in ('body', 'orelse', 'finalbody'):
                    v = getattr(st, f, None)
                    if isinstance(v, list) and v and isinstance(v[0], ast.stmt):
                        setattr(st, f, do_list(v))
                for h in getattr(st, 'handlers', []) or []:
                    h.body = do_list(h.body)
            if isinstance(st, ast.Return) and isinstance(st.value, ast.IfExp):
                e = st.value
                out.append(ast.If(test=e.test, body=[ast.Return(value=e.body)], orelse=[]))
                out.append(ast.Return(value=e.orelse))
                n[0] += 1
                continue
            if isinstance(st, ast.Assign) and isinstance(st.value, ast.IfExp) and len(st.targets) == 1 and \
                    isinstance(st.targets[0], (ast.Name, ast.Attribute)):
                e = st.value
                out.append(ast.If(test=e.test, body=[ast.Assign(targets=st.targets, value=e.body, lineno=st.lineno)],
                                  orelse=[ast.Assign(targets=copy.deepcopy(st.targets), value=e.orelse, lineno=st.lineno)]))
                n[0] += 1
                continue
            out.append(st)
        return out
    for fn in functions(tree):
        fn.body = do_list(fn.body)
    return n[0]


def if_to_ifexp(tree):
    """`if c: return A` followed by `return B` -> `return A if c else B`."""
    n = [0]

    def do_list(stmts):
        out = []
        i = 0
        while i < len(stmts):
            st = stmts[i]
            if not isinstance(st, (ast.FunctionDef, ast.ClassDef, ast.AsyncFunctionDef)):
                for f in ('body', 'orelse', 'finalbody'):
                    v = getattr(st, f, None)
                    if isinstance(v, list) and v and isinstance(v[0], ast.stmt):
                        setattr(st, f, do_list(v))
                for h in getattr(st, 'handlers', []) or []:
                    h.body = do_list(h.body)
            nxt = stmts[i + 1] if i + 1 < len(stmts) else None
            if isinstance(st, ast.If) and not st.orelse and len(st.body) == 1 and isinstance(st.body[0], ast.Return) and \
                    st.body[0].value is not None and isinstance(nxt, ast.Return) and nxt.value is not None:
                out.append(ast.Return(value=ast.IfExp(test=st.test, body=st.body[0].value, orelse=nxt.value)))
                n[0] += 1
                i += 2
                continue
            out.append(st)
            i += 1
        return out
    for fn in functions(tree):
        fn.body = do_list(fn.body)
    return n[0]


def else_after_exit(tree):
    """`if c: EXIT` followed by REST -> `if c: EXIT else: REST`."""
    n = [0]

    def exits(b):
        return bool(b) and isinstance(b[-1], (ast.Return, ast.Raise, ast.Continue, ast.Break))

    def do_list(stmts):
        for st in stmts:
            if not isinstance(st, (ast.FunctionDef, ast.ClassDef, ast.AsyncFunctionDef)):
                for f in ('body', 'orelse', 'finalbody'):
                    v = getattr(st, f, None)
                    if isinstance(v, list) and v and isinstance(v[0], ast.stmt):
                        setattr(st, f, do_list(v))
                for h in getattr(st, 'handlers', []) or []:
                    h.body = do_list(h.body)
        for i, st in enumerate(stmts):
            if isinstance(st, ast.If) and not st.orelse and exits(st.body) and i + 1 < len(stmts):
                st.orelse = stmts[i + 1:]
                n[0] += 1
                return stmts[:i + 1]
        return stmts
    for fn in functions(tree):
        fn.body = do_list(fn.body)
    return n[0]


def extract_conditions(tree):
    """the test of every `if` of a method (not elif) that only reads self-rooted chains and locals becomes a new private
    predicate method taking the locals it reads."""
    n = [0]
    for c in [x for x in tree.body if isinstance(x, ast.ClassDef)]:
        new_methods = []
        for fn in [b for b in c.body if isinstance(b, ast.FunctionDef)]:
            if not fn.args.args or fn.args.args[0].arg != 'self' or any(isinstance(d, ast.Name) and d.id in ('staticmethod', 'classmethod', 'property') or isinstance(d, ast.Attribute) for d in fn.decorator_list):
                continue
            if any(isinstance(x, (ast.Lambda, ast.FunctionDef, ast.Yield, ast.YieldFrom)) for x in own_nodes(fn)):
                continue
            local_names = {x.id for x in ast.walk(fn) if isinstance(x, ast.Name) and isinstance(x.ctx, ast.Store)} | \
                {a.arg for a in fn.args.args + fn.args.kwonlyargs}

            def do_list(stmts, is_elif=False):
                for st in stmts:
                    if isinstance(st, (ast.FunctionDef, ast.ClassDef)):
                        continue
                    for f in ('body', 'orelse', 'finalbody'):
                        v = getattr(st, f, None)
                        if isinstance(v, list) and v and isinstance(v[0], ast.stmt):
                            do_list(v, f == 'orelse' and isinstance(st, ast.If) and len(v) == 1 and isinstance(v[0], ast.If))
                    for h in getattr(st, 'handlers', []) or []:
                        do_list(h.body)
                    if isinstance(st, ast.If) and isinstance(st.test, (ast.Compare, ast.BoolOp, ast.Call, ast.UnaryOp)) and \
                            not any(isinstance(x, (ast.NamedExpr, ast.Await, ast.ListComp, ast.GeneratorExp, ast.SetComp, ast.DictComp)) for x in ast.walk(st.test)):
                        free = sorted({x.id for x in ast.walk(st.test) if isinstance(x, ast.Name) and x.id in local_names and x.id != 'self'})
                        n[0] += 1
                        nm = '_pred_%s_%d' % (fn.name.strip('_'), n[0])
                        new_methods.append(ast.FunctionDef(
                            name=nm, args=ast.arguments(posonlyargs=[], args=[ast.arg(arg='self')] + [ast.arg(arg=x) for x in free],
                                                        kwonlyargs=[], kw_defaults=[], defaults=[]),
                            body=[ast.Return(value=st.test)], decorator_list=[], lineno=fn.lineno))
                        st.test = ast.Call(func=ast.Attribute(value=ast.Name(id='self', ctx=ast.Load()), attr=nm, ctx=ast.Load()),
                                           args=[ast.Name(id=x, ctx=ast.Load()) for x in free], keywords=[])
            do_list(fn.body)
        c.body.extend(new_methods)
    return n[0]


def extract_blocks(tree):
    """the body of the last top-level `if` (no else) of a method, when it neither binds a local read afterwards nor leaves
    the method, moves to a new private method taking the locals it reads."""
    n = [0]
    for c in [x for x in tree.body if isinstance(x, ast.ClassDef)]:
        new_methods = []
        for fn in [b for b in c.body if isinstance(b, ast.FunctionDef)]:
            if not fn.args.args or fn.args.args[0].arg != 'self' or fn.decorator_list:
                continue
            cands = [st for st in fn.body if isinstance(st, ast.If) and not st.orelse and len(st.body) >= 2]
            if not cands:
                continue
            st = cands[-1]
            if any(isinstance(x, (ast.Return, ast.Break, ast.Continue, ast.Yield, ast.YieldFrom, ast.Lambda, ast.FunctionDef,
                                  ast.Global, ast.Nonlocal)) for b in st.body for x in ast.walk(b)):
                continue
            stored = {x.id for b in st.body for x in ast.walk(b) if isinstance(x, ast.Name) and isinstance(x.ctx, ast.Store)}
            after = fn.body[fn.body.index(st) + 1:]
            if stored & {x.id for a in after for x in ast.walk(a) if isinstance(x, ast.Name)}:
                continue
            local_names = {x.id for x in ast.walk(fn) if isinstance(x, ast.Name) and isinstance(x.ctx, ast.Store)} | \
                {a.arg for a in fn.args.args + fn.args.kwonlyargs}
            # locals read in the block before being bound there: parameters of the helper
            free = sorted({x.id for b in st.body for x in ast.walk(b) if isinstance(x, ast.Name) and isinstance(x.ctx, ast.Load)
                           and x.id in local_names and x.id != 'self'} - set())
            if stored & set(free):
                # a local both read and bound in the block: keep it simple, skip
                continue
            n[0] += 1
            nm = '_block_%s_%d' % (fn.name.strip('_'), n[0])
            new_methods.append(ast.FunctionDef(
                name=nm, args=ast.arguments(posonlyargs=[], args=[ast.arg(arg='self')] + [ast.arg(arg=x) for x in free],
                                            kwonlyargs=[], kw_defaults=[], defaults=[]),
                body=st.body, decorator_list=[], lineno=fn.lineno))
            st.body = [ast.Expr(value=ast.Call(func=ast.Attribute(value=ast.Name(id='self', ctx=ast.Load()), attr=nm, ctx=ast.Load()),
                                               args=[ast.Name(id=x, ctx=ast.Load()) for x in free], keywords=[]))]
        c.body.extend(new_methods)
    return n[0]


KINDS = {'rename-locals': rename_locals, 'invert-if-else': invert_if_else, 'hoist-conditions': hoist_conditions,
         'comp-to-loop': comp_to_loop, 'split-and': split_and, 'swap-eq': swap_eq, 'in-to-or': in_to_or,
         'len-bool': len_bool, 'guard-clauses': guard_clauses, 'alias-self-chains': alias_self_chains,
         'rename-private-methods': rename_private_methods, 'rename-params': rename_params, 'ifexp-to-if': ifexp_to_if,
         'if-to-ifexp': if_to_ifexp, 'else-after-exit': else_after_exit, 'extract-conditions': extract_conditions,
         'extract-blocks': extract_blocks}


def build(kind, dest):
    shutil.copytree('/repo/supvisors', dest + '/supvisors', ignore=shutil.ignore_patterns('__pycache__'))
    if os.path.isdir('/repo/docs'):
        os.makedirs(dest + '/docs', exist_ok=True)
        shutil.copy('/repo/docs/configuration.rst', dest + '/docs/configuration.rst')
    total = 0
    kinds = kind[6:].split(',') if kind.startswith('combo:') else [kind]
    if 'rename-private-methods' in kinds:
        rename_private_methods.names = _collect_private()
    for p in sorted(pathlib.Path(dest, 'supvisors').rglob('*.py')):
        if 'tests' in p.parts or 'test' in p.parts:
            continue
        tree = ast.parse(p.read_text())
        k = 0
        for kd in kinds:
            k += KINDS[kd](tree)
            ast.fix_missing_locations(tree)
            tree = ast.parse(ast.unparse(tree))
        if k:
            ast.fix_missing_locations(tree)
            src = ast.unparse(tree) + '\n'
            compile(src, str(p), 'exec')
            p.write_text(src)
            total += k
    return total


def main():
    args = [a for a in sys.argv[1:] if not a.startswith('--')]
    kinds = list(KINDS) if not args or args[0] == 'all' else args
    suite = '--suite' in sys.argv
    keep = None
    if '--keep' in sys.argv:
        keep = sys.argv[sys.argv.index('--keep') + 1]
        kinds = [k for k in kinds if k != keep]
    for kind in kinds:
        tmp = keep or tempfile.mkdtemp(prefix='neutral-auto.')
        try:
            if keep and os.path.isdir(keep):
                shutil.rmtree(keep)
            os.makedirs(tmp, exist_ok=True)
            n = build(kind, tmp)
            print('== %s: %d constructs rewritten' % (kind, n))

            def run(p):
                c = subprocess.run([str(VERIF / 'check'), p, '--root', tmp], capture_output=True, text=True)
                return p, c.returncode, [l.strip()[:230] for l in c.stdout.splitlines() if l.startswith('  C') or 'ANALYSIS-ERROR' in l]
            bad = 0
            with ThreadPoolExecutor(16) as ex:
                for p, rc, lines in ex.map(run, PROPS):
                    if rc != 0:
                        bad += 1
                        print('   %s exit=%d' % (p, rc))
                        for l in lines[:6]:
                            print('       ', l)
            print('   -> %d of %d checks report something' % (bad, len(PROPS)))
            if suite:
                shutil.copy('/repo/setup.py', tmp) if os.path.exists('/repo/setup.py') else None
                r = subprocess.run(['/venv/bin/python', '-m', 'pytest', '-q', '-p', 'no:cacheprovider', '-n', '8', '-x', '--timeout=900',
                                    '--ignore=supvisors/tests/test_supvisorswebsockets.py', '--ignore=supvisors/tests/test_supvisorszmq.py',
                                    '--deselect', 'supvisors/tests/test_options.py::test_check_dirpath', 'supvisors/tests'],
                                   cwd=tmp, capture_output=True, text=True)
                print('   suite:', r.stdout.strip().splitlines()[-1] if r.stdout.strip() else r.stderr[-300:])
        finally:
            if not keep:
                shutil.rmtree(tmp, ignore_errors=True)


if __name__ == '__main__':
    main()
