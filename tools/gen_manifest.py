#!/venv/bin/python
"""Regenerates /verif/MANIFEST.json from sa/registry.py (run from /verif)."""
import json, sys, pathlib
sys.path.insert(0, str(pathlib.Path(__file__).resolve().parent.parent))
from sa.registry import CLAIMS, PENDING_REASON, NOT_APPLICABLE
props = [json.loads(l) for l in open('properties.jsonl')]
BASE = 'cd /repo && /venv/bin/python -m pytest -ra -q -p no:cacheprovider --timeout=900 --continue-on-collection-errors'
m = {
    'version': 1,
    'setup_cmd': 'true',
    'hooks': {'guard': 'SUPVISORS_VERIF', 'enable': 'none needed: the checks read the source of /repo/supvisors, nothing is built or run',
              'baseline_off_cmd': BASE, 'source_commits': [], 'add_only': True},
    'engines': [{'name': 'sa', 'path': 'sa/', 'serves_properties': sorted(CLAIMS),
                 'kind_free_text': 'repository-specific static analysis over python ast (stdlib only): resolved program model, '
                                   'context-sensitive call graph, path facts, abstract enum sets, typestate, escape analysis'}],
    'checks': [], 'not_applicable': [],
    'notes': 'All checks are static (source of /repo/supvisors parsed on every run, never imported). Exit 0 = rules hold '
             '(known findings printed as KNOWN-FINDING), 1 = VIOLATION, 2 = ANALYSIS-ERROR (the analysis could not conclude). '
             'Genuine defects found: known_findings.json; design and per-rule claims: DESIGN.md.',
}
for p in props:
    pid = p['id']
    if pid in CLAIMS:
        c = CLAIMS[pid]
        m['checks'].append({
            'property_id': pid, 'quick_cmd': './check %s --tier quick' % pid, 'thorough_cmd': './check %s --tier thorough' % pid,
            'evidence_file': 'evidence/%s.json' % pid, 'replay_cmd_template': './check %s --replay {path}' % pid, 'engine': 'sa',
            'level_claimed': {'category': 'other', 'text': c['text'], 'design_ref': c.get('design', '4')},
            'level_note': c.get('note', 'Trusted base: CPython ast parser; the resolver conventions of DESIGN.md 2.2 (annotations tell the truth, the `supvisors` hub object); the oracle tables frozen from the property statement. Dynamic features (setattr with computed names, monkey-patching) are not modelled.'),
            'technique': c['technique']})
    else:
        m['not_applicable'].append({'property_id': pid, 'reason': NOT_APPLICABLE.get(pid, PENDING_REASON)})
json.dump(m, open('MANIFEST.json', 'w'), indent=1)
print('checks', len(m['checks']), 'not_applicable', len(m['not_applicable']))
