"""Demonstrations (NOT checks) that findings F16 (NaN accepted by the float option converters) and F17 (an invalid
regular expression in a rules pattern makes every rule lookup raise re.error) are genuine.
Run: cd /repo && /venv/bin/python -m pytest -q -p no:cacheprovider <this file>"""
import math
import pytest
from supvisors.tests.conftest import *
from supvisors.options import SupvisorsOptions
from supvisors.sparser import Parser
from supvisors.application import ApplicationRules
from supvisors.process import ProcessRules


@pytest.mark.parametrize('value', ['nan', 'NaN'])
def test_F16_nan_is_out_of_range(value):
    """ an option outside its documented range [1;3600] must fall back to its default (ValueError -> _get_value). """
    with pytest.raises(ValueError):
        SupvisorsOptions.to_period(value)                  # returns nan on the pinned tree
    with pytest.raises(ValueError):
        SupvisorsOptions.to_periods('5,' + value)          # returns [5.0, nan] on the pinned tree


def test_F16_option_falls_back(supervisor_instance, dict_options, logger_instance):
    dict_options['stats_collecting_period'] = 'nan'
    opts = SupvisorsOptions(supervisor_instance, logger_instance, **dict_options)
    assert not math.isnan(opts.collecting_period)          # nan on the pinned tree


RULES = """<?xml version="1.0" encoding="UTF-8" standalone="no"?>
<root>
    <application pattern="(">
        <start_sequence>1</start_sequence>
    </application>
    <application name="good">
        <start_sequence>2</start_sequence>
        <programs>
            <program pattern="[">
                <start_sequence>3</start_sequence>
            </program>
            <program pattern="prg_">
                <start_sequence>4</start_sequence>
            </program>
        </programs>
    </application>
</root>
"""


def test_F17_invalid_pattern(supvisors_instance, tmp_path):
    """ an XSD-valid rules file (pattern is an xs:string) whose pattern is not a valid regular expression. """
    f = tmp_path / 'rules.xml'
    f.write_text(RULES)
    supvisors_instance.options.rules_files = [str(f)]
    parser = Parser(supvisors_instance)                     # the file is accepted (lxml validates it)
    rules = ApplicationRules(supvisors_instance)
    parser.load_application_rules('other', rules)           # re.error on the pinned tree (pattern "(" is tried)
    assert not rules.managed
    prules = ProcessRules(supvisors_instance)
    parser.load_program_rules('good:prg_1', prules)         # re.error on the pinned tree (pattern "[" is tried)
    assert prules.start_sequence == 4
