"""Demonstrations (NOT checks, decide nothing) that the static findings F5, F8, F11, F12, F13, F15 are genuine:
each test exhibits the failing input against the real code. They fail on the pinned tree and pass once the
corresponding fix: commit is applied.   Run: cd /repo && /venv/bin/python -m pytest -q -p no:cacheprovider <this file>
"""
import pytest
from unittest.mock import Mock
from supervisor.xmlrpc import RPCError
from supvisors.tests.conftest import *
from supvisors.tests.base import database_copy
from supvisors.ttypes import SupvisorsInstanceStates, SupvisorsStates, InvalidTransition, SupvisorsFaults
from supvisors.rpcinterface import RPCInterface
from supvisors.statemachine import FiniteStateMachine


def test_F5_stale_instance_failure(supvisors_instance):
    """ INSTANCE_FAILURE read after the peer was already invalidated (STOPPED). """
    ctx = supvisors_instance.context
    status = ctx.instances['10.0.0.2:25000']
    assert status.state == SupvisorsInstanceStates.STOPPED
    ctx.on_instance_failure(status)          # InvalidTransition STOPPED -> FAILED on the pinned tree
    assert status.state == SupvisorsInstanceStates.STOPPED


def test_F5_late_failed_all_info(supvisors_instance):
    """ ALL_INFO(None) of a later handshake read while the peer is CHECKED / RUNNING. """
    ctx = supvisors_instance.context
    status = ctx.instances['10.0.0.2:25000']
    status._state = SupvisorsInstanceStates.RUNNING
    ctx.load_processes(status, None)         # InvalidTransition RUNNING -> STOPPED on the pinned tree
    assert status.state == SupvisorsInstanceStates.RUNNING


def test_F8_restart_without_master(supvisors_instance):
    supvisors_instance.fsm = FiniteStateMachine(supvisors_instance)
    supvisors_instance.state_modes.local_state_modes.state = SupvisorsStates.OPERATION
    assert supvisors_instance.state_modes.master_identifier == ''
    rpc = RPCInterface(supvisors_instance)
    for call in (rpc.restart, rpc.shutdown):
        with pytest.raises(RPCError) as exc:      # RuntimeError / ValueError on the pinned tree
            call()
        assert exc.value.code == SupvisorsFaults.BAD_SUPVISORS_STATE.value


def test_F11_identification_none(supvisors_instance):
    """ _transfer_network_info posts IDENTIFICATION with None when get_network_info failed. """
    supvisors_instance.context.on_identification_event(None)      # TypeError on the pinned tree


def test_F12_network_info_nick(supvisors_instance):
    rpc = RPCInterface(supvisors_instance)
    nick = supvisors_instance.mapper.instances['10.0.0.2:25000'].nick_identifier
    assert nick != '10.0.0.2:25000'
    assert supvisors_instance.mapper.filter([nick]) == ['10.0.0.2:25000']
    assert rpc.get_network_info(nick)['identifier'] == '10.0.0.2:25000'     # KeyError on the pinned tree


def test_F13_restart_unmanaged(supvisors_instance):
    supvisors_instance.state_modes.local_state_modes.state = SupvisorsStates.OPERATION
    supvisors_instance.fsm.state = SupvisorsStates.OPERATION
    rpc = RPCInterface(supvisors_instance)
    appli = create_application('unmanaged', supvisors_instance)
    assert not appli.rules.managed
    supvisors_instance.context.applications['unmanaged'] = appli
    with pytest.raises(RPCError) as exc:             # no error, and the Stopper is asked to stop it, on the pinned tree
        rpc.restart_application(0, 'unmanaged')
    assert exc.value.code == SupvisorsFaults.NOT_MANAGED.value
    assert not supvisors_instance.stopper.restart_application.called


def test_F15_discovery_unresolvable(supvisors_instance, mocker):
    """ a discovered peer whose identifier cannot be turned into a SupvisorsInstanceId. """
    mocker.patch.object(supvisors_instance.mapper, 'check_candidate', return_value=True)
    n = len(supvisors_instance.context.instances)
    supvisors_instance.context.on_discovery_event('not a valid item', 'nick')     # ValueError on the pinned tree
    assert len(supvisors_instance.context.instances) == n
