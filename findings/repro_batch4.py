"""Demonstrations (NOT checks) that findings F18, F19 and F20 are genuine: each test FAILS on the tree before the named
fix: commit of /repo and PASSES after it.
  F18 (fix 80bfacf, C04 / C10): a start command still planned kept the Supvisors instance chosen in advance for a
       non-distributed application after that instance was lost: the request went to an instance that is not RUNNING
       and the job never ended.
  F19 (fix 4b05ce0, C09): Stopper.abort kept the starts deferred by restart_application: the application was started
       again at the end of the stop phase of RESTARTING / SHUTTING_DOWN.
  F20 (fix 06b96b9, C09): an instance completing its handshake during RESTARTING was activated without a Master, the
       consistency check failed and FINAL was forced: the restart order was sent before the applications were stopped.
Run: cd /repo && /venv/bin/python -m pytest -q -p no:cacheprovider <this file>"""
from supervisor.states import ProcessStates
from supvisors.commander import Starter
from supvisors.commander import Starter, Stopper
from supvisors.internal_com.rpchandler import RpcHandler
from supvisors.statemachine import FiniteStateMachine, OperationState
from supvisors.tests.base import process_info_by_name
from supvisors.tests.conftest import *
from supvisors.ttypes import ApplicationStates, DistributionRules, StartingStrategies, SupvisorsInstanceStates
from supvisors.ttypes import ApplicationStates, StartingStrategies, SupvisorsInstanceStates
from supvisors.ttypes import SupvisorsInstanceStates, SupvisorsStates
from unittest.mock import Mock, call
from unittest.mock import call
import time


# ------------------------------ F18
IDENTIFIER_F18 = '10.0.0.2:25000'
OTHER_F18 = '10.0.0.3:25000'


def add_process_F18(supv, application, name, start_sequence, identifiers, **rules):
    info = process_info_by_name('xlogo')
    info.update({'group': application.application_name, 'name': name, 'program_name': name})
    process = create_process(info, supv)
    process.rules.start_sequence = start_sequence
    for key, value in rules.items():
        setattr(process.rules, key, value)
    for identifier in identifiers:
        process.add_info(identifier, info.copy())
        supv.context.instances[identifier].processes[process.namespec] = process
    application.add_process(process)
    return process


def send_event_F18(supv, starter, name, state, identifier=IDENTIFIER_F18):
    status = supv.context.instances[identifier]
    event = {'identifier': identifier, 'nick_identifier': status.nick_identifier,
             'group': 'demo_app', 'name': name, 'state': state,
             'now': time.time(), 'now_monotonic': time.monotonic(),
             'pid': 1234, 'expected': True, 'spawnerr': '', 'extra_args': '', 'disabled': False}
    process = supv.context.on_process_state_event(status, event)
    assert process
    starter.on_event(process, status.identifier)


def test_F18_planned_command_on_lost_instance(mocker, supvisors_instance):
    supv = supvisors_instance
    mocked_start = mocker.patch.object(supv.rpc_handler, 'send_start_process')
    mocker.patch.object(supv.listener, 'force_process_state', create=True)
    supv.context.instances[IDENTIFIER_F18]._state = SupvisorsInstanceStates.RUNNING
    supv.context.instances[OTHER_F18]._state = SupvisorsInstanceStates.RUNNING
    application = create_application('demo_app', supv)
    application.rules.managed = True
    application.rules.distribution = DistributionRules.SINGLE_INSTANCE
    supv.context.applications['demo_app'] = application
    first = add_process_F18(supv, application, 'first', 1, [IDENTIFIER_F18, OTHER_F18], expected_load=10)
    second = add_process_F18(supv, application, 'second', 2, [IDENTIFIER_F18, OTHER_F18], expected_load=10)
    application.update_sequences()
    application.update()
    starter = Starter(supv)
    supv.starter = starter
    starter.start_application(StartingStrategies.CONFIG, application)
    assert mocked_start.call_args_list == [call(IDENTIFIER_F18, 'demo_app:first', '')]
    # 'first' gets STARTING then RUNNING on IDENTIFIER_F18: wait, before that, the chosen instance is lost
    send_event_F18(supv, starter, 'first', ProcessStates.STARTING)
    # the instance is lost: FAILED -> invalidated -> STOPPED
    status = supv.context.instances[IDENTIFIER_F18]
    status._state = SupvisorsInstanceStates.STOPPED
    failed = {first}
    first.invalidate_identifier(IDENTIFIER_F18)
    starter.on_instances_invalidation([IDENTIFIER_F18], failed)
    starter.check()
    # whatever the starting failure strategy (CONTINUE by default), no start request may target the lost instance
    for called in mocked_start.call_args_list[1:]:
        assert called[0][0] != IDENTIFIER_F18, mocked_start.call_args_list
    # and every job must end
    assert not starter.in_progress()


# ------------------------------ F19
IDENTIFIER_F19 = '10.0.0.2:25000'


def add_process_F19(supv, application, name, identifiers, state_name):
    info = process_info_by_name(state_name)
    info.update({'group': application.application_name, 'name': name, 'program_name': name})
    process = create_process(info, supv)
    process.rules.start_sequence = 1
    process.rules.stop_sequence = 1
    for identifier in identifiers:
        process.add_info(identifier, info.copy())
        supv.context.instances[identifier].processes[process.namespec] = process
    application.add_process(process)
    return process


def send_event_F19(supv, name, state):
    status = supv.context.instances[IDENTIFIER_F19]
    event = {'identifier': IDENTIFIER_F19, 'nick_identifier': status.nick_identifier,
             'group': 'demo_app', 'name': name, 'state': state,
             'now': time.time(), 'now_monotonic': time.monotonic(),
             'pid': 0, 'expected': True, 'spawnerr': '', 'extra_args': '', 'disabled': False}
    process = supv.context.on_process_state_event(status, event)
    assert process
    supv.starter.on_event(process, IDENTIFIER_F19)
    supv.stopper.on_event(process, IDENTIFIER_F19)


def test_F19_pending_restart_survives_abort(mocker, supvisors_instance):
    supv = supvisors_instance
    mocked_start = mocker.patch.object(supv.rpc_handler, 'send_start_process')
    mocked_stop = mocker.patch.object(supv.rpc_handler, 'send_stop_process')
    supv.context.instances[IDENTIFIER_F19]._state = SupvisorsInstanceStates.RUNNING
    application = create_application('demo_app', supv)
    application.rules.managed = True
    application.rules.start_sequence = 1
    application.rules.stop_sequence = 1
    supv.context.applications['demo_app'] = application
    proc = add_process_F19(supv, application, 'first', [IDENTIFIER_F19], 'xfontsel')   # a RUNNING process
    assert proc.state == ProcessStates.RUNNING, proc.state
    application.update_sequences()
    application.update()
    supv.starter = Starter(supv)
    supv.stopper = Stopper(supv)
    # a user restarts the application: stop now, start deferred
    supv.stopper.restart_application(StartingStrategies.CONFIG, application)
    assert mocked_stop.call_args_list == [call(IDENTIFIER_F19, 'demo_app:first')]
    # supvisors.restart arrives: the Master enters RESTARTING = abort all jobs + stop all applications
    supv.starter.abort()
    supv.stopper.abort()
    supv.stopper.stop_applications()
    # the process stops
    send_event_F19(supv, 'first', ProcessStates.STOPPING)
    send_event_F19(supv, 'first', ProcessStates.STOPPED)
    supv.stopper.check()
    supv.starter.check()
    # nothing may be started while Supvisors is stopping everything before the restart
    assert not mocked_start.called, mocked_start.call_args_list


# ------------------------------ F20
def test_F20_join_during_restarting(supvisors_instance):
    supv = supvisors_instance
    supv.rpc_handler = Mock(spec=RpcHandler)
    supv.starter = Starter(supv)
    supv.stopper = Stopper(supv)
    fsm = supv.fsm = FiniteStateMachine(supv)
    local_identifier = supv.mapper.local_identifier
    supv.context.local_status._state = SupvisorsInstanceStates.RUNNING
    # only the local instance and one peer are RUNNING and agree on the Master; the others are STOPPED
    others = [i for i in supv.mapper.instances if i != local_identifier]
    peer, newcomer = others[0], others[1]
    supv.context.instances[peer]._state = SupvisorsInstanceStates.RUNNING
    states = {i: SupvisorsInstanceStates.STOPPED for i in supv.mapper.instances}
    states[local_identifier] = states[peer] = SupvisorsInstanceStates.RUNNING
    for i in (local_identifier, peer):
        sm = supv.state_modes.instance_state_modes[i]
        sm.master_identifier = local_identifier
        sm.instance_states = dict(states)
    assert supv.state_modes.is_master()
    local_status = supv.context.local_status
    info = process_info_by_name('xfontsel')
    info['stopwaitsecs'] = 60
    supv.context.load_processes(local_status, [info], check_state=False)
    supv.state_modes.state = SupvisorsStates.OPERATION
    fsm.instance = OperationState(supv)
    fsm.on_restart()
    assert fsm.state == SupvisorsStates.RESTARTING
    assert supv.stopper.in_progress()
    fsm.next()
    assert fsm.state == SupvisorsStates.RESTARTING
    # a Supvisors instance that has just started completes its handshake: CHECKED, no Master yet
    supv.context.instances[newcomer]._state = SupvisorsInstanceStates.CHECKED
    fsm.next()
    # the stop phase is not over: the Master must not have sent the restart order yet
    assert supv.stopper.in_progress()
    assert fsm.state == SupvisorsStates.RESTARTING, fsm.state
    assert not supv.rpc_handler.send_restart.called


# ------------------------------ F21 (fix 3debcbc, C16 / C17): start_args with a namespec that designates a group
def test_F21_start_args_group(supvisors_instance):
    from supvisors.rpcinterface import RPCInterface
    from supervisor.xmlrpc import RPCError
    import pytest
    supv = supvisors_instance
    supv.fsm.state = SupvisorsStates.OPERATION
    rpc = RPCInterface(supv)
    info = process_info_by_name('xfontsel')
    supv.context.load_processes(supv.context.local_status, [info], check_state=False)
    with pytest.raises(RPCError):
        rpc.start_args('sample_test_1:*', 'x', False)      # AttributeError before the fix
