"""Demonstrations (NOT checks, decide nothing) that the static findings F6a, F6b, F7, F9, F10 are genuine.
They fail on the pinned tree and pass once the corresponding fix: commit is applied.
Run: cd /repo && /venv/bin/python -m pytest -q -p no:cacheprovider <this file>
"""
import pytest
from unittest.mock import Mock
from supervisor.states import ProcessStates
from supvisors.tests.conftest import *
from supvisors.tests.base import database_copy, process_info_by_name, any_stopped_process_info
from supvisors.commander import Starter, Stopper, StarterModel, ApplicationStartJobs, ProcessStartCommand
from supvisors.ttypes import (DistributionRules, StartingStrategies, StartingFailureStrategies,
                              SupvisorsInstanceStates, ApplicationStatusParseError)


def _stopped_info(name, group='appli'):
    info = any_stopped_process_info()
    info.update({'name': name, 'group': group, 'state': ProcessStates.STOPPED, 'statename': 'STOPPED', 'startsecs': 1, 'stopwaitsecs': 1, 'disabled': False,
                 'program_name': name, 'process_index': 0, 'extra_args': ''})
    return info


def _application(supv, distribution=DistributionRules.ALL_INSTANCES):
    appli = create_application('appli', supv)
    appli.rules.managed = True
    appli.rules.distribution = distribution
    supv.context.applications['appli'] = appli
    return appli


def _add(supv, appli, name, identifiers, seq=1, load=10, **rules):
    info = _stopped_info(name)
    proc = create_process(info, supv)
    proc.rules.start_sequence = seq
    proc.rules.expected_load = load
    for k, v in rules.items():
        setattr(proc.rules, k, v)
    for ident in identifiers:
        proc.add_info(ident, dict(info))
    appli.add_process(proc)
    for ident in identifiers:
        supv.context.instances[ident].add_process(proc)
    return proc


def test_F9_single_node_programs_on_different_instances(supvisors_instance):
    """ SINGLE_NODE application whose two programs are known by two different instances of the same node. """
    supv = supvisors_instance
    a, b = '10.0.0.1:25000', '10.0.0.3:25000'      # same machine id in the fixture
    assert any(a in ids and b in ids for ids in supv.mapper.nodes.values())
    for ident in (a, b):
        supv.context.instances[ident]._state = SupvisorsInstanceStates.RUNNING
    appli = _application(supv, DistributionRules.SINGLE_NODE)
    p1 = _add(supv, appli, 'p1', [a])
    p2 = _add(supv, appli, 'p2', [b])
    appli.update_sequences()
    supv.starter = starter = Starter(supv)
    sent = []
    supv.rpc_handler = Mock(**{'send_start_process.side_effect': lambda i, n, e: sent.append((i, n))})
    starter.start_application(StartingStrategies.CONFIG, appli)       # TypeError on the pinned tree
    assert sorted(sent) == [(a, 'appli:p1'), (b, 'appli:p2')]


def test_F10_node_membership_duplicated(supvisors_instance):
    """ the handshake is re-run at every (re)connection: the node membership must stay a set. """
    supv = supvisors_instance
    ident = '10.0.0.2:25000'
    payload = supv.mapper.instances[ident].serial()
    machine_id = payload['network']['machine_id']
    before = supv.mapper.nodes[machine_id].count(ident)
    supv.mapper.identify(payload)
    supv.mapper.identify(payload)
    assert supv.mapper.nodes[machine_id].count(ident) == max(before, 1)      # 3 on the pinned tree


def _model_context(supv):
    a = '10.0.0.1:25000'
    supv.context.instances[a]._state = SupvisorsInstanceStates.RUNNING
    appli = _application(supv)
    supv.starter_model = model = StarterModel(supv)
    supv.stopper = Stopper(supv)
    supv.rpc_handler = Mock()
    return a, appli, model


def test_F6a_prediction_rewrites_live_payload(supvisors_instance):
    a, appli, model = _model_context(supvisors_instance)
    p1 = _add(supvisors_instance, appli, 'p1', [a])
    appli.update_sequences()
    assert p1.info_map[a]['state'] == ProcessStates.STOPPED
    model.test_start_application(StartingStrategies.CONFIG, appli)
    assert p1.info_map[a]['state'] == ProcessStates.STOPPED          # RUNNING (20) on the pinned tree


def test_F6b_prediction_sends_a_stop(supvisors_instance):
    """ required process without resource + STOP strategy: the model inherits Starter.after -> real Stopper. """
    supv = supvisors_instance
    a, appli, model = _model_context(supv)
    running = _add(supv, appli, 'sibling', [a], seq=0)
    info = dict(running.info_map[a]); info.update({'state': ProcessStates.RUNNING, 'now_monotonic': 10})
    running.update_info(a, info)
    assert running.running_on(a)
    required = _add(supv, appli, 'req', [a], seq=1, load=200, required=True,
                    starting_failure_strategy=StartingFailureStrategies.STOP)       # no room: load 200 > 100
    appli.update_sequences()
    model.test_start_processes(StartingStrategies.CONFIG, [required])
    assert not supv.rpc_handler.send_stop_process.called             # called on the pinned tree
    assert not supv.stopper.in_progress()


@pytest.mark.parametrize('formula', ['"x".upper()', 'all()', 'import os', '"("'])
def test_F7_hostile_formula(supvisors_instance, formula):
    appli = _application(supvisors_instance)
    _add(supvisors_instance, appli, 'p1', ['10.0.0.1:25000'])
    appli.update_sequences()
    try:
        appli.rules.status_formula = formula
    except ApplicationStatusParseError:
        return                                      # refused at load time: fine
    appli.update()                                  # AttributeError / IndexError / re.error on the pinned tree
    assert appli.major_failure
