"""Explicit-raise escape analysis over the context-sensitive call graph.

esc(node) = set of (exception class name, origin 'qual:line', facts) that can leave the node, considering `raise`
statements, `assert`, handler matching on the builtin + repository exception hierarchies, bare re-raise, and
calls/property reads resolved by the engine. Facts are kept along self-calls so that a raise contradicting the
caller's facts (is_master() true at the call, raise under is_master() false) is infeasible.
"""
import ast
import builtins
from .model import Unit, closures
from .paths import factmap, handler_names
from .callgraph import is_logging


class Escape:
    def __init__(self, P, implicit=None):
        self.P = P
        self.memo, self.stack = {}, set()
        self.implicit = implicit or (lambda env, call: ())     # call -> iterable of exception names

    def bases(self, name):
        c = self.P.classes.get(name)
        if c:
            out = [name]
            for b in c.node.bases:
                bn = b.id if isinstance(b, ast.Name) else getattr(b, 'attr', '?')
                out += self.bases(bn)
            return out
        b = getattr(builtins, name, None)
        if isinstance(b, type) and issubclass(b, BaseException):
            return [k.__name__ for k in b.__mro__ if k is not object]
        if name == 'error':
            return ['error', 'Exception', 'BaseException']           # re.error
        return [name, 'Exception', 'BaseException']                   # external (RPCError, Fault, ...)

    @staticmethod
    def contradictory(facts):
        d = {}
        for f in facts:
            if d.setdefault(f[0], f[1]) != f[1]:
                return True
        return False

    def caught(self, name, handlers):
        b = self.bases(name.replace('(re-raised)', ''))
        return any(hn in b for hn in handlers)

    def esc(self, node):
        if node in self.memo:
            return self.memo[node]
        if node in self.stack:
            return set()
        self.stack.add(node)
        ctx, unit = node
        P = self.P
        env = P.env(unit, ctx)
        fm = factmap(unit)

        def of_expr(e):
            out = set()
            todo = [e]
            while todo:
                x = todo.pop()
                if isinstance(x, ast.Lambda):
                    continue
                todo.extend(ast.iter_child_nodes(x))
                tg, selfcall = None, False
                if isinstance(x, ast.Call):
                    if is_logging(x):
                        continue
                    tg = env.targets(x)
                    selfcall = isinstance(x.func, ast.Attribute) and isinstance(x.func.value, ast.Name) \
                        and x.func.value.id == 'self'
                    for en in self.implicit(env, x):
                        out.add((en, '%s:%d' % (unit.qual, x.lineno), frozenset()))
                elif isinstance(x, ast.Attribute):
                    tg = env.prop_targets(x)
                    selfcall = isinstance(x.value, ast.Name) and x.value.id == 'self'
                for t in tg or []:
                    for (en, org, fs) in self.esc(t):
                        nf = (frozenset(tuple(f) for f in fm.at(x)) | fs) if selfcall else frozenset()
                        if selfcall and self.contradictory(nf):
                            continue
                        out.add((en, org, nf if len(nf) < 12 else frozenset()))
            return out

        def block(stmts, caught_stack):
            out = set()
            for st in stmts:
                if isinstance(st, ast.Raise) and getattr(st, '_synthetic', False):
                    # the default branch written by sa.normalise for a table lookup `T[k]`: an implicit KeyError, and
                    # implicit raisers of subscripts are out of the scope of this analysis (explicit raises only)
                    continue
                if isinstance(st, ast.Raise):
                    if st.exc is None:
                        for en in (caught_stack[-1] if caught_stack else ['Exception']):
                            out.add((en + '(re-raised)', '%s:%d' % (unit.qual, st.lineno),
                                     frozenset(tuple(f) for f in fm.at(st))))
                    else:
                        e = st.exc.func if isinstance(st.exc, ast.Call) else st.exc
                        nm = e.id if isinstance(e, ast.Name) else (e.attr if isinstance(e, ast.Attribute) else '?')
                        out.add((nm, '%s:%d' % (unit.qual, st.lineno), frozenset(tuple(f) for f in fm.at(st))))
                        out |= of_expr(st.exc)
                elif isinstance(st, ast.Assert):
                    out.add(('AssertionError', '%s:%d' % (unit.qual, st.lineno), frozenset()))
                    out |= of_expr(st.test)
                elif isinstance(st, ast.Try):
                    body = block(st.body, caught_stack)
                    for en, org, fs in body:
                        if not any(self.caught(en, handler_names(h)) for h in st.handlers):
                            out.add((en, org, fs))
                    out |= block(st.orelse, caught_stack)
                    for h in st.handlers:
                        matched = sorted({en.replace('(re-raised)', '') for en, _, _ in body
                                          if self.caught(en, handler_names(h))})
                        out |= block(h.body, caught_stack + [matched or list(handler_names(h))])
                    out |= block(st.finalbody, caught_stack)
                elif isinstance(st, (ast.FunctionDef, ast.AsyncFunctionDef, ast.ClassDef)):
                    pass
                else:
                    for fld in ('body', 'orelse'):
                        v = getattr(st, fld, None)
                        if isinstance(v, list) and v and isinstance(v[0], ast.stmt):
                            out |= block(v, caught_stack)
                    for ch in ast.iter_child_nodes(st):
                        if isinstance(ch, ast.expr):
                            out |= of_expr(ch)
                        elif isinstance(ch, ast.withitem):
                            out |= of_expr(ch.context_expr)
            return out

        res = block(unit.node.body, [])
        # abstract NotImplementedError stubs of never-instantiated classes
        if unit.cls and unit.cls not in P.inst:
            res = {r for r in res if r[0] != 'NotImplementedError'}
        self.stack.discard(node)
        self.memo[node] = res
        return res

    def esc_with_closures(self, node):
        ctx, unit = node
        out = set(self.esc(node))
        for cu in closures(unit):
            out |= self.esc((ctx, cu))
        return out

    def esc_of_statements(self, ctx, unit, stmts, label):
        """escape set of a sub-block (e.g. the body of the last-resort try) analysed as its own unit."""
        fake = ast.FunctionDef(name=unit.node.name, args=unit.node.args, body=stmts, decorator_list=[], returns=None,
                               lineno=unit.node.lineno, col_offset=0)
        fu = Unit(unit.mod, unit.cls, fake, unit.kind)
        fu.qual = unit.qual
        return self.esc((ctx, fu))
