"""Sensitivity self-test of the rules (thorough tier).

For each seeded edit of sa/mutants.py that belongs to the property: copy <root>/supvisors (and docs/) to a scratch
directory created with tempfile (outside /repo and /verif, removed in a finally), apply the text edit, verify that the
edited module still compiles (compile() - nothing is run), run the property's rules on the scratch tree and compare the
reported finding keys with those of the unedited tree. An edit must make a NEW finding appear whose key contains the
expected substring; a behaviour-preserving variant must add nothing. Outcomes go to the evidence; they never print a
VIOLATION line and never change the exit code (an undetected edit is printed as SELFTEST-MISS)."""
import os
import pathlib
import shutil
import sys
import tempfile
from concurrent.futures import ProcessPoolExecutor

from . import mutants


def _keys(prop, root):
    from .main import analyse
    R = analyse(prop, root)
    return sorted(f['key'] for f in R.findings)


def _one(args):
    prop, root, idx, f, old, new, expect, base = args
    src = pathlib.Path(root) / 'supvisors' / f
    try:
        text = src.read_text()
    except OSError:
        return idx, 'skipped', 'file %s absent' % f, []
    if text.count(old) < 1:
        return idx, 'skipped', 'anchor text absent from the current tree', []
    tmp = tempfile.mkdtemp(prefix='verif-selftest.')
    try:
        shutil.copytree(pathlib.Path(root) / 'supvisors', tmp + '/supvisors',
                        ignore=shutil.ignore_patterns('__pycache__', 'tests', 'test', 'ui'))
        docs = pathlib.Path(root) / 'docs' / 'configuration.rst'
        if docs.exists():
            os.makedirs(tmp + '/docs')
            shutil.copy(docs, tmp + '/docs/configuration.rst')
        edited = text.replace(old, new, 1)
        if edited == text:
            return idx, 'skipped', 'edit is the identity', []
        try:
            compile(edited, f, 'exec')
        except SyntaxError as exc:
            return idx, 'skipped', 'edited module does not compile: %s' % exc, []
        (pathlib.Path(tmp) / 'supvisors' / f).write_text(edited)
        try:
            keys = _keys(prop, tmp)
        except Exception as exc:                                # AnalysisError included: the edit was noticed
            if expect is None:
                return idx, 'neutral-analysis-error', str(exc)[:200], []
            return idx, 'analysis-error', str(exc)[:200], []
        new_keys = [k for k in keys if k not in base]
        if expect is None:
            return idx, ('neutral-silent' if not new_keys else 'neutral-FIRED'), '', new_keys[:3]
        hit = [k for k in new_keys if expect in k]
        if hit:
            return idx, 'detected', '', hit[:2]
        return idx, ('detected-other' if new_keys else 'MISSED'), '', new_keys[:3]
    finally:
        shutil.rmtree(tmp, ignore_errors=True)


def run_corpus(prop, root='/repo', jobs=None):
    items = [(i, x) for i, x in enumerate(mutants.M) if x[0] == prop]
    if not items:
        return {'mutants_total': 0}
    base = _keys(prop, root)
    args = [(prop, root, i, f, old, new, expect, base) for i, (p, f, old, new, expect) in items]
    results = {}
    with ProcessPoolExecutor(max_workers=jobs or min(16, os.cpu_count() or 4)) as ex:
        for idx, status, info, keys in ex.map(_one, args):
            results[idx] = (status, info, keys)
    summary = {'mutants_total': 0, 'detected': 0, 'detected_by_another_rule': 0, 'analysis_error': 0, 'missed': [],
               'skipped': [], 'neutral_total': 0, 'neutral_silent': 0, 'neutral_fired': [], 'samples': []}
    for i, (p, f, old, new, expect) in items:
        status, info, keys = results[i]
        label = '%s: %r -> %r' % (f, old.strip().splitlines()[0][:60], new.strip().splitlines()[0][:60] if new.strip() else '<deleted>')
        if status == 'skipped':
            summary['skipped'].append({'edit': label, 'why': info})
            continue
        if expect is None:
            summary['neutral_total'] += 1
            if status == 'neutral-silent':
                summary['neutral_silent'] += 1
            else:
                summary['neutral_fired'].append({'edit': label, 'status': status, 'keys': keys, 'info': info})
            continue
        summary['mutants_total'] += 1
        if status == 'detected':
            summary['detected'] += 1
            if len(summary['samples']) < 6:
                summary['samples'].append({'edit': label, 'reported': keys[0]})
        elif status == 'detected-other':
            summary['detected_by_another_rule'] += 1
            summary['samples'].append({'edit': label, 'expected': expect, 'reported_instead': keys})
        elif status == 'analysis-error':
            summary['analysis_error'] += 1
            summary['samples'].append({'edit': label, 'analysis_error': info})
        else:
            summary['missed'].append({'edit': label, 'expected': expect})
    return summary


def _patch_one(args):
    prop, root, patch, base = args
    import subprocess
    tmp = tempfile.mkdtemp(prefix='verif-selftest.')
    try:
        shutil.copytree(pathlib.Path(root) / 'supvisors', tmp + '/supvisors',
                        ignore=shutil.ignore_patterns('__pycache__', 'ui'))
        docs = pathlib.Path(root) / 'docs' / 'configuration.rst'
        if docs.exists():
            os.makedirs(tmp + '/docs')
            shutil.copy(docs, tmp + '/docs/configuration.rst')
        r = subprocess.run(['patch', '-p1', '-s', '--no-backup-if-mismatch', '-i', str(patch)], cwd=tmp,
                           capture_output=True, text=True)
        if r.returncode != 0:
            return str(patch), 'skipped', 'patch does not apply to the current tree', []
        try:
            keys = _keys(prop, tmp)
        except Exception as exc:
            return str(patch), 'analysis-error', str(exc)[:200], []
        return str(patch), 'ran', '', [k for k in keys if k not in base]
    finally:
        shutil.rmtree(tmp, ignore_errors=True)


def run_patches(prop, root='/repo', jobs=None):
    """the confirmed patches kept under /verif: seeded/<prop>-k (written against this property: must be reported) and
    neutral/* aimed at this property (behaviour-preserving refactorings: must stay silent)."""
    import json
    verif = pathlib.Path(__file__).resolve().parent.parent
    seeded = sorted((verif / 'seeded').glob(prop + '-*/patch.diff'))
    neutral = []
    for pth in sorted((verif / 'neutral').glob('*/patch.diff')):
        try:
            meta = json.loads((pth.parent / 'meta.json').read_text())
        except Exception:
            meta = {}
        if prop in (meta.get('properties') or [meta.get('property')]):
            neutral.append(pth)
    if not seeded and not neutral:
        return {}
    base = _keys(prop, root)
    out = {'seeded_total': 0, 'seeded_detected': 0, 'seeded_missed': [], 'neutral_total': 0, 'neutral_silent': 0,
           'neutral_fired': [], 'skipped': []}
    with ProcessPoolExecutor(max_workers=jobs or min(16, os.cpu_count() or 4)) as ex:
        res = list(ex.map(_patch_one, [(prop, root, p, base) for p in seeded + neutral]))
    for (pth, status, info, new), src in zip(res, seeded + neutral):
        name = src.parent.name
        if status == 'skipped':
            out['skipped'].append({'patch': name, 'why': info})
        elif src in seeded:
            out['seeded_total'] += 1
            if new or status == 'analysis-error':
                out['seeded_detected'] += 1
            else:
                out['seeded_missed'].append(name)
        else:
            out['neutral_total'] += 1
            if not new and status != 'analysis-error':
                out['neutral_silent'] += 1
            else:
                out['neutral_fired'].append({'patch': name, 'keys': new[:3], 'info': info})
    return out


def run(prop, R):
    """called by the driver for --tier thorough: adds the self-test outcome to the evidence of the run."""
    s = run_corpus(prop, R.root)
    R.extra['selftest'] = s
    ps = run_patches(prop, R.root)
    if ps:
        R.extra['selftest_patches'] = ps
        for nm in ps['seeded_missed']:
            print('SELFTEST-MISS property=%s kept seeded change %s is not reported' % (prop, nm))
        for nf in ps['neutral_fired']:
            print('SELFTEST-NEUTRAL-FIRED property=%s behaviour-preserving refactoring %s reported as %s %s' %
                  (prop, nf['patch'], nf['keys'], nf['info']))
        print('%s kept patches: %d/%d seeded changes reported, %d/%d behaviour-preserving refactorings silent, %d skipped'
              % (prop, ps['seeded_detected'], ps['seeded_total'], ps['neutral_silent'], ps['neutral_total'],
                 len(ps['skipped'])))
    for mm in s.get('missed', []):
        print('SELFTEST-MISS property=%s %s (expected a finding containing %s)' % (prop, mm['edit'], mm['expected']))
    for nf in s.get('neutral_fired', []):
        print('SELFTEST-NEUTRAL-FIRED property=%s %s %s' % (prop, nf['edit'], nf['keys']))
    print('%s self-test: %d/%d seeded edits detected (%d by another rule, %d as analysis error), %d/%d neutral variants '
          'silent, %d skipped' % (prop, s.get('detected', 0) + s.get('detected_by_another_rule', 0) + s.get('analysis_error', 0),
                                 s.get('mutants_total', 0), s.get('detected_by_another_rule', 0), s.get('analysis_error', 0),
                                 s.get('neutral_silent', 0), s.get('neutral_total', 0), len(s.get('skipped', []))))


if __name__ == '__main__':
    props = sys.argv[1:] or sorted({x[0] for x in mutants.M})
    for p in props:
        s = run_corpus(p)
        print(p, {k: (v if not isinstance(v, list) else len(v)) for k, v in s.items() if k != 'samples'})
        for k in ('missed', 'neutral_fired', 'skipped'):
            for x in s.get(k, []):
                print('   ', k.upper(), x)
        for x in s.get('samples', []):
            if 'reported_instead' in x or 'analysis_error' in x:
                print('    NOTE', x)
