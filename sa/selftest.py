"""Sensitivity self-test of the rules (thorough tier): placeholder filled in later."""


def run(prop, R):
    return
