"""Abstract evaluation over finite sets of enum members: which members can a method return?

Values are member names (str), None (the python None), special tokens (e.g. 'MASTER_STATE' for a read of
`state_modes.master_state`) and '?<text>' for anything not understood (callers turn that into ANALYSIS-ERROR).
"""
import ast
from .model import own_nodes, AnalysisError
from .paths import factmap, always_exits


class EnumEval:
    def __init__(self, P, enum_name, attr_tokens=None):
        self.P, self.enum = P, enum_name
        self.members = set(P.enum_members(enum_name))
        self.attr_tokens = attr_tokens or {}
        self.memo, self.stack = {}, []

    def const(self, e):
        if isinstance(e, ast.Attribute) and isinstance(e.value, ast.Name) and e.value.id == self.enum \
                and e.attr in self.members:
            return e.attr
        return None

    def const_set(self, e):
        c = self.const(e)
        if c:
            return {c}
        if isinstance(e, (ast.List, ast.Tuple, ast.Set)) and all(self.const(x) for x in e.elts):
            return {self.const(x) for x in e.elts}
        return None

    def eval(self, ctx, defining, e, env, sites):
        c = self.const(e)
        if c:
            return {c}
        if isinstance(e, ast.Constant) and e.value is None:
            return {None}
        if isinstance(e, ast.Name):
            return set(env.get(e.id, {'?' + e.id}))
        if isinstance(e, ast.Attribute) and e.attr in self.attr_tokens:
            return {self.attr_tokens[e.attr]}
        if isinstance(e, ast.Call):
            f = e.func
            if isinstance(f, ast.Attribute):
                if isinstance(f.value, ast.Name) and f.value.id == 'self':
                    return self.returns(ctx, f.attr, None, sites)
                if isinstance(f.value, ast.Call) and isinstance(f.value.func, ast.Name) and f.value.func.id == 'super':
                    return self.returns(ctx, f.attr, defining, sites)
            return {'?call:' + ast.unparse(e)}
        if isinstance(e, ast.IfExp):
            return self.eval(ctx, defining, e.body, env, sites) | self.eval(ctx, defining, e.orelse, env, sites)
        if isinstance(e, ast.BoolOp) and isinstance(e.op, ast.Or):
            out = set()
            for i, v in enumerate(e.values):
                r = self.eval(ctx, defining, v, env, sites)
                if i < len(e.values) - 1:
                    r = {x for x in r if x is not None}
                out |= r
            return out
        return {'?' + ast.unparse(e)}

    def returns(self, ctx, name, after=None, sites=None):
        """set of values method `name` can return on a receiver of class ctx (resolved after `after` in the MRO)."""
        if sites is None:
            sites = {}
        key = (ctx, name, after)
        if key in self.memo:
            r, s = self.memo[key]
            for k, v in s.items():
                sites.setdefault(k, set()).update(v)
            return set(r)
        if key in self.stack:
            return set()
        self.stack.append(key)
        mem = self.P.member(ctx, name, after)
        if not mem or mem[0] != 'method':
            self.stack.pop()
            return {'?nomethod:' + name}
        k, unit = mem[1], mem[2]
        fn = unit.node
        fm = factmap(unit)
        env, mysites = {}, {}
        for _ in range(2):
            for n in own_nodes(fn):
                if isinstance(n, (ast.Assign, ast.AnnAssign)):
                    tgt = n.targets[0] if isinstance(n, ast.Assign) else n.target
                    if isinstance(tgt, ast.Name) and n.value is not None:
                        v = self.eval(ctx, k, n.value, env, mysites)
                        env[tgt.id] = set(env.get(tgt.id, set())) | v
        out = set()
        for n in own_nodes(fn):
            if isinstance(n, ast.Return):
                if n.value is None:
                    v = {None}
                else:
                    v = self.eval(ctx, k, n.value, env, mysites)
                    if isinstance(n.value, ast.Name):
                        facts = fm.at(n)
                        if any(f[0] == n.value.id and f[1] for f in facts) or \
                                any(f[0] == '%s is None' % n.value.id and not f[1] for f in facts):
                            v = {x for x in v if x is not None}
                for x in v:
                    if x is not None and not str(x).startswith('?') and not isinstance(n.value, ast.Call) \
                            and not (isinstance(n.value, ast.Name)):
                        mysites.setdefault(x, set()).add((unit, n))
                    elif isinstance(n.value, ast.Name) and x is not None and not str(x).startswith('?'):
                        # value flows through a local: attribute the decision to the assignment if it is a constant
                        for a in own_nodes(fn):
                            if isinstance(a, (ast.Assign, ast.AnnAssign)):
                                tgt = a.targets[0] if isinstance(a, ast.Assign) else a.target
                                if isinstance(tgt, ast.Name) and tgt.id == n.value.id and a.value is not None and \
                                        (self.const(a.value) == x or (isinstance(a.value, ast.Attribute) and
                                                                      self.attr_tokens.get(a.value.attr) == x)):
                                    mysites.setdefault(x, set()).add((unit, n))
                out |= v
        if not always_exits(fn.body):
            out.add(None)
        self.stack.pop()
        self.memo[key] = (set(out), {a: set(b) for a, b in mysites.items()})
        for a, b in mysites.items():
            sites.setdefault(a, set()).update(b)
        return out


def class_table(P, cls, name, enum_eval, values_as='set'):
    """read a class-level dict {Enum.K: [Enum.A, ...]} or {Enum.K: ClassName} as python data."""
    mem = P.member(cls, name)
    if not mem or mem[0] != 'cattr' or not isinstance(mem[2][1], ast.Dict):
        raise AnalysisError('%s.%s is not a class-level dict literal' % (cls.name, name))
    d = mem[2][1]
    out = {}
    for k, v in zip(d.keys, d.values):
        kk = enum_eval.const(k)
        if kk is None:
            raise AnalysisError('%s.%s: key %s is not a %s member' % (cls.name, name, ast.unparse(k), enum_eval.enum))
        if values_as == 'set':
            vs = enum_eval.const_set(v)
            if vs is None:
                if isinstance(v, (ast.List, ast.Tuple)) and not v.elts:
                    vs = set()
                else:
                    raise AnalysisError('%s.%s[%s]: value %s is not a list of members' %
                                        (cls.name, name, kk, ast.unparse(v)))
            out[kk] = vs
        else:
            if not isinstance(v, ast.Name):
                raise AnalysisError('%s.%s[%s]: value %s is not a class name' % (cls.name, name, kk, ast.unparse(v)))
            r = P.lookup(mem[1].mod, v.id)
            if not r or r[0] != 'class':
                raise AnalysisError('%s.%s[%s]: %s is not a class' % (cls.name, name, kk, v.id))
            out[kk] = r[1]
    return out, d
