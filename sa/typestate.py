"""Typestate of SupvisorsInstanceStatus.state: which states can an instance be in at each assignment site?

cur(site) is derived from the dominating facts about the receiver (==, in, predicate summaries, early exits) and,
when the receiver is a parameter, from the facts at every caller (depth-bounded, cycle-safe).
"""
import ast
from .model import own_nodes, AnalysisError
from .absval import EnumEval, class_table
from .paths import factmap, returns, statements
from .callgraph import CallGraph, all_nodes

ENUM = 'SupvisorsInstanceStates'
DEPTH = 5


class InstanceTypestate:
    def __init__(self, P, G=None):
        self.P = P
        self.cls = P.cls('SupvisorsInstanceStatus')
        self.ev = EnumEval(P, ENUM)
        self.ALL = set(P.enum_members(ENUM))
        self.T, self.tnode = class_table(P, self.cls, '_Transitions', self.ev, 'set')
        if set(self.T) != self.ALL:
            raise AnalysisError('SupvisorsInstanceStatus._Transitions keys %s differ from the enum' % sorted(self.T))
        self.summ = self._summaries()
        self.G = G or CallGraph(P)
        self._callers = None
        self._result_memo = {}

    # ------------------------------------------------------------ predicate summaries
    def implied(self, expr, recv, summ=None):
        """states of `recv` implied by expr being true (ALL when expr says nothing about it)."""
        summ = self.summ if summ is None else summ
        if isinstance(expr, ast.BoolOp) and isinstance(expr.op, ast.And):
            s = set(self.ALL)
            for v in expr.values:
                s &= self.implied(v, recv, summ)
            return s
        if isinstance(expr, ast.BoolOp) and isinstance(expr.op, ast.Or):
            s = set()
            for v in expr.values:
                s |= self.implied(v, recv, summ)
            return s
        if isinstance(expr, ast.Compare) and len(expr.ops) == 1:
            l, op, r = expr.left, expr.ops[0], expr.comparators[0]
            if isinstance(op, (ast.Eq, ast.NotEq, ast.Is, ast.IsNot)) and \
                    ast.unparse(r) in (recv + '.state', recv + '._state'):
                l, r = r, l         # CONST == x.state
            if ast.unparse(l) in (recv + '.state', recv + '._state'):
                cs = self.ev.const_set(r)
                if cs:
                    if isinstance(op, (ast.Eq, ast.In, ast.Is)):
                        return set(cs)
                    if isinstance(op, (ast.NotEq, ast.NotIn, ast.IsNot)):
                        return self.ALL - cs
        if isinstance(expr, ast.Call) and isinstance(expr.func, ast.Attribute) \
                and ast.unparse(expr.func.value) == recv and expr.func.attr in summ:
            return set(summ[expr.func.attr])
        if isinstance(expr, ast.Attribute) and ast.unparse(expr.value) == recv and expr.attr in summ:
            return set(summ[expr.attr])
        return set(self.ALL)

    def exact(self, expr, recv):
        """True when expr is *equivalent* to a state-membership test of recv (so its negation is informative)."""
        if isinstance(expr, ast.Compare) and len(expr.ops) == 1:
            l, r = expr.left, expr.comparators[0]
            if isinstance(expr.ops[0], (ast.Eq, ast.NotEq, ast.Is, ast.IsNot)) and \
                    ast.unparse(r) in (recv + '.state', recv + '._state'):
                l, r = r, l
            if ast.unparse(l) in (recv + '.state', recv + '._state') and self.ev.const_set(r):
                return True
        if isinstance(expr, ast.Attribute) and ast.unparse(expr.value) == recv and expr.attr in self.exact_props:
            return True
        if isinstance(expr, ast.Call) and isinstance(expr.func, ast.Attribute) and \
                ast.unparse(expr.func.value) == recv and expr.func.attr in self.exact_props:
            return True
        return False

    def _summaries(self):
        summ, self.exact_props = {}, set()
        units = {}
        for k in self.P.mro(self.cls):
            for nm, u in list(k.methods.items()) + list(k.props.items()):
                units.setdefault(nm, u)
        for _ in range(2):
            for nm, u in units.items():
                if nm == 'state':
                    continue
                rets = [n for n in own_nodes(u.node) if isinstance(n, ast.Return) and n.value is not None]
                if len(rets) != 1 or len([s for s in u.node.body if not isinstance(s, ast.Expr)]) > 3:
                    continue
                v = rets[0].value
                # resolve single-assignment locals used in the returned conjunction
                s = self.implied(v, 'self', summ)
                if s != self.ALL:
                    summ[nm] = s
                    pure = self.exact(v, 'self') and isinstance(v, ast.Compare)
                    if pure:
                        self.exact_props.add(nm)
        return summ

    def refine(self, facts, recv):
        cur = set(self.ALL)
        for f in facts:
            e = f.node
            if e is None:
                continue
            if f[1]:
                if self._is_neg_form(f, e):
                    continue
                cur &= self.implied(e, recv)
            else:
                if self._is_neg_form(f, e):
                    continue
                if self.exact(e, recv):
                    cur &= (self.ALL - self.implied(e, recv))
        return cur

    @staticmethod
    def _is_neg_form(f, e):
        """canonical duplicates produced by paths.atoms (`x not in y` True -> `x in y` False): the node is the
        original comparison, the text its positive form; skip the duplicate to avoid double (wrong-polarity) use."""
        return ast.unparse(e) != f[0] and isinstance(e, ast.Compare) and \
            isinstance(e.ops[0], (ast.NotEq, ast.NotIn, ast.IsNot))

    # ------------------------------------------------------------ sites
    def sites(self):
        """[(unit, ctx, assign node, receiver text, new state)] for every `x.state = SupvisorsInstanceStates.K`."""
        out = []
        for u in self.P.all_units():
            env = None
            for n in own_nodes(u.node):
                if isinstance(n, ast.Assign) and len(n.targets) == 1 and isinstance(n.targets[0], ast.Attribute) \
                        and n.targets[0].attr == 'state':
                    k = self.ev.const(n.value)
                    env = env or self.P.env(u, u.cls)
                    t = env.typeof(n.targets[0].value)
                    if t and t[0] == 'inst' and t[1] is not self.cls:
                        continue
                    if k is None and not (t and t[1] is self.cls):
                        continue
                    if k is None:
                        raise AnalysisError('%s: instance state assigned from a non-constant expression %s' %
                                            (u.loc(n), ast.unparse(n.value)))
                    out.append((u, n, ast.unparse(n.targets[0].value), k))
        return out

    def callers(self):
        if self._callers is None:
            self._callers = self.G.callers_index(all_nodes(self.P))
        return self._callers

    def result_states(self, unit):
        """states of the object returned by `unit` (non-None returns that are a local name with facts on it)."""
        if unit in self._result_memo:
            return self._result_memo[unit]
        out = None
        for v, facts, node in returns(unit):
            if v is None or (isinstance(v, ast.Constant) and v.value is None):
                continue
            if isinstance(v, ast.Name):
                s = self.refine(facts, v.id)
            else:
                s = set(self.ALL)
            out = s if out is None else out | s
        self._result_memo[unit] = out if out is not None else set(self.ALL)
        return self._result_memo[unit]

    def killed_before(self, unit, node, recv):
        """line of the last statement, on the way to `node`, that may change recv's state (0 if none)."""
        last = [0]

        def writes(st):
            for x in ast.walk(st):
                if isinstance(x, ast.Assign) and isinstance(x.targets[0], ast.Attribute) and \
                        x.targets[0].attr == 'state' and ast.unparse(x.targets[0].value) == recv:
                    return True
                if isinstance(x, ast.Call) and any(ast.unparse(a) == recv for a in x.args) and \
                        isinstance(x.func, ast.Attribute) and x.func.attr in self.state_writers():
                    return True
            return False

        def find(stmts):
            for i, st in enumerate(stmts):
                inside = any(x is node for x in ast.walk(st))
                if inside:
                    for fld in ('body', 'orelse', 'finalbody'):
                        v = getattr(st, fld, None)
                        if isinstance(v, list) and any(x is node for s in v for x in ast.walk(s)):
                            find(v)
                    for h in getattr(st, 'handlers', []):
                        if any(x is node for s in h.body for x in ast.walk(s)):
                            find(h.body)
                    return True
                if writes(st):
                    last[0] = max(last[0], getattr(st, 'end_lineno', st.lineno))
            return False
        find(unit.node.body)
        return last[0]

    def state_writers(self):
        if not hasattr(self, '_writers'):
            self._writers = {u.name for u, n, recv, k in self.sites()
                             if recv in {a.arg for a in u.node.args.args}}
        return self._writers

    def cur(self, unit, node, recv, depth=0, seen=()):
        """set of states `recv` may be in when control reaches `node` of `unit`; also returns provenance notes."""
        fm = factmap(unit)
        kill = self.killed_before(unit, node, recv)
        facts = [f for f in fm.at(node) if f.node is None or getattr(f.node, 'lineno', 0) > kill or kill == 0]
        cur = self.refine(facts, recv)
        notes = []
        params = [a.arg for a in unit.node.args.posonlyargs + unit.node.args.args + unit.node.args.kwonlyargs]
        root = recv.split('.')[0]
        if kill:
            return cur, ['state possibly rewritten at line %d: earlier facts dropped' % kill]
        if recv in params and depth < DEPTH:
            edges = [e for e in self.callers().get((unit.cls, unit), []) if e.kind == 'call']
            # all contexts of the unit
            edges = [e for (ctx, u), es in self.callers().items() if u is unit for e in es if e.kind == 'call']
            from_callers = set()
            n_feasible = 0
            for e in edges:
                src_ctx, src_unit = e.src
                if (src_unit, id(e.node)) in seen:
                    continue
                arg = self._arg_for(e.node, unit, recv)
                if arg is None:
                    continue
                if self._infeasible(e.node, unit, fm.at(node)):
                    continue
                n_feasible += 1
                s, sub = self.expr_states(src_unit, e.node, arg, depth + 1, seen + ((src_unit, id(e.node)),))
                from_callers |= s
                notes.append('%s:%d -> %s' % (src_unit.qual, e.node.lineno, sorted(s)))
            if n_feasible:
                cur &= from_callers
        elif '.' not in recv and recv not in params:
            # local variable: assigned from a call whose result states are known, or a loop variable
            s = self.local_states(unit, recv)
            if s is not None:
                cur &= s
        return cur, notes

    def expr_states(self, unit, at_node, expr, depth, seen):
        txt = ast.unparse(expr)
        if isinstance(expr, (ast.Name, ast.Attribute)):
            return self.cur(unit, at_node, txt, depth, seen)
        return set(self.ALL), []

    def local_states(self, unit, name):
        out = None
        for n in own_nodes(unit.node):
            if isinstance(n, (ast.Assign, ast.AnnAssign)):
                tgt = n.targets[0] if isinstance(n, ast.Assign) else n.target
                if isinstance(tgt, ast.Name) and tgt.id == name and n.value is not None:
                    s = set(self.ALL)
                    if isinstance(n.value, ast.Call):
                        env = self.P.env(unit, unit.cls)
                        tg = env.targets(n.value)
                        if tg:
                            s = set()
                            for ctx, u in tg:
                                s |= self.result_states(u)
                    out = s if out is None else out | s
        return out

    @staticmethod
    def _arg_for(call, callee, param):
        a = callee.node.args
        names = [x.arg for x in a.posonlyargs + a.args]
        if names and names[0] == 'self':
            names = names[1:]
        for kw in call.keywords:
            if kw.arg == param:
                return kw.value
        if param in names:
            i = names.index(param)
            if i < len(call.args) and not any(isinstance(x, ast.Starred) for x in call.args[:i + 1]):
                return call.args[i]
        return None

    def _infeasible(self, call, callee, site_facts):
        """the site's facts about other parameters contradict what this caller passes (None-ness of literals)."""
        for f in site_facts:
            e = f.node
            if isinstance(e, ast.Compare) and len(e.ops) == 1 and isinstance(e.left, ast.Name) and \
                    isinstance(e.comparators[0], ast.Constant) and e.comparators[0].value is None:
                arg = self._arg_for(call, callee, e.left.id)
                if arg is None:
                    continue
                is_none_fact = (isinstance(e.ops[0], ast.Is) and ast.unparse(e) == f[0] and f[1]) or \
                               (isinstance(e.ops[0], ast.IsNot) and ast.unparse(e) == f[0] and not f[1])
                if is_none_fact and isinstance(arg, (ast.List, ast.Dict, ast.Tuple, ast.Set, ast.ListComp, ast.JoinedStr)):
                    return True
                if is_none_fact and isinstance(arg, ast.Constant) and arg.value is not None:
                    return True
        return False

    def valid(self, cur, new):
        return sorted(c for c in cur if c != new and new not in self.T[c])
