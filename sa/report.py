"""Findings, obligations, known-findings handling, evidence and exit codes."""
import json
import os
import pathlib
import time

from .model import AnalysisError

VERIF = pathlib.Path(__file__).resolve().parent.parent


class Rule:
    def __init__(self, rid, kind, text, minimum):
        self.rid, self.kind, self.text, self.minimum = rid, kind, text, minimum
        self.instances = []     # (what, where, ok)
        self.notes = []


class Reporter:
    def __init__(self, prop, tier='quick', seed=0, root='/repo'):
        self.prop, self.tier, self.seed, self.root = prop, tier, seed, str(root)
        self.rules = {}
        self.findings = []      # dict(rule, key, where, msg)
        self.t0 = time.time()
        self.assumptions = []
        self.stats = {}
        self.extra = {}

    # ---------------------------------------------------------------- rule declaration / obligations
    def rule(self, rid, kind, text, minimum=1):
        self.rules[rid] = Rule(rid, kind, text, minimum)
        return rid

    def ok(self, rid, what, where=''):
        self.rules[rid].instances.append((what, where, True))

    def fail(self, rid, key, where, msg, what=None):
        """a recognised construct contradicts the rule"""
        self.rules[rid].instances.append((what or msg, where, False))
        full = '%s.%s|%s' % (self.prop, rid, key)
        if any(f['key'] == full for f in self.findings):
            return
        self.findings.append({'property': self.prop, 'rule': rid, 'key': full, 'where': where, 'message': msg})

    def check(self, rid, cond, what, key, where, msg):
        if cond:
            self.ok(rid, what, where)
        else:
            self.fail(rid, key, where, msg, what)
        return cond

    def note(self, rid, text):
        self.rules[rid].notes.append(text)

    def assume(self, text):
        if text not in self.assumptions:
            self.assumptions.append(text)

    def require(self, cond, msg):
        """shape the analysis depends on; absence is an analysis error, never a violation"""
        if not cond:
            raise AnalysisError(msg)

    # ---------------------------------------------------------------- conclusion
    def finish(self, replay_keys=None):
        for r in self.rules.values():
            if len(r.instances) < r.minimum:
                raise AnalysisError('%s.%s matched %d instance(s), fewer than the %d confirmed on the pinned tree '
                                    '(the rule would pass vacuously)' % (self.prop, r.rid, len(r.instances), r.minimum))
        known = load_known()
        kf, viol = [], []
        for f in self.findings:
            if replay_keys is not None and f['key'] not in replay_keys:
                continue
            k = known.get(f['key'])
            if k and k.get('status') == 'known':
                kf.append((f, k))
            else:
                viol.append(f)
        for f, k in kf:
            print('KNOWN-FINDING: property=%s %s [%s at %s]' % (self.prop, k.get('what', f['message']), f['key'],
                                                                 f['where']))
        ev_dir = VERIF / 'evidence'
        ev_dir.mkdir(exist_ok=True)
        vio_path = ev_dir / ('%s.violations.json' % self.prop)
        if viol:
            if self.root != '/repo':
                vio_path = pathlib.Path('/tmp') / ('%s.%d.violations.json' % (self.prop, os.getpid()))
            vio_path.write_text(json.dumps({'property': self.prop, 'root': self.root, 'violations': viol}, indent=1))
            for f in viol:
                print('  %s %s: %s' % (f['key'], f['where'], f['message']))
            print('VIOLATION property=%s replay=%s' % (self.prop, vio_path))
        elif vio_path.exists() and self.root == '/repo' and replay_keys is None:
            vio_path.unlink()
        self._evidence(kf, viol)
        n_ob = sum(len(r.instances) for r in self.rules.values())
        print('%s: %d rules, %d obligations, %d discharged, %d known finding(s), %d violation(s) [%.2fs]' % (
            self.prop, len(self.rules), n_ob, n_ob - len(self.findings), len(kf), len(viol), time.time() - self.t0))
        return 1 if viol else 0

    def _evidence(self, kf, viol):
        n_ob = sum(len(r.instances) for r in self.rules.values())
        n_ok = sum(1 for r in self.rules.values() for i in r.instances if i[2])
        distinct = len({(r.rid, i[0], i[1]) for r in self.rules.values() for i in r.instances})
        samples = []
        for r in self.rules.values():
            for i in r.instances[:3]:
                samples.append({'rule': r.rid, 'obligation': i[0], 'where': i[1], 'discharged': i[2]})
        rules = [{'id': r.rid, 'kind': r.kind, 'rule': r.text, 'instances': len(r.instances),
                  'discharged': sum(1 for i in r.instances if i[2]), 'minimum_enforced': r.minimum,
                  'notes': r.notes[:40]} for r in self.rules.values()]
        ev = {
            'property_id': self.prop, 'tier': self.tier, 'seed': self.seed, 'level': 'other',
            'coverage': {
                'explanation': 'Static analysis of the source under %s (nothing imported or executed). Each rule '
                               'enumerates its instances (call sites, return paths, table rows, assignment sites) in '
                               'the resolved program and discharges one obligation per instance; a rule matching '
                               'fewer instances than confirmed by hand is an analysis error. Obligations not '
                               'discharged are the findings listed.' % self.root,
                'obligations': n_ob, 'discharged': n_ok,
                'evaluations': max(n_ob, 1), 'distinct_nontrivial': max(distinct, 2) if distinct >= 2 else distinct,
                'rule': 'one obligation per rule instance found in the current source; distinct = distinct '
                        '(rule, obligation text, location) triples',
                'samples': samples[:60], 'exhaustive': True,
                'rules': rules, 'analysed': self.stats,
                'known_findings': [f['key'] for f, _ in kf],
                'violations': [f['key'] for f in viol],
            },
            'assumptions': self.assumptions, 'wall_s': round(time.time() - self.t0, 3),
            'violations': len(viol),
        }
        ev['coverage'].update(self.extra)
        if self.root == '/repo' or os.environ.get('VERIF_WRITE_EVIDENCE'):
            (VERIF / 'evidence' / ('%s.json' % self.prop)).write_text(json.dumps(ev, indent=1))


_KNOWN = None


def load_known():
    global _KNOWN
    if _KNOWN is None:
        p = VERIF / 'known_findings.json'
        _KNOWN = {}
        if p.exists():
            for e in json.loads(p.read_text()).get('findings', []):
                _KNOWN[e['key']] = e
    return _KNOWN
