"""Per-property registration used to generate MANIFEST.json (tools/gen_manifest.py)."""

# id -> dict(text, technique, note)   (only implemented checks are listed; the rest goes to not_applicable)
CLAIMS = {
    'C02': dict(
        text='Decides, for every history, that the published Supvisors state stays on the documented graph: the '
             'transition table read from the source satisfies the documented graph constraints (R1), the only writer '
             'of the local state is FiniteStateMachine.set_state and its assignment is dominated by the table test '
             '(R2), and every decision of a Master-driven state is a follow of the Master state or taken under Master '
             'authority (R4). Not decided: message timing between a Master and its followers.',
        technique='table constraints + who-may-write/dominance + abstract decision sets over the class hierarchy (ast)',
        design='4/C02'),
    'C01': dict(
        text='Convergence of N instances on one Master under all schedules is NOT decided (it quantifies over '
             'interleavings no static argument in reach bounds). Decided are necessary structural conditions, for '
             'every path of the program: no automatic start/stop/conciliation/repair/restart sink is reachable from a '
             'Supervisor event callback without an is_master() guard on the path (R1, call graph); ELECTION is left '
             'only under stability and a single agreed Master and every later state re-checks the Master (R2); the '
             'Master is reset when it leaves RUNNING and has four writers only, selection is declared-first, '
             'core-first, lowest nick (R3); every change of state & modes is published (R4); stability definition (R5).',
        technique='guarded reachability over a context-sensitive call graph + return-path facts + who-may-write (ast)',
        design='4/C01'),
    'C08': dict(
        text='Liveness (bounded return to OPERATION) is NOT decided. Decided are the structural ways progress is lost: '
             'a state class deciding a transition the table refuses (parked for ever, R1: abstract decision sets of the '
             '9 state classes vs _Transitions), OPERATION unreachable in the table (R2), missing re-evaluation hooks on '
             'tick / Master publication / multi-step loop (R3), jobs not aborted when leaving working states (R4), a '
             'Slave follow window narrower than the states its Master can reach alone (R5), failure-strategy dispatch '
             '(R6) and the exact progress condition of each forward edge (R7).',
        technique='abstract decision sets vs transition table + graph reachability + must-call + return-path facts (ast)',
        design='4/C08'),
}

PENDING_REASON = 'check not implemented yet in this revision (static rules designed in DESIGN.md section 4)'
NOT_APPLICABLE = {}
