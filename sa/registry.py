"""Per-property registration used to generate MANIFEST.json (tools/gen_manifest.py)."""

# id -> dict(text, technique, note)   (only implemented checks are listed; the rest goes to not_applicable)
CLAIMS = {
    'C02': dict(
        text='Decides, for every history, that the published Supvisors state stays on the documented graph: the '
             'transition table read from the source satisfies the documented graph constraints (R1), the only writer '
             'of the local state is FiniteStateMachine.set_state and its assignment is dominated by the table test '
             '(R2), and every decision of a Master-driven state is a follow of the Master state or taken under Master '
             'authority (R4). Not decided: message timing between a Master and its followers.',
        technique='table constraints + who-may-write/dominance + abstract decision sets over the class hierarchy (ast)',
        design='4/C02'),
}

PENDING_REASON = 'check not implemented yet in this revision (static rules designed in DESIGN.md section 4)'
NOT_APPLICABLE = {}
