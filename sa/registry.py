"""Per-property registration used to generate MANIFEST.json (tools/gen_manifest.py)."""

# id -> dict(text, technique, note)   (only implemented checks are listed; the rest goes to not_applicable)
CLAIMS = {
    'C02': dict(
        text='Decides, for every history, that the published Supvisors state stays on the documented graph: the '
             'transition table read from the source satisfies the documented graph constraints (R1), the only writer '
             'of the local state is FiniteStateMachine.set_state and its assignment is dominated by the table test '
             '(R2), and every decision of a Master-driven state is a follow of the Master state or taken under Master '
             'authority (R4); who the Master can be - only a RUNNING candidate, forgotten when it leaves RUNNING, elected on a '
             'stable context only (R5, obligations shared with C01). Not decided: message timing between a Master and its '
             'followers.',
        technique='table constraints + who-may-write/dominance + abstract decision sets over the class hierarchy (ast)',
        design='4/C02'),
    'C01': dict(
        text='Convergence of N instances on one Master under all schedules is NOT decided (it quantifies over '
             'interleavings no static argument in reach bounds). Decided are necessary structural conditions, for '
             'every path of the program: no automatic start/stop/conciliation/repair/restart sink is reachable from a '
             'Supervisor event callback without an is_master() guard on the path (R1, call graph); ELECTION is left '
             'only under stability and a single agreed Master and every later state re-checks the Master (R2); the '
             'Master is reset when it leaves RUNNING and has four writers only, selection is declared-first, '
             'core-first, lowest nick (R3); every change of state & modes is published (R4); stability definition (R5).',
        technique='guarded reachability over a context-sensitive call graph + return-path facts + who-may-write (ast)',
        design='4/C01'),
    'C08': dict(
        text='Liveness (bounded return to OPERATION) is NOT decided. Decided are the structural ways progress is lost: '
             'a state class deciding a transition the table refuses (parked for ever, R1: abstract decision sets of the '
             '9 state classes vs _Transitions), OPERATION unreachable in the table (R2), missing re-evaluation hooks on '
             'tick / Master publication / multi-step loop (R3), jobs not aborted when leaving working states (R4), a '
             'Slave follow window narrower than the states its Master can reach alone (R5), failure-strategy dispatch '
             '(R6) and the exact progress condition of each forward edge (R7).',
        technique='abstract decision sets vs transition table + graph reachability + must-call + return-path facts (ast)',
        design='4/C08'),
    'C07': dict(
        text='Accuracy and completeness of failure detection over tick phase offsets and message delays is NOT decided '
             '(timing). Decided for every path: the reported instance state has a single guarded writer (R2) and its '
             'table is the documented graph with ISOLATED final (R3); ISOLATED is never assigned to the local instance '
             '(R4); the detection chain tick -> inactivity test over all instances -> FAILED, and invalidation (STOPPED/'
             'ISOLATED, FATAL marking of every process running there) at the start of next() of every state class, is '
             'unconditional (R5); the threshold is strictly more than inactivity_ticks local ticks, stealth restart '
             'resets the reference (R6); XML-RPC failure path posts and reads INSTANCE_FAILURE (R7).',
        technique='who-may-write + table constraints + must-call chains over the class hierarchy + normalised comparison (ast)',
        design='4/C07'),
    'C16': dict(
        text='Absence of every internal error is undecidable; decided are the error classes whose absence is visible in '
             'the shape of the code, for every path: every Supervisor callback is under the last-resort guard (R0); no '
             'explicitly raised exception reaches that guard and only RPCError leaves an XML-RPC method '
             '(interprocedural escape analysis, R1); InvalidTransition is dead - every instance-state assignment is '
             'legal from every state the guards in front of it (and its callers) allow (typestate, R2); nullable '
             'notification payloads are tested by their consumers (R3); optional placement results are tested before '
             'use (R4); enum dispatches are total (R5); resolved-vs-raw RPC parameters (R7); no container is mutated '
             'while iterated (R8).',
        technique='interprocedural exception-escape analysis + typestate with guard refinement over the call graph + nullability (ast)',
        design='4/C16'),
    'C17': dict(
        text='Decides for every public XML-RPC method (44) x every Supvisors state: the admitted state set resolved from '
             'its gate helper equals the documented one (R1); the gate is the first call evaluated and every rejection '
             'and parameter validator precedes every effect call, validators never fall through (R2); every documented '
             'rejection code is implemented by a reachable _raise (R3); only RPCError can leave (R4). Deep equality of '
             'the state before/after a rejected call is not decided beyond "no effect call before the last rejecting '
             'check".',
        technique='gate matrix extraction + statement-order dominance + docstring/code agreement + escape analysis (ast)',
        design='4/C17'),
    'C19': dict(
        text='Equality of the predicted and the real placement as values is NOT decided. Decided for every path from the '
             'two prediction entry points: the model family is bound to the model classes (R0); no call resolves into '
             'the communication layer, publications, or the live starter/stopper/failure handler (R1, call graph in '
             'the model context); stores of the model through copied fields of the mock process stay within the owned '
             'copy depth and no mutator of a live class is reachable except rules resolution (R2); the model classes '
             'override effect methods only, every decision method is the real one (R3).',
        technique='effect reachability over a context-sensitive call graph + ownership (copy-depth) analysis + sibling agreement (ast)',
        design='4/C19'),
    'C04': dict(
        text='The numeric load accounting over concurrent starts is NOT decided. Decided for every path: one emission '
             'point of start requests, guarded by process.stopped() and a chosen identifier, identifier written only '
             'through update_identifier with a tested placement result (R1); provenance class of every candidate list '
             'handed to a placement whose result reaches a command (R2); RUNNING filter, validity filter in each of the '
             '6 strategies, and the cap node_loading + expected_load <= 100 with node_loading = current + pending (R3); '
             'known/enabled/rule filters of possible_identifiers (R4); no-resource path reports FATAL and sends '
             'nothing (R5); de-duplication by name and identifier (R6); node membership is a set (R7); scope of the '
             'pending-load map (R8).',
        technique='who-may-call + def-use provenance of candidate lists + must-pass-through filters + normalised comparison (ast)',
        design='4/C04'),
    'C03': dict(
        text='The order of requests relative to the TRUE process states over all timings is NOT decided. Decided for '
             'every path: lowest-sequence pick-up bound through the class hierarchy (R1); the next group of an '
             'application / of the Starter is popped only when the current one is empty, the whole plan is stored '
             'before the first trigger (R2); sequence 0 excluded at the three places it could enter (R3); the event '
             'handler of a start command is total over the 8 process states and completes a job only on RUNNING / '
             'expected EXITED under wait_exit (R4); starting failure strategy effects ABORT/STOP/CONTINUE (R5); every '
             'give-up path reports the failure (R6).',
        technique='constant binding through the MRO + must-pass-through facts + exhaustive state/result table over return paths (ast)',
        design='4/C03'),
    'C09': dict(
        text='Real ordering against TRUE process states and loss of a non-Master mid-ending are NOT decided. Decided for '
             'every path: highest-sequence pick-up and current-group-empty guard, whole stop plan stored before the '
             'first trigger (R1, R2); stop requests only where the process runs, single emission point (R3); '
             'restart/shutdown re-routing to the Master and request table agreement sender/branch/remote method for the '
             '7 request headers (R4); the final order is sent only when leaving the ending state, to the local '
             'Supervisor, after a stop phase, ending states lead only to FINAL; nothing is started or activated during the '
             'stop phase: jobs aborted first, deferred starts dropped by Stopper.abort, no CHECKED instance activated in '
             'the ending states; the table accepts RESTARTING / SHUTTING_DOWN from every state the XML-RPC accepts (R4, R5).',
        technique='constant binding + who-may-call + writer/reader table agreement + must-call (ast, call graph)',
        design='4/C09, 11.4'),
    'C10': dict(
        text='The numeric bound in ticks under event loss is NOT decided. Decided for every path: the timeout check chain '
             'tick -> Commander.check -> ApplicationJobs.check -> timed_out() is unconditional (R1); path enumeration of '
             'both timed_out(): every IN_PROGRESS answer has passed a false tick deadline whose true branch is '
             'TIMED_OUT, bounded by minimum_ticks (acknowledgement) or wait_ticks (completion), except the documented '
             'wait_exit path (R2); a give-up is applied locally and published with a forced payload, accepted from '
             'instances that do not know the program (R3); jobs are dropped with their instance (R4); wait_ticks '
             'derivation (R5).',
        technique='must-call chains + exhaustive return-path enumeration with normalised deadline comparisons (ast)',
        design='4/C10'),
    'C14': dict(
        text='Optimality over numeric load tables is NOT decided. Loads are touched only through sorted(key=...), index '
             '0/-1 and one <=, a finite set of orderings, which is decided: strategy dispatch table (R1); each of the 6 '
             'strategy classes summarised as (order key, end) against the frozen spec from the statement, tuple order '
             'writer/reader agreement, pending requests part of the instance load (R2); every placement passes '
             'get_load_requests() and the requested strategy reaches job and commands (R3); distribution dispatch and '
             'the SINGLE_INSTANCE / SINGLE_NODE selection structure (R4).',
        technique='tolerant extraction of selection specs (sorted key / index) vs frozen spec + argument provenance (ast)',
        design='4/C14'),
    'C05': dict(
        text='That every real duplicate is seen and that the conciliation loop closes is NOT decided (needs events). '
             'Decided for every path: the conflict scan is restricted to managed applications in both sibling functions '
             '(R1); CONCILIATION is entered / left exactly under (idle, conflicting) / (idle, not conflicting), else '
             're-conciliated (R2); strategy dispatch table and arguments (R3); effect summary of each of the 6 strategy '
             'classes: USER reaches nothing, the others act only on the conflicting process of the iteration, kept copy '
             '= min/max uptime, all copies for STOP/RESTART/RUNNING_FAILURE, one deferred trigger (R4); stop targets '
             'and de-duplication by name and identifier (R5).',
        technique='return-path facts + dispatch table + per-class effect summary over the call graph (ast)',
        design='4/C05'),
    'C06': dict(
        text='The end-to-end effect (exactly one copy running again) is NOT decided. Decided for every path: failure '
             'sinks are reachable from Supervisor callbacks only through is_master() guarded calls (R1); the 6 strategies '
             'are all dispatched, crash vs instance-loss entry points (R2); the precedence matrix read from the AST: '
             'each adder yields to every higher set and evicts from every lower set, exact promotion condition (R3); '
             'single owners of the job sets (R4); deferral while the application has jobs, trigger effects, order and '
             'periodic trigger (R5); planned jobs win and lost processes accumulate over all failed instances (R6).',
        technique='guarded reachability over the call graph + guard/eviction matrix extraction + who-may-write (ast)',
        design='4/C06'),
    'C11': dict(
        text='The synthesis as a function over all finite histories is NOT decided (value-level). Decided for every '
             'path: the synthesis state (running list, state, forced state, expected_exit, per-instance payloads) has no '
             'writer outside ProcessStatus, package-wide, model writers excepted by ownership (R1); every report ends '
             'with a re-synthesis on the entry of its own instance (R2); the classification STOPPED_STATES / '
             'RUNNING_STATES / STOPPING of the running list (R3); the decision structure of the state shown and of the '
             'forced-state arbitration, frozen from the statement (R4, R5).',
        technique='package-wide who-may-write + must-call + guard-fact tables of the synthesis decision structure (ast)',
        design='4/C11'),
    'C12': dict(
        text='Equality of N replicated databases under all interleavings and truth w.r.t. the real Supervisors are NOT '
             'decided. Decided for every path: each of the 7 process-related listener handlers applies locally and '
             'publishes the same payload under the same facts (R1); writer/reader table agreement of the 8 publication '
             'headers, forwarding filter and fan-out (R2); snapshot transferred before the authorization result, every '
             'entry loaded under the sender identifier, handshake trigger (R3); acceptance guards of the consumers '
             '(R4); the definitions every instance applies to the same reports - running(), running_on(), the processes '
             'listed as running on an instance whatever its own state - which decide what is declared lost with an '
             'instance (R5).',
        technique='call pairing with fact equality + writer/reader table agreement + must-call order (ast)',
        design='4/C12'),
    'C13': dict(
        text='Non-interference over all later message sequences beyond these guards is NOT decided. Decided for every '
             'path: ISOLATED has no successor and _state no raw writer (R1); every publication / notification handler '
             'is dominated by the origin filter, two listed pre-filter headers excepted, and is_valid() rejects isolated, '
             'ambiguous or address-mismatching origins (R2); proxies are created only for non-isolated peers, stopped on '
             'isolation, and nothing is pushed outside get_proxy (R3); consumer state / timestamp guards (R4); handshake '
             'verdict dispatch, exhaustive over AuthorizationTypes (R5).',
        technique='must-pass-through (dominating facts) + who-may-construct/call + table constraints + dispatch effects (ast)',
        design='4/C13'),
    'C15': dict(
        text='Agreement on every state vector is NOT decided beyond the decision structure. Decided for every formula and '
             'path: every access of the evaluator on the attacker-chosen AST is justified by a dominating type fact '
             '(ASDL of the running interpreter) (R1); stored formulas are single expressions (R2); only the evaluator\'s '
             'own error can leave it - explicit raises and re.error - and it becomes a major failure (R3); the single '
             'eval() is the only dynamic sink, interpolating a whitelisted name and boolean-only producers, other node '
             'types refused (R4); state priority decision list (R5); failure classification facts (R6).',
        technique='typed-AST access check against the interpreter ASDL + escape analysis with implicit raisers + sink discipline (ast)',
        design='4/C15'),
    'C18': dict(
        text='XSD semantics and the # / @ arithmetic are NOT decided. Decided for every rules document / option '
             'dictionary: domain guards dominate every store of the loaders and the enum class agrees with the '
             'attribute annotation (R1); exact name before patterns, longest capture, invalid pattern skipped (R2); '
             'ranking argument for the model recursion, depth 3, referenced model loaded first (R3); dependency checks on '
             'every path, exact reset conditions (R4); all options through _get_value, converters let only ValueError '
             'out, intervals equal to docs/configuration.rst and NaN-safe (R5); check_options consistency rules (R6).',
        technique='interval/guard facts at stores + ranking argument + escape analysis of converters + docs/code interval agreement (ast)',
        design='4/C18'),
    'C20': dict(
        text='Numeric sanity (CPU in [0,100], finite rates) is NOT decided. Decided for every sample stream: every append '
             'on a history list is followed by trunc_depth on the same list with the configured depth (R1); every growth '
             'is behind the period gate, helpers only reachable from gated sites, reference rollover (R2); alignment by '
             'construction of time and value series (R3); history dropped on pid 0 / PID change / empty holder, the '
             'collector evicts the entry it found (R4); wrap guard on both counters (R5).',
        technique='append/truncate pairing + interprocedural dominance by the period gate + construction-shape checks (ast)',
        design='4/C20'),
}

PENDING_REASON = 'check not implemented yet in this revision (static rules designed in DESIGN.md section 4)'
NOT_APPLICABLE = {}
