"""Per-property registration used to generate MANIFEST.json (tools/gen_manifest.py)."""

# id -> dict(text, technique, note)   (only implemented checks are listed; the rest goes to not_applicable)
CLAIMS = {
    'C02': dict(
        text='Decides, for every history, that the published Supvisors state stays on the documented graph: the '
             'transition table read from the source satisfies the documented graph constraints (R1), the only writer '
             'of the local state is FiniteStateMachine.set_state and its assignment is dominated by the table test '
             '(R2), and every decision of a Master-driven state is a follow of the Master state or taken under Master '
             'authority (R4). Not decided: message timing between a Master and its followers.',
        technique='table constraints + who-may-write/dominance + abstract decision sets over the class hierarchy (ast)',
        design='4/C02'),
    'C01': dict(
        text='Convergence of N instances on one Master under all schedules is NOT decided (it quantifies over '
             'interleavings no static argument in reach bounds). Decided are necessary structural conditions, for '
             'every path of the program: no automatic start/stop/conciliation/repair/restart sink is reachable from a '
             'Supervisor event callback without an is_master() guard on the path (R1, call graph); ELECTION is left '
             'only under stability and a single agreed Master and every later state re-checks the Master (R2); the '
             'Master is reset when it leaves RUNNING and has four writers only, selection is declared-first, '
             'core-first, lowest nick (R3); every change of state & modes is published (R4); stability definition (R5).',
        technique='guarded reachability over a context-sensitive call graph + return-path facts + who-may-write (ast)',
        design='4/C01'),
    'C08': dict(
        text='Liveness (bounded return to OPERATION) is NOT decided. Decided are the structural ways progress is lost: '
             'a state class deciding a transition the table refuses (parked for ever, R1: abstract decision sets of the '
             '9 state classes vs _Transitions), OPERATION unreachable in the table (R2), missing re-evaluation hooks on '
             'tick / Master publication / multi-step loop (R3), jobs not aborted when leaving working states (R4), a '
             'Slave follow window narrower than the states its Master can reach alone (R5), failure-strategy dispatch '
             '(R6) and the exact progress condition of each forward edge (R7).',
        technique='abstract decision sets vs transition table + graph reachability + must-call + return-path facts (ast)',
        design='4/C08'),
    'C07': dict(
        text='Accuracy and completeness of failure detection over tick phase offsets and message delays is NOT decided '
             '(timing). Decided for every path: the reported instance state has a single guarded writer (R2) and its '
             'table is the documented graph with ISOLATED final (R3); ISOLATED is never assigned to the local instance '
             '(R4); the detection chain tick -> inactivity test over all instances -> FAILED, and invalidation (STOPPED/'
             'ISOLATED, FATAL marking of every process running there) at the start of next() of every state class, is '
             'unconditional (R5); the threshold is strictly more than inactivity_ticks local ticks, stealth restart '
             'resets the reference (R6); XML-RPC failure path posts and reads INSTANCE_FAILURE (R7).',
        technique='who-may-write + table constraints + must-call chains over the class hierarchy + normalised comparison (ast)',
        design='4/C07'),
    'C16': dict(
        text='Absence of every internal error is undecidable; decided are the error classes whose absence is visible in '
             'the shape of the code, for every path: every Supervisor callback is under the last-resort guard (R0); no '
             'explicitly raised exception reaches that guard and only RPCError leaves an XML-RPC method '
             '(interprocedural escape analysis, R1); InvalidTransition is dead - every instance-state assignment is '
             'legal from every state the guards in front of it (and its callers) allow (typestate, R2); nullable '
             'notification payloads are tested by their consumers (R3); optional placement results are tested before '
             'use (R4); enum dispatches are total (R5); resolved-vs-raw RPC parameters (R7); no container is mutated '
             'while iterated (R8).',
        technique='interprocedural exception-escape analysis + typestate with guard refinement over the call graph + nullability (ast)',
        design='4/C16'),
    'C17': dict(
        text='Decides for every public XML-RPC method (44) x every Supvisors state: the admitted state set resolved from '
             'its gate helper equals the documented one (R1); the gate is the first call evaluated and every rejection '
             'and parameter validator precedes every effect call, validators never fall through (R2); every documented '
             'rejection code is implemented by a reachable _raise (R3); only RPCError can leave (R4). Deep equality of '
             'the state before/after a rejected call is not decided beyond "no effect call before the last rejecting '
             'check".',
        technique='gate matrix extraction + statement-order dominance + docstring/code agreement + escape analysis (ast)',
        design='4/C17'),
    'C19': dict(
        text='Equality of the predicted and the real placement as values is NOT decided. Decided for every path from the '
             'two prediction entry points: the model family is bound to the model classes (R0); no call resolves into '
             'the communication layer, publications, or the live starter/stopper/failure handler (R1, call graph in '
             'the model context); stores of the model through copied fields of the mock process stay within the owned '
             'copy depth and no mutator of a live class is reachable except rules resolution (R2); the model classes '
             'override effect methods only, every decision method is the real one (R3).',
        technique='effect reachability over a context-sensitive call graph + ownership (copy-depth) analysis + sibling agreement (ast)',
        design='4/C19'),
    'C04': dict(
        text='The numeric load accounting over concurrent starts is NOT decided. Decided for every path: one emission '
             'point of start requests, guarded by process.stopped() and a chosen identifier, identifier written only '
             'through update_identifier with a tested placement result (R1); provenance class of every candidate list '
             'handed to a placement whose result reaches a command (R2); RUNNING filter, validity filter in each of the '
             '6 strategies, and the cap node_loading + expected_load <= 100 with node_loading = current + pending (R3); '
             'known/enabled/rule filters of possible_identifiers (R4); no-resource path reports FATAL and sends '
             'nothing (R5); de-duplication by name and identifier (R6); node membership is a set (R7); scope of the '
             'pending-load map (R8).',
        technique='who-may-call + def-use provenance of candidate lists + must-pass-through filters + normalised comparison (ast)',
        design='4/C04'),
}

PENDING_REASON = 'check not implemented yet in this revision (static rules designed in DESIGN.md section 4)'
NOT_APPLICABLE = {}
