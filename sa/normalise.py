"""Canonical form of the analysed source: behaviour-preserving normalisation applied before any rule runs.

The rules of sa/props were confirmed by hand against the *decomposition* of the pinned tree (its classes, methods,
functions and constants, frozen in sa/pinned.json).  A later edit that only changes the decomposition - a block or a
condition extracted into a new helper, a literal moved to a new class/module constant, a sub-expression hoisted into a
local, a comprehension unrolled into an explicit loop - leaves the behaviour unchanged, and must leave every verdict
unchanged.  This module folds such edits back, on the syntax tree, so that the rules see one shape:

  * inline-helper    a call to a helper that is NOT in the pinned decomposition and has a single implementation is
                     replaced by the helper's body (statement level: `self._h(a)`, `x = self._h(a)`, `return self._h(a)`;
                     expression level: helpers whose body is a single `return <expr>`, including properties);
                     a helper whose every reference was folded is dropped from the model.
  * new-constant     `self.NAME` / `Cls.NAME` / `NAME` of a class or module constant that is not in the pinned
                     decomposition, has a literal value and is never re-bound, is replaced by the literal.
  * local-alias      a local assigned once to a pure name/attribute chain (or a literal) is replaced by that chain at
                     its uses when neither the chain nor one of its prefixes is re-bound in the function.
  * loop-to-comprehension
                     `acc = []` + `for ..: [if ..:] acc.append(e)` -> `acc = [e for .. if ..]` (also set/dict);
                     `for ..: if c: return True` + `return False` -> `return any(c for ..)`;
                     `for ..: if c: return e` + `return d` -> `return next((e for .. if c), d)`.
  * table-dispatch   a lookup in a literal dict keyed by constants becomes the equivalent if/elif chain.
  * implied-test     a test decided by an enclosing test of the same key against constants: the dead branch goes.
  * merged-if        `if a: if b: BODY` -> `if a and b: BODY`.
  * discard-to-remove `s.discard(e)` -> `if e in s: s.remove(e)`.
  * folded-condition `x = E` + `if x:` (only read of x) -> `if E:`.
  * sunk-statement   `if a: v = A else: v = B` + the only statement reading v -> that statement in each branch.
  * bulk-removal     `s.difference_update({x for x in s if c})` -> `for x in list(s): if c: s.remove(x)`.
  * or-default       `if a: x = a else: x = b` -> `x = a or b` (a pure).
  * unnested-else    `if a: EXIT else: REST` -> `if a: EXIT` + REST.
  * split-exit       `return A if c else B` -> `if c: return A` + `return B`; `if a or b: EXIT` -> `if a: EXIT` + `if b: EXIT`.
  * unrolled-loop    a `for` over a short literal of pure elements is its body once per element.
  * idiom            `next(iter(x))` -> `list(x)[0]`; `itemgetter(k)` / `attrgetter('a')` -> the lambda; `dict.fromkeys`.
                     `chain.from_iterable(xs)` -> `sum(xs, [])`; `chain(a, *xs)` -> `a + sum(xs, [])`.
  * accumulation     `t = t + v` -> `t += v`; `d[k] = d.get(k, 0) + v` -> `d[k] += v`.
  * generator-helper a NEW generator function made of one for/if nest around one yield returns the generator expression;
                     a comprehension over a comprehension is fused into one.
  * memoised-helper  a NEW helper `if self._x is None: self._x = E` + `return self._x` (only writer of _x) returns E.
  * folded-closure   a function defined and only called inside a method is folded back at its calls.
  * renamed-symbol   a method / module function of the reference decomposition that is missing while an unknown one in
                     the same class / module has the same body digest gets its name back (parameters likewise).
  * renamed-local    a local defined exactly like a local of the pinned tree that is now missing gets its name back.

Nothing here decides a property; the transformations are sound rewritings (conditions stated with each) and every node
keeps the line number of the source construct it came from, so reports still point into /repo.
"""
import ast
import copy
import json
import pathlib

from .model import own_nodes

PINNED_FILE = pathlib.Path(__file__).with_name('pinned.json')


def load_pinned():
    return set(json.loads(PINNED_FILE.read_text())['symbols'])


def symbols_of(P):
    """the decomposition of a tree: classes, their members, module functions and module constants."""
    out = set()
    for m in P.mods.values():
        for c in m.classes.values():
            out.add(c.name)
            for k in list(c.methods) + list(c.props) + list(c.setters) + list(c.cattrs):
                out.add(c.name + '.' + k)
        for f in m.funcs:
            out.add(m.short + ':' + f)
        for a in m.aliases:
            out.add(m.short + ':' + a)
    return out


# ------------------------------------------------------------------------------------------------ helpers
def pure(e):
    """an expression without side effect whose value does not depend on when it is evaluated (locally)."""
    if isinstance(e, ast.Constant):
        return True
    if isinstance(e, ast.Name):
        return True
    if isinstance(e, ast.Attribute):
        return pure(e.value)
    if isinstance(e, ast.Subscript):
        return pure(e.value) and pure(e.slice)
    if isinstance(e, ast.UnaryOp) and isinstance(e.op, ast.USub):
        return pure(e.operand)
    return False


def simple_const(v):
    if isinstance(v, ast.Constant):
        return True
    if isinstance(v, ast.UnaryOp) and isinstance(v.op, ast.USub) and isinstance(v.operand, ast.Constant):
        return True
    if isinstance(v, ast.Attribute):
        e = v
        while isinstance(e, ast.Attribute):
            e = e.value
        # Enum.MEMBER / Class.CONSTANT, or a class reached through its module (ast.And)
        return isinstance(e, ast.Name) and (e.id[:1].isupper() or v.attr[:1].isupper())
    if isinstance(v, (ast.List, ast.Tuple, ast.Set)):
        return all(simple_const(x) for x in v.elts)
    return False


def constant_expr(v):
    """a value that is the same whenever it is evaluated: literals, enum members, UPPER_CASE module constants, and
    list()/tuple()/set()/frozenset() or `+` of those."""
    if simple_const(v):
        return True
    if isinstance(v, ast.Name):
        return v.id.isupper()
    if isinstance(v, (ast.List, ast.Tuple, ast.Set)):
        return all(constant_expr(x) for x in v.elts)
    if isinstance(v, ast.BinOp) and isinstance(v.op, ast.Add):
        return constant_expr(v.left) and constant_expr(v.right)
    if isinstance(v, ast.Call) and isinstance(v.func, ast.Name) and v.func.id in ('list', 'tuple', 'set', 'frozenset') \
            and len(v.args) == 1 and not v.keywords:
        return constant_expr(v.args[0])
    return False


def stored_names(fn):
    """names bound in the function's own body (not nested defs)."""
    out = {}
    for n in own_nodes(fn):
        tg = []
        if isinstance(n, ast.Assign):
            tg = n.targets
        elif isinstance(n, (ast.AnnAssign, ast.AugAssign, ast.For, ast.comprehension, ast.NamedExpr)):
            tg = [n.target]
        elif isinstance(n, ast.withitem) and n.optional_vars is not None:
            tg = [n.optional_vars]
        elif isinstance(n, ast.ExceptHandler) and n.name:
            out[n.name] = out.get(n.name, 0) + 1
        elif isinstance(n, (ast.Import, ast.ImportFrom)):
            for a in n.names:
                k = (a.asname or a.name).split('.')[0]
                out[k] = out.get(k, 0) + 1
        for t in tg:
            for x in ast.walk(t):
                if isinstance(x, ast.Name) and isinstance(x.ctx, (ast.Store, ast.Del)):
                    out[x.id] = out.get(x.id, 0) + 1
    return out


def param_names(fn):
    a = fn.args
    out = [x.arg for x in a.posonlyargs + a.args + a.kwonlyargs]
    if a.vararg:
        out.append(a.vararg.arg)
    if a.kwarg:
        out.append(a.kwarg.arg)
    return out


def strip_doc(body):
    if body and isinstance(body[0], ast.Expr) and isinstance(body[0].value, ast.Constant) \
            and isinstance(body[0].value.value, str):
        return body[1:]
    return body


def always_exits(stmts):
    from .paths import always_exits as ae
    return ae(stmts)


def has_own(node, kinds):
    if isinstance(node, kinds):
        return True
    for n in own_nodes(node):
        if isinstance(n, kinds):
            return True
    return False


def block_lists(st):
    """the statement lists directly nested in a compound statement."""
    out = []
    for f in ('body', 'orelse', 'finalbody'):
        v = getattr(st, f, None)
        if isinstance(v, list) and v and isinstance(v[0], ast.stmt):
            out.append((st, f))
    for h in getattr(st, 'handlers', []) or []:
        out.append((h, 'body'))
    for c in getattr(st, 'cases', []) or []:
        out.append((c, 'body'))
    return out


def tailify(stmts):
    """restructure `if c: ...; return` guards so that every return is the last statement of its path."""
    out = []
    for i, st in enumerate(stmts):
        rest = stmts[i + 1:]
        if isinstance(st, (ast.FunctionDef, ast.AsyncFunctionDef, ast.ClassDef)):
            out.append(st)
            continue
        if isinstance(st, ast.If):
            st.body = tailify(st.body)
            st.orelse = tailify(st.orelse)
            if rest and has_own(st, ast.Return):
                b_exit = always_exits(st.body)
                o_exit = bool(st.orelse) and always_exits(st.orelse)
                if b_exit and o_exit:
                    out.append(st)
                    return out
                if b_exit:
                    st.orelse = tailify(st.orelse + rest)
                    out.append(st)
                    return out
                if o_exit:
                    st.body = tailify(st.body + rest)
                    out.append(st)
                    return out
        else:
            for owner, f in block_lists(st):
                if not isinstance(st, (ast.For, ast.AsyncFor, ast.While)):
                    setattr(owner, f, tailify(getattr(owner, f)))
        out.append(st)
    return out


def returns_in_tail(stmts, tail=True):
    for i, st in enumerate(stmts):
        last = tail and i == len(stmts) - 1
        if isinstance(st, ast.Return):
            if not last:
                return False
        elif isinstance(st, (ast.FunctionDef, ast.AsyncFunctionDef, ast.ClassDef)):
            continue
        elif isinstance(st, (ast.For, ast.AsyncFor, ast.While)):
            if has_own(st, ast.Return):
                return False
        elif isinstance(st, ast.Try):
            fin = bool(st.finalbody)
            if not returns_in_tail(st.body, last and not st.orelse and not fin):
                return False
            if not returns_in_tail(st.orelse, last and not fin):
                return False
            for h in st.handlers:
                if not returns_in_tail(h.body, last and not fin):
                    return False
            if not returns_in_tail(st.finalbody, last):
                return False
        else:
            for owner, f in block_lists(st):
                if not returns_in_tail(getattr(owner, f), last):
                    return False
    return True


def convert_returns(stmts, make):
    """replace each own `return e` of the statement lists by make(e) (a list of statements)."""
    out = []
    for st in stmts:
        if isinstance(st, ast.Return):
            new = make(st.value)
            for n in new:
                ast.copy_location(n, st)
                ast.fix_missing_locations(n)
            out.extend(new)
            continue
        if not isinstance(st, (ast.FunctionDef, ast.AsyncFunctionDef, ast.ClassDef)):
            for owner, f in block_lists(st):
                new = convert_returns(getattr(owner, f), make)
                if not new and f == 'body':
                    new = [ast.copy_location(ast.Pass(), st)]
                setattr(owner, f, new)
        out.append(st)
    return out


class Subst(ast.NodeTransformer):
    """Name -> expression (loads only), Name -> Name (renaming, all contexts)."""

    def __init__(self, mapping, rename=None):
        self.mapping, self.rename = mapping, rename or {}

    def visit_Name(self, n):
        if n.id in self.mapping and isinstance(n.ctx, ast.Load):
            new = copy.deepcopy(self.mapping[n.id])
            for x in ast.walk(new):
                ast.copy_location(x, n)
            return new
        if n.id in self.rename:
            n.id = self.rename[n.id]
        return n

    def visit_ExceptHandler(self, n):
        if n.name in self.rename:
            n.name = self.rename[n.name]
        return self.generic_visit(n)

    def visit_arg(self, n):
        return n


class _Silent:
    """stand-in for a unit when a function is normalised on its own (digests)."""
    qual = '?'
    cls = None

    def loc(self, node=None):
        return '?'


def body_hash(fn):
    """digest of what a function does, computed on its canonical form (the function-local rewritings of this module) and
    insensitive to its own name, to the names of its positional parameters and of its locals, to its docstring and to
    its log statements (a renamed method usually has its log prefixes renamed too)."""
    import hashlib
    fn = copy.deepcopy(fn)
    C = Canonicaliser.__new__(Canonicaliser)
    C.log = []
    try:
        C.local_passes(_Silent(), fn)
    except Exception:
        pass
    # one spelling for a trailing `if c: BODY` of a procedure and the guard clause `if not c: return` + BODY
    if not any(isinstance(x, ast.Return) and x.value is not None for x in own_nodes(fn)):
        while fn.body and isinstance(fn.body[-1], ast.If) and not fn.body[-1].orelse:
            last = fn.body[-1]
            t = last.test
            neg = t.operand if isinstance(t, ast.UnaryOp) and isinstance(t.op, ast.Not) else ast.UnaryOp(op=ast.Not(), operand=t)
            fn.body = fn.body[:-1] + [ast.If(test=neg, body=[ast.Return(value=None)], orelse=[])] + last.body
        if fn.body and isinstance(fn.body[-1], ast.Return):
            fn.body = fn.body[:-1] or [ast.Pass()]
    params = [a.arg for a in fn.args.posonlyargs + fn.args.args]
    idx = {p: '$p%d' % i for i, p in enumerate(params)}
    # locals by order of first binding
    order = []
    for n in sorted((x for x in ast.walk(fn) if isinstance(x, ast.Name) and isinstance(x.ctx, ast.Store)),
                    key=lambda x: (getattr(x, 'lineno', 0), getattr(x, 'col_offset', 0))):
        if n.id not in idx and n.id not in order:
            order.append(n.id)
    for i, k in enumerate(order):
        idx[k] = '$l%d' % i

    def logless(stmts):
        out = []
        for st in stmts:
            if isinstance(st, ast.Expr) and isinstance(st.value, ast.Call) and \
                    'logger' in ast.unparse(st.value.func).split('.'):
                continue
            if not isinstance(st, (ast.FunctionDef, ast.AsyncFunctionDef, ast.ClassDef)):
                for owner, f in block_lists(st):
                    setattr(owner, f, logless(getattr(owner, f)) or [ast.Pass()])
            out.append(st)
        return out
    mod = ast.Module(body=logless(strip_doc(fn.body)), type_ignores=[])
    for n in ast.walk(mod):
        if isinstance(n, ast.Name) and n.id in idx:
            n.id = idx[n.id]
        elif isinstance(n, ast.Name) and n.id == fn.name:
            n.id = '$self'
        elif isinstance(n, ast.Attribute) and n.attr == fn.name:
            n.attr = '$self'
        elif isinstance(n, ast.ExceptHandler) and n.name in idx:
            n.name = idx[n.name]
    return hashlib.sha1((str(len(params)) + ast.dump(mod)).encode()).hexdigest()[:16]


def signatures(fn):
    """{local name: signature}: what defines each local (and comprehension binder) of the function, in closed form -
    the text does not mention any single-assignment local, so it survives the renaming of the local itself and of the
    intermediate values it is computed from."""
    from .defuse import DefUse
    du = DefUse(fn)
    binds = {}

    def bind(t, v):
        if isinstance(t, ast.Name):
            binds.setdefault(t.id, []).append(v)
        elif isinstance(t, (ast.Tuple, ast.List)):
            for i, el in enumerate(t.elts):
                if isinstance(el, ast.Starred):
                    bind(el.value, ('star', v, i))
                else:
                    bind(el, ('idx', v, i))
    for n in own_nodes(fn):
        if isinstance(n, ast.Assign):
            for t in n.targets:
                bind(t, n.value)
        elif isinstance(n, ast.AnnAssign):
            bind(n.target, n.value)
        elif isinstance(n, ast.AugAssign):
            bind(n.target, ('aug', n.value, type(n.op).__name__))
        elif isinstance(n, ast.NamedExpr):
            bind(n.target, n.value)
        elif isinstance(n, (ast.For, ast.AsyncFor)):
            bind(n.target, ('each', n.iter, 'for'))
        elif isinstance(n, ast.comprehension):
            bind(n.target, ('each', n.iter, 'comp'))
        elif isinstance(n, ast.withitem) and n.optional_vars is not None:
            bind(n.optional_vars, ('each', n.context_expr, 'with'))
        elif isinstance(n, ast.ExceptHandler) and n.name:
            binds.setdefault(n.name, []).append(('each', n.type, 'except') if n.type is not None else None)
    params = set(param_names(fn))
    out = {}

    def text(v, me):
        if v is None:
            return 'None'
        if isinstance(v, tuple):
            return '%s(%s)%s' % (v[0], text(v[1], me), v[2])
        try:
            return ast.unparse(du.closed(v, bound={me: ast.Name(id='$self', ctx=ast.Load())}))
        except RecursionError:
            return '?'
    for k, vs in binds.items():
        if k in params:
            continue
        out[k] = ' | '.join(sorted(text(v, k) for v in vs))
    return out


# ------------------------------------------------------------------------------------------------ the pass
class Canonicaliser:
    @staticmethod
    def cattr_signatures(P):
        """{Class.attr: 'annotation|value'} of the class-level attributes."""
        out = {}
        for c in P.classes.values():
            for k, (ann, v) in c.cattrs.items():
                out[c.name + '.' + k] = '%s|%s' % (ast.unparse(ann) if ann is not None else '', ast.unparse(v) if v is not None else '')
        return out

    def renamed_attributes(self):
        """a private class-level attribute of the reference that is missing while an unknown one of the same class has
        the same annotation and initial value: a rename; every `.new` in the package becomes `.old` again."""
        P = self.P
        pinned_c = json.loads(PINNED_FILE.read_text()).get('cattrs', {}) if not hasattr(self, '_pc') else self._pc
        cur = self.cattr_signatures(P)
        changed = False
        all_attrs = {q.split('.', 1)[1] for q in self.pinned if '.' in q}
        for q, sig in pinned_c.items():
            cname, name = q.split('.', 1)
            if q in cur or not name.startswith('_') or name.startswith('__') or cname not in P.classes:
                continue
            if P.member(P.classes[cname], name):
                continue
            cands = [k for k, sg in cur.items() if k.startswith(cname + '.') and k not in self.pinned and sg == sig
                     and k.split('.', 1)[1].startswith('_')]
            if len(cands) != 1:
                continue
            new = cands[0].split('.', 1)[1]
            if new in all_attrs:
                continue
            for m in P.mods.values():
                for n in ast.walk(m.tree):
                    if isinstance(n, ast.Attribute) and n.attr == new:
                        n.attr = name
                    elif isinstance(n, ast.Name) and n.id == new:
                        n.id = name
            self.log.append(('renamed-symbol', cands[0], '%s -> %s' % (cands[0], q)))
            changed = True
        return changed

    def __init__(self, P, pinned=None, pinned_locals=None, pinned_bodies=None):
        self.P = P
        self.pinned = load_pinned() if pinned is None else pinned
        if pinned_locals is None:
            pinned_locals = json.loads(PINNED_FILE.read_text()).get('locals', {})
        self.pinned_locals = pinned_locals
        if pinned_bodies is None:
            pinned_bodies = json.loads(PINNED_FILE.read_text()).get('bodies', {})
        self.pinned_bodies = pinned_bodies       # qual -> [body digest, [positional parameter names]]
        self.log = []          # (kind, where, what) for the evidence file
        self.inlined = set()   # helper units folded at least once
        # a module function of the reference that now lives, unchanged and under the same name, in another module of
        # the package is a moved function, not a new helper
        # likewise a method pulled up to a base class / pushed down to the subclasses, unchanged and under its name
        for q, (h, params) in self.pinned_bodies.items():
            if '.' in q and ':' not in q:
                cname, nm = q.split('.', 1)
                c = P.classes.get(cname)
                if c is None or nm in c.methods or nm in c.props:
                    continue
                for k in P.mro(c)[1:] + P.all_subs(c):
                    u = k.methods.get(nm) or k.props.get(nm)
                    if u is not None and k.name + '.' + nm not in self.pinned and body_hash(u.node) == h:
                        self.pinned = set(self.pinned) | {k.name + '.' + nm}
                        self.log.append(('moved-method', u.loc(), '%s -> %s.%s' % (q, k.name, nm)))
        have = {m.short + ':' + k for m in P.mods.values() for k in m.funcs}
        for q, (h, params) in self.pinned_bodies.items():
            if ':' in q and q not in have:
                nm = q.split(':')[1]
                for m in P.mods.values():
                    if nm in m.funcs and m.short + ':' + nm not in self.pinned and body_hash(m.funcs[nm].node) == h:
                        self.pinned = set(self.pinned) | {m.short + ':' + nm}
                        self.log.append(('moved-function', m.funcs[nm].loc(), '%s -> %s:%s' % (q, m.short, nm)))
        self.new_callables = {}    # simple name -> [(owner Cls|None, Mod, Unit)]
        for m in P.mods.values():
            for c in m.classes.values():
                for table in (c.methods, c.props):
                    for k, u in table.items():
                        if c.name + '.' + k not in self.pinned and k not in c.setters:
                            self.new_callables.setdefault(k, []).append((c, m, u))
            for k, u in m.funcs.items():
                if m.short + ':' + k not in self.pinned:
                    self.new_callables.setdefault(k, []).append((None, m, u))

    # ---------------------------------------------------------------- resolution of a helper reference
    def _eligible(self, u):
        fn = u.node
        if isinstance(fn, ast.AsyncFunctionDef):
            return False
        decs = [ast.unparse(d) for d in fn.decorator_list]
        if any(d not in ('staticmethod', 'classmethod', 'property') for d in decs):
            return False
        if fn.args.vararg or fn.args.kwarg:
            return False
        for n in own_nodes(fn):
            if isinstance(n, (ast.Yield, ast.YieldFrom, ast.Global, ast.Nonlocal, ast.Await)):
                return False
            if isinstance(n, ast.Call):
                f = n.func
                nm = f.attr if isinstance(f, ast.Attribute) else getattr(f, 'id', None)
                if nm == fn.name or nm in ('super', 'locals', 'vars'):
                    return False
        return True

    def _unique_in(self, c, name):
        """the single implementation `name` resolves to on any instance whose static class is c."""
        P = self.P
        mem = P.member(c, name)
        if not mem or mem[0] not in ('method', 'prop'):
            return None
        for s in P.all_subs(c):
            if name in s.methods or name in s.props or name in s.cattrs or name in s.setters:
                return None
        return mem

    def resolve(self, unit, e):
        """(Unit helper, receiver expression or None) for a Call / property Attribute referring to a new helper."""
        P = self.P
        is_call = isinstance(e, ast.Call)
        f = e.func if is_call else e
        if isinstance(f, ast.Name):
            if not is_call or f.id not in self.new_callables:
                return None
            r = P.lookup(unit.mod, f.id)
            if r and r[0] == 'func' and (r[1].mod.short + ':' + f.id) not in self.pinned and self._eligible(r[1]) \
                    and not (r[1].mod.short in getattr(self, 'skip_owners', ()) and self._calls_new(r[1])):
                return r[1], None
            return None
        if not isinstance(f, ast.Attribute) or f.attr not in self.new_callables:
            return None
        name, recv = f.attr, f.value
        c = None
        bound = True
        if isinstance(recv, ast.Name) and recv.id == 'self' and unit.cls is not None:
            c = unit.cls
        elif isinstance(recv, ast.Name) and recv.id == 'cls' and unit.cls is not None:
            c = unit.cls
        elif isinstance(recv, ast.Name) and recv.id[:1].isupper():
            r = P.lookup(unit.mod, recv.id)
            if r and r[0] == 'class':
                c, bound = r[1], False
        elif pure(recv):
            try:
                t = P.env(unit).typeof(recv)
            except Exception:
                t = None
            if t and t[0] == 'inst':
                c = t[1]
        if c is None:
            return None
        mem = self._unique_in(c, name)
        if not mem:
            return None
        kind, owner, u = mem
        if owner.name + '.' + name in self.pinned or not self._eligible(u):
            return None
        if owner.name in getattr(self, 'skip_owners', ()) and self._calls_new(u):
            return None         # may still turn out to be a renamed reference method once its own helpers are folded
        if (kind == 'prop') == is_call:
            return None
        decs = [ast.unparse(d) for d in u.node.decorator_list]
        if not bound and 'staticmethod' not in decs and 'classmethod' not in decs:
            return None
        return u, recv

    # ---------------------------------------------------------------- binding of the parameters
    def bind(self, helper, call, recv, caller_fn, expr_level):
        """(substitution map, prelude statements, renaming) or None."""
        fn = helper.node
        decs = [ast.unparse(d) for d in fn.decorator_list]
        params = fn.args.posonlyargs + fn.args.args
        mapping = {}
        if helper.cls is not None and 'staticmethod' not in decs and helper.kind != 'closure':
            if not params:
                return None
            first = params[0].arg
            params = params[1:]
            if 'classmethod' in decs:
                mapping[first] = ast.Name(id=helper.cls.name, ctx=ast.Load())
            else:
                mapping[first] = recv if recv is not None else ast.Name(id='self', ctx=ast.Load())
        actual = {}
        if call is not None:
            if any(isinstance(a, ast.Starred) for a in call.args) or any(k.arg is None for k in call.keywords):
                return None
            if len(call.args) > len(params):
                return None
            for p, a in zip(params, call.args):
                actual[p.arg] = a
            names = [p.arg for p in params] + [p.arg for p in fn.args.kwonlyargs]
            for k in call.keywords:
                if k.arg not in names or k.arg in actual:
                    return None
                actual[k.arg] = k.value
        defaults = dict(zip([p.arg for p in params][len(params) - len(fn.args.defaults):], fn.args.defaults))
        for p, d in zip(fn.args.kwonlyargs, fn.args.kw_defaults):
            if d is not None:
                defaults[p.arg] = d
        stores = stored_names(fn)
        uses = {}
        for n in ast.walk(fn):
            if isinstance(n, ast.Name) and isinstance(n.ctx, ast.Load):
                uses[n.id] = uses.get(n.id, 0) + 1
        prelude = []
        for p in list(params) + list(fn.args.kwonlyargs):
            a = actual.get(p.arg, defaults.get(p.arg))
            if a is None:
                return None
            if p.arg not in stores and (pure(a) or uses.get(p.arg, 0) <= 1 and expr_level):
                mapping[p.arg] = a
            elif p.arg not in stores and uses.get(p.arg, 0) == 0:
                mapping[p.arg] = a
            elif expr_level:
                return None
            else:
                prelude.append((p.arg, a))
        # helper locals that would capture a name of the caller
        used_in_caller = {n.id for n in ast.walk(caller_fn) if isinstance(n, ast.Name)} | set(param_names(caller_fn))
        rename = {}
        for k in list(stores) + [p for p, _ in prelude]:
            if k in used_in_caller and k not in rename:
                rename[k] = k + '_' + fn.name.strip('_')
        return mapping, prelude, rename

    # ---------------------------------------------------------------- statement-level inlining
    def expand(self, helper, call, recv, mode, target, caller_fn):
        b = self.bind(helper, call, recv, caller_fn, expr_level=False)
        if b is None:
            return None
        mapping, prelude, rename = b
        if mode == 'return':
            # nothing of the caller runs after the folded body: its locals cannot be disturbed, the names are kept
            rename = {}
        else:
            # a name of the helper only needs another name when the caller still reads its own afterwards
            after = {x.id for x in ast.walk(caller_fn) if isinstance(x, ast.Name) and isinstance(x.ctx, ast.Load)
                     and (getattr(x, 'lineno', 0), getattr(x, 'col_offset', 0)) > (call.lineno, call.col_offset)}
            in_loop = any(isinstance(l, (ast.For, ast.While)) and any(x is call for x in ast.walk(l))
                          for l in ast.walk(caller_fn))
            if not in_loop:
                rename = {k: v for k, v in rename.items() if k in after}
                # ... and not when the caller binds the name again (a loop target, an assignment) before reading it
                for k in list(rename):
                    later = sorted(((getattr(x, 'lineno', 0), getattr(x, 'col_offset', 0)), isinstance(x.ctx, ast.Store))
                                   for x in ast.walk(caller_fn) if isinstance(x, ast.Name) and x.id == k and
                                   (getattr(x, 'lineno', 0), getattr(x, 'col_offset', 0)) > (call.lineno, call.col_offset))
                    if later and later[0][1] and isinstance(call, ast.Call) and \
                            not any(isinstance(a_, ast.Assign) and any(isinstance(t_, ast.Name) and t_.id == k
                                                                        for t_ in a_.targets)
                                    and any(isinstance(y, ast.Name) and y.id == k and isinstance(y.ctx, ast.Load)
                                            for y in ast.walk(a_.value)) for a_ in ast.walk(caller_fn)):
                        rename.pop(k)
            if mode == 'assign' and isinstance(target, ast.Name):
                rename.pop(target.id, None)     # the helper's own name for its result is the caller's name for it
        body = copy.deepcopy(strip_doc(helper.node.body))
        if not body:
            return None
        falls = not always_exits(body)
        if mode != 'return':
            body = tailify(body)
            if not returns_in_tail(body):
                return None
        sub = Subst(mapping, rename)
        body = [sub.visit(st) for st in body]
        pre = []
        for p, a in prelude:
            st = ast.Assign(targets=[ast.Name(id=rename.get(p, p), ctx=ast.Store())], value=copy.deepcopy(a), lineno=call.lineno)
            pre.append(ast.fix_missing_locations(ast.copy_location(st, call)))
        if mode == 'expr':
            def make(v):
                if v is not None and any(isinstance(x, ast.Call) for x in ast.walk(v)):
                    return [ast.Expr(value=v)]
                return [ast.Pass()]
            body = convert_returns(body, make)
        elif mode == 'assign':
            def make(v):
                return [ast.Assign(targets=[copy.deepcopy(target)], value=v if v is not None else ast.Constant(value=None))]
            body = convert_returns(body, make)
            if falls:
                st = ast.Assign(targets=[copy.deepcopy(target)], value=ast.Constant(value=None))
                pre.append(ast.fix_missing_locations(ast.copy_location(st, call)))
        elif mode == 'return' and falls:
            st = ast.Return(value=ast.Constant(value=None))
            body.append(ast.fix_missing_locations(ast.copy_location(st, call)))
        # the folded statements take the place of the call: same line (so that orderings by position still hold), and
        # a column that keeps their relative order
        base = helper.node.lineno
        for st in body:
            for x in ast.walk(st):
                if hasattr(x, 'lineno') and hasattr(x, 'col_offset'):
                    x.col_offset = call.col_offset + 1000 * max(0, x.lineno - base) + x.col_offset
                    x.lineno = call.lineno
                    if hasattr(x, 'end_lineno'):
                        x.end_lineno = call.lineno
                        x.end_col_offset = x.col_offset + 1
        # drop `pass` fillers that are not alone in their block
        out = pre + body
        out = [s for s in out if not isinstance(s, ast.Pass)] or [ast.copy_location(ast.Pass(), call)]
        return out

    def inline_statements(self, unit, fn):
        changed = [False]

        def do_list(stmts):
            out = []
            for st in stmts:
                if isinstance(st, (ast.FunctionDef, ast.AsyncFunctionDef, ast.ClassDef)):
                    out.append(st)
                    continue
                for owner, f in block_lists(st):
                    setattr(owner, f, do_list(getattr(owner, f)))
                mode = target = call = None
                if isinstance(st, ast.If):
                    # `if self._helper(..):` with a multi-statement new helper: evaluate it just before, then fold
                    t = st.test.operand if isinstance(st.test, ast.UnaryOp) and isinstance(st.test.op, ast.Not) else st.test
                    if isinstance(t, ast.Call):
                        r = self.resolve(unit, t)
                        hb = strip_doc(r[0].node.body) if r else None
                        if r and r[0].node is not fn and not (len(hb) == 1 and isinstance(hb[0], ast.Return)):
                            self._tmp = getattr(self, '_tmp', 0) + 1
                            nm = '_cond%d' % self._tmp
                            asg = ast.Assign(targets=[ast.Name(id=nm, ctx=ast.Store())], value=t)
                            ast.fix_missing_locations(ast.copy_location(asg, st))
                            new = self.expand(r[0], t, r[1], 'assign', asg.targets[0], fn)
                            if new is not None:
                                ref = ast.copy_location(ast.Name(id=nm, ctx=ast.Load()), t)
                                if t is st.test:
                                    st.test = ref
                                else:
                                    st.test.operand = ref
                                self.log.append(('inline-helper', unit.loc(st), '%s <- %s (if test)' % (unit.qual, r[0].qual)))
                                self.inlined.add(r[0])
                                out.extend(new)
                                out.append(st)
                                changed[0] = True
                                continue
                if isinstance(st, ast.Expr) and isinstance(st.value, ast.Call):
                    mode, call = 'expr', st.value
                elif isinstance(st, ast.Assign) and len(st.targets) == 1 and isinstance(st.value, ast.Call) and \
                        (isinstance(st.targets[0], ast.Name) or (isinstance(st.targets[0], ast.Attribute) and pure(st.targets[0]))):
                    mode, call, target = 'assign', st.value, st.targets[0]
                elif isinstance(st, ast.AnnAssign) and isinstance(st.value, ast.Call) and \
                        (isinstance(st.target, ast.Name) or (isinstance(st.target, ast.Attribute) and pure(st.target))):
                    mode, call, target = 'assign', st.value, st.target
                elif isinstance(st, ast.Return) and isinstance(st.value, ast.Call):
                    mode, call = 'return', st.value
                if call is not None:
                    r = self.resolve(unit, call)
                    if r and r[0].node is not fn:
                        new = self.expand(r[0], call, r[1], mode, target, fn)
                        if new is not None:
                            self.log.append(('inline-helper', unit.loc(st), '%s <- %s (%s)' % (unit.qual, r[0].qual, mode)))
                            self.inlined.add(r[0])
                            out.extend(new)
                            changed[0] = True
                            continue
                out.append(st)
            return out
        fn.body = do_list(fn.body)
        return changed[0]

    # ---------------------------------------------------------------- expression-level inlining
    def inline_expressions(self, unit, fn):
        me = self
        changed = [False]

        class T(ast.NodeTransformer):
            def try_inline(self, e):
                r = me.resolve(unit, e)
                if not r or r[0].node is fn:
                    return e
                helper, recv = r
                body = strip_doc(helper.node.body)
                if len(body) != 1 or not isinstance(body[0], ast.Return) or body[0].value is None:
                    return e
                b = me.bind(helper, e if isinstance(e, ast.Call) else None, recv, fn, expr_level=True)
                if b is None:
                    return e
                mapping, prelude, rename = b
                if prelude:
                    return e
                new = Subst(mapping, {}).visit(copy.deepcopy(body[0].value))
                for x in ast.walk(new):
                    ast.copy_location(x, e)
                me.log.append(('inline-helper', unit.loc(e), '%s <- %s (expression)' % (unit.qual, helper.qual)))
                me.inlined.add(helper)
                changed[0] = True
                return new

            def visit_Call(self, n):
                self.generic_visit(n)
                return self.try_inline(n)

            def visit_Attribute(self, n):
                self.generic_visit(n)
                if isinstance(n.ctx, ast.Load):
                    return self.try_inline(n)
                return n

            def visit_ClassDef(self, n):
                return n
        T().visit(fn)
        return changed[0]

    # ---------------------------------------------------------------- generator helpers
    def generator_as_expression(self, hu):
        """a NEW generator function that is one nest of `for` / `if` around a single `yield e` / `yield from it`
        returns the equivalent generator expression instead (then folded at its calls like any one-expression helper)."""
        fn = hu.node
        body = strip_doc(fn.body)
        gens = []
        cur = body
        elt = None
        while True:
            if len(cur) != 1:
                return
            st = cur[0]
            if isinstance(st, ast.For) and not st.orelse:
                gens.append(ast.comprehension(target=st.target, iter=st.iter, ifs=[], is_async=0))
                cur = st.body
            elif isinstance(st, ast.If) and not st.orelse and gens:
                gens[-1].ifs.append(st.test)
                cur = st.body
            elif isinstance(st, ast.Expr) and isinstance(st.value, ast.Yield) and st.value.value is not None and gens:
                elt = st.value.value
                break
            elif isinstance(st, ast.Expr) and isinstance(st.value, ast.YieldFrom) and gens:
                gens.append(ast.comprehension(target=ast.Name(id='item_', ctx=ast.Store()), iter=st.value.value, ifs=[],
                                              is_async=0))
                elt = ast.Name(id='item_', ctx=ast.Load())
                break
            else:
                return
        if any(isinstance(x, (ast.Yield, ast.YieldFrom)) for g in gens for x in ast.walk(g)):
            return
        ret = ast.Return(value=ast.GeneratorExp(elt=elt, generators=gens))
        ast.copy_location(ret, body[0])
        for x in ast.walk(ret):
            if not hasattr(x, 'lineno'):
                ast.copy_location(x, body[0])
        ast.fix_missing_locations(ret)
        fn.body = [s_ for s_ in fn.body if s_ not in body] + [ret]
        self.log.append(('generator-helper', hu.loc(), hu.qual))

    def memoised_as_expression(self, hu):
        """a NEW helper `if self._x is None: self._x = E` + `return self._x`, _x being written nowhere else (but None in a
        constructor), returns E: the value it stands for, computed at the first use."""
        fn = hu.node
        body = strip_doc(fn.body)
        if len(body) != 2 or not isinstance(body[0], ast.If) or body[0].orelse or len(body[0].body) != 1 or \
                not isinstance(body[1], ast.Return) or body[1].value is None:
            return
        asg = body[0].body[0]
        if not (isinstance(asg, ast.Assign) and len(asg.targets) == 1 and isinstance(asg.targets[0], ast.Attribute)
                and isinstance(asg.targets[0].value, ast.Name) and asg.targets[0].value.id == 'self'):
            return
        slot = ast.unparse(asg.targets[0])
        if ast.unparse(body[1].value) != slot or ast.unparse(body[0].test) not in (slot + ' is None', 'not ' + slot):
            return
        attr = asg.targets[0].attr
        for m in self.P.mods.values():
            for n in ast.walk(m.tree):
                if isinstance(n, ast.Assign):
                    for t in n.targets:
                        if isinstance(t, ast.Attribute) and t.attr == attr and n is not asg and \
                                not (isinstance(n.value, ast.Constant) and n.value.value is None):
                            return
                elif isinstance(n, (ast.AugAssign, ast.AnnAssign)) and isinstance(n.target, ast.Attribute) and \
                        n.target.attr == attr and not (isinstance(n, ast.AnnAssign) and (
                            n.value is None or (isinstance(n.value, ast.Constant) and n.value.value is None))):
                    return
        ret = ast.Return(value=asg.value)
        ast.copy_location(ret, body[1])
        fn.body = [s_ for s_ in fn.body if s_ not in body] + [ret]
        self.log.append(('memoised-helper', hu.loc(), hu.qual))

    def fuse_comprehensions(self, unit, fn):
        """`(E(x) for x in (Y for .. ) if c(x))` -> `(E(Y) for .. if c(Y))`: a comprehension over a comprehension (left by
        a folded iterator helper) is one comprehension; the inner binders must not clash with outer names."""
        me = self

        class T(ast.NodeTransformer):
            def _comp(self, n):
                self.generic_visit(n)
                for _ in range(4):
                    done = False
                    for i, g in enumerate(n.generators):
                        inner = g.iter
                        if isinstance(inner, (ast.GeneratorExp, ast.ListComp)) and isinstance(g.target, ast.Name) and \
                                not g.is_async:
                            ib = {x.id for ig in inner.generators for x in ast.walk(ig.target) if isinstance(x, ast.Name)}
                            outer_names = {x.id for x in ast.walk(n) if isinstance(x, ast.Name)} - \
                                {x.id for x in ast.walk(inner) if isinstance(x, ast.Name)}
                            if ib & outer_names:
                                continue
                            sub = Subst({g.target.id: inner.elt}, {})
                            new_gens = list(n.generators[:i]) + [copy.deepcopy(x) for x in inner.generators]
                            if g.ifs:
                                new_gens[-1].ifs = list(new_gens[-1].ifs) + [sub.visit(copy.deepcopy(c)) for c in g.ifs]
                            for later in n.generators[i + 1:]:
                                new_gens.append(sub.visit(copy.deepcopy(later)))
                            n.generators = new_gens
                            for f in ('elt', 'key', 'value'):
                                if hasattr(n, f):
                                    setattr(n, f, sub.visit(copy.deepcopy(getattr(n, f))))
                            ast.fix_missing_locations(n)
                            me.log.append(('fused-comprehension', unit.loc(n), unit.qual))
                            done = True
                            break
                    if not done:
                        break
                return n
            visit_ListComp = visit_SetComp = visit_GeneratorExp = visit_DictComp = _comp
        T().visit(fn)

    # ---------------------------------------------------------------- new constants
    def constants(self):
        P = self.P
        stored_attrs = set()
        for m in P.mods.values():
            for n in ast.walk(m.tree):
                if isinstance(n, ast.Attribute) and isinstance(n.ctx, (ast.Store, ast.Del)):
                    stored_attrs.add(n.attr)
        cls_consts = {}     # (Cls, name) -> value
        for c in P.classes.values():
            if P.is_enum(c):
                continue
            for k, (ann, v) in c.cattrs.items():
                if v is None or c.name + '.' + k in self.pinned or k in stored_attrs or not constant_expr(v):
                    continue
                if any(k in o.cattrs or k in o.methods or k in o.props for o in P.all_subs(c) + P.mro(c)[1:]):
                    continue
                n_assign = sum(1 for b in c.node.body for t in (b.targets if isinstance(b, ast.Assign) else
                               [b.target] if isinstance(b, ast.AnnAssign) else [])
                               if isinstance(t, ast.Name) and t.id == k)
                if n_assign == 1:
                    cls_consts[(c, k)] = v
        mod_consts = {}     # (Mod, name) -> value
        for m in P.mods.values():
            for k, v in m.aliases.items():
                if m.short + ':' + k in self.pinned or not constant_expr(v) or isinstance(v, ast.Name):
                    continue
                n_assign = sum(1 for n in ast.walk(m.tree) if isinstance(n, ast.Name) and n.id == k
                               and isinstance(n.ctx, (ast.Store, ast.Del)))
                if n_assign == 1 and not any(isinstance(n, ast.Global) and k in n.names for n in ast.walk(m.tree)):
                    mod_consts[(m, k)] = v
        if not cls_consts and not mod_consts:
            return
        cnames = {k for _, k in cls_consts}
        mnames = {k for _, k in mod_consts}
        me = self

        for u in list(P.all_units(with_closures=False)):
            local = set(stored_names(u.node)) | set(param_names(u.node))

            class T(ast.NodeTransformer):
                def visit_Attribute(self, n):
                    self.generic_visit(n)
                    if n.attr not in cnames or not isinstance(n.ctx, ast.Load) or not isinstance(n.value, ast.Name):
                        return n
                    c = None
                    if n.value.id in ('self', 'cls') and u.cls is not None:
                        c = u.cls
                    else:
                        r = P.lookup(u.mod, n.value.id)
                        if r and r[0] == 'class':
                            c = r[1]
                    if c is None:
                        return n
                    mem = P.member(c, n.attr)
                    if mem and mem[0] == 'cattr' and (mem[1], n.attr) in cls_consts:
                        new = copy.deepcopy(cls_consts[(mem[1], n.attr)])
                        for x in ast.walk(new):
                            ast.copy_location(x, n)
                        me.log.append(('new-constant', u.loc(n), '%s.%s' % (mem[1].name, n.attr)))
                        return new
                    return n

                def visit_Name(self, n):
                    if n.id not in mnames or not isinstance(n.ctx, ast.Load) or n.id in local:
                        return n
                    r = P.lookup(u.mod, n.id)
                    if r and r[0] == 'alias' and (r[1], n.id) in mod_consts:
                        new = copy.deepcopy(mod_consts[(r[1], n.id)])
                        for x in ast.walk(new):
                            ast.copy_location(x, n)
                        me.log.append(('new-constant', u.loc(n), '%s:%s' % (r[1].short, n.id)))
                        return new
                    return n
            T().visit(u.node)

    # ---------------------------------------------------------------- table dispatch -> if / elif chain
    def dispatch(self, unit, fn):
        """`T = {K1: V1, ..}` looked up with a pure key (`T.get(k)`, `T[k]`, `T[k](args)`) becomes the equivalent
        `if k == K1: .. elif k == K2: ..` chain; when the looked-up value is only used by the statements that follow in
        the same block, they are duplicated into each branch with the value substituted (so that a call through the
        table is a call of the selected callee under the fact `k == Ki`)."""
        P = self.P
        stores = stored_names(fn)
        local_tables = {}
        for n in own_nodes(fn):
            if isinstance(n, ast.Assign) and len(n.targets) == 1 and isinstance(n.targets[0], ast.Name) \
                    and stores.get(n.targets[0].id) == 1 and self._is_table(n.value):
                local_tables[n.targets[0].id] = n.value

        def table_of(e):
            if isinstance(e, ast.Name):
                if e.id in local_tables:
                    return local_tables[e.id]
                if e.id in stores:
                    return None
                r = P.lookup(unit.mod, e.id)
                if r and r[0] == 'alias' and r[1].short + ':' + e.id not in self.pinned and self._is_table(r[2]):
                    return r[2]
            elif isinstance(e, ast.Attribute) and isinstance(e.value, ast.Name):
                c = None
                if e.value.id in ('self', 'cls'):
                    c = unit.cls
                else:
                    r = P.lookup(unit.mod, e.value.id)
                    c = r[1] if r and r[0] == 'class' else None
                mem = P.member(c, e.attr) if c is not None else None
                if mem and mem[0] == 'cattr' and mem[1].name + '.' + e.attr not in self.pinned and \
                        mem[2][1] is not None and self._is_table(mem[2][1]):
                    return mem[2][1]
            return None

        def lookup_of(e):
            """(table, key, default-or-None, raises) for T.get(k[, d]) / T[k]."""
            if isinstance(e, ast.Call) and isinstance(e.func, ast.Attribute) and e.func.attr == 'get' \
                    and 1 <= len(e.args) <= 2 and not e.keywords:
                t = table_of(e.func.value)
                if t is not None and (pure(e.args[0]) or type_of_pure(e.args[0])):
                    return t, e.args[0], (e.args[1] if len(e.args) == 2 else ast.Constant(value=None)), False
            if isinstance(e, ast.Subscript) and isinstance(e.ctx, ast.Load):
                t = table_of(e.value)
                if t is not None and (pure(e.slice) or type_of_pure(e.slice)):
                    return t, e.slice, None, True
            return None

        def type_of_pure(e):
            return isinstance(e, ast.Call) and isinstance(e.func, ast.Name) and e.func.id == 'type' and \
                len(e.args) == 1 and not e.keywords and pure(e.args[0])

        def chain(key, table, make, default_body, at):
            first = cur = None
            for k, v in zip(table.keys, table.values):
                # a dictionary keyed by classes and looked up with type(x) selects by identity of the class
                op = ast.Is() if type_of_pure(key) else ast.Eq()
                test = ast.Compare(left=copy.deepcopy(key), ops=[op], comparators=[copy.deepcopy(k)])
                node = ast.If(test=test, body=make(v), orelse=[])
                ast.copy_location(node, at)
                if first is None:
                    first = cur = node
                else:
                    cur.orelse = [node]
                    cur = node
            cur.orelse = default_body
            ast.fix_missing_locations(first)
            return first

        def keyerror(key, at):
            r = ast.Raise(exc=ast.Call(func=ast.Name(id='KeyError', ctx=ast.Load()), args=[copy.deepcopy(key)],
                                       keywords=[]), cause=None)
            r._synthetic = True
            return [ast.fix_missing_locations(ast.copy_location(r, at))]

        def simplify(stmts, name_true):
            """fold `if <selected value>:` after substitution (a class or a bound method is truthy, None is not)."""
            out = []
            for st in stmts:
                if isinstance(st, ast.If) and getattr(st.test, '_selected', None) is not None:
                    out.extend(simplify(st.body if st.test._selected else st.orelse, name_true))
                    continue
                # `if <selected value> is [not] None:`
                t = st.test if isinstance(st, ast.If) else None
                if isinstance(t, ast.Compare) and len(t.ops) == 1 and isinstance(t.ops[0], (ast.Is, ast.IsNot)) and \
                        getattr(t.left, '_selected', None) is not None and isinstance(t.comparators[0], ast.Constant) \
                        and t.comparators[0].value is None:
                    is_none = not t.left._selected
                    taken = is_none if isinstance(t.ops[0], ast.Is) else not is_none
                    out.extend(simplify(st.body if taken else st.orelse, name_true))
                    continue
                for owner, f in block_lists(st):
                    new = simplify(getattr(owner, f), name_true)
                    if not new and f == 'body':
                        new = [ast.copy_location(ast.Pass(), st)]
                    setattr(owner, f, new)
                out.append(st)
            return out

        def fold_key_tests(stmts, key, ki, all_keys):
            """inside the branch `key == ki` (ki None: the default branch, key is none of all_keys) the tests of the key
            against constants are decided."""
            ktxt = ast.unparse(key)

            def decide(t):
                if isinstance(t, ast.UnaryOp) and isinstance(t.op, ast.Not):
                    d = decide(t.operand)
                    return None if d is None else not d
                if isinstance(t, ast.Compare) and len(t.ops) == 1 and ast.unparse(t.left) == ktxt:
                    op, r = t.ops[0], t.comparators[0]
                    if isinstance(op, (ast.Eq, ast.Is, ast.NotEq, ast.IsNot)) and simple_const(r):
                        vals = [ast.unparse(r)]
                    elif isinstance(op, (ast.In, ast.NotIn)) and isinstance(r, (ast.List, ast.Tuple, ast.Set)) and \
                            all(simple_const(e) for e in r.elts):
                        vals = [ast.unparse(e) for e in r.elts]
                    else:
                        return None
                    if ki is not None:
                        res = ast.unparse(ki) in vals
                    elif all(v in all_keys for v in vals):
                        res = False
                    else:
                        return None
                    return res if isinstance(op, (ast.Eq, ast.Is, ast.In)) else not res
                return None
            out = []
            for st in stmts:
                if isinstance(st, ast.If):
                    d = decide(st.test)
                    if d is not None:
                        out.extend(fold_key_tests(st.body if d else st.orelse, key, ki, all_keys))
                        continue
                if not isinstance(st, (ast.FunctionDef, ast.AsyncFunctionDef, ast.ClassDef)):
                    for owner, f in block_lists(st):
                        new = fold_key_tests(getattr(owner, f), key, ki, all_keys)
                        if not new and f == 'body':
                            new = [ast.copy_location(ast.Pass(), st)]
                        setattr(owner, f, new)
                out.append(st)
            return out

        def dup(rest, name, value):
            truthy = not (isinstance(value, ast.Constant) and value.value is None)

            class S(ast.NodeTransformer):
                def visit_Name(self, n):
                    if n.id == name and isinstance(n.ctx, ast.Load):
                        new = copy.deepcopy(value)
                        for x in ast.walk(new):
                            ast.copy_location(x, n)
                        new._selected = truthy
                        return new
                    return n
            return simplify([S().visit(copy.deepcopy(st)) for st in rest], truthy)

        def uses(nodes, name):
            return sum(1 for st in nodes for x in ast.walk(st) if isinstance(x, ast.Name) and x.id == name
                       and isinstance(x.ctx, ast.Load))

        changed = [False]

        def do_list(stmts):
            for st in stmts:
                if not isinstance(st, (ast.FunctionDef, ast.AsyncFunctionDef, ast.ClassDef)):
                    for owner, f in block_lists(st):
                        setattr(owner, f, do_list(getattr(owner, f)))
            out = []
            for i, st in enumerate(stmts):
                rest = stmts[i + 1:]
                # a, b = T[k]   (tuple-valued table): the continuation is duplicated with every name substituted
                if isinstance(st, ast.Assign) and len(st.targets) == 1 and isinstance(st.targets[0], ast.Tuple) and \
                        all(isinstance(e, ast.Name) for e in st.targets[0].elts):
                    lk = lookup_of(st.value)
                    names = [e.id for e in st.targets[0].elts]
                    if lk and lk[3] and all(stores.get(x) == 1 for x in names) and \
                            all(isinstance(v, ast.Tuple) and len(v.elts) == len(names) for v in lk[0].values) and \
                            rest and len(rest) <= 8 and all(uses(rest, x) == uses([fn], x) for x in names):
                        table, key, default, raises = lk

                        def make(v, rest=rest, names=names):
                            body = rest
                            for x, e in zip(names, v.elts):
                                body = dup(body, x, e)
                            return body or [ast.copy_location(ast.Pass(), st)]
                        out.append(chain(key, table, make, keyerror(key, st), st))
                        self.log.append(('table-dispatch', unit.loc(st), '%s: %s (continuation duplicated)' % (unit.qual, names)))
                        changed[0] = True
                        return out
                # x = T.get(k) / x = T[k]
                if isinstance(st, ast.Assign) and len(st.targets) == 1 and isinstance(st.targets[0], ast.Name):
                    lk = lookup_of(st.value)
                    x = st.targets[0].id
                    if lk and stores.get(x) == 1:
                        table, key, default, raises = lk
                        total = uses([fn], x)
                        if rest and 0 < uses(rest, x) == total and len(rest) <= 8:
                            all_keys = [ast.unparse(k_) for k_ in table.keys]
                            kv = {id(v_): k_ for k_, v_ in zip(table.keys, table.values)}

                            def make(v, rest=rest, x=x, key=key, kv=kv, all_keys=all_keys):
                                body = dup(rest, x, v)
                                body = fold_key_tests(body, key, kv.get(id(v)), all_keys)
                                return body or [ast.copy_location(ast.Pass(), st)]
                            dflt = keyerror(key, st) if raises else (
                                fold_key_tests(dup(rest, x, default), key, None, all_keys) or [ast.copy_location(ast.Pass(), st)])
                            out.append(chain(key, table, make, dflt, st))
                            self.log.append(('table-dispatch', unit.loc(st), '%s: %s (continuation duplicated)' % (unit.qual, x)))
                            changed[0] = True
                            return out
                        def make(v, st=st):
                            n = ast.Assign(targets=[copy.deepcopy(st.targets[0])], value=copy.deepcopy(v))
                            return [ast.fix_missing_locations(ast.copy_location(n, st))]
                        dflt = keyerror(key, st) if raises else make(default)
                        out.append(chain(key, table, make, dflt, st))
                        self.log.append(('table-dispatch', unit.loc(st), '%s: %s' % (unit.qual, x)))
                        changed[0] = True
                        continue
                # T[k](args) as the value of an expression statement, an assignment or a return
                val = getattr(st, 'value', None) if isinstance(st, (ast.Expr, ast.Assign, ast.Return)) else None
                if isinstance(val, ast.Call):
                    lk = lookup_of(val.func)
                    if lk:
                        table, key, default, raises = lk

                        def make(v, st=st):
                            n = copy.deepcopy(st)
                            n.value.func = copy.deepcopy(v)
                            return [n]
                        out.append(chain(key, table, make, keyerror(key, st), st))
                        self.log.append(('table-dispatch', unit.loc(st), '%s: call through a table' % unit.qual))
                        changed[0] = True
                        continue
                out.append(st)
            return out
        fn.body = do_list(fn.body)
        if changed[0]:
            # a local table that is no longer read is dead
            live = {n.id for n in ast.walk(fn) if isinstance(n, ast.Name) and isinstance(n.ctx, ast.Load)}

            def prune(stmts):
                out = []
                for st in stmts:
                    for owner, f in block_lists(st) if not isinstance(st, (ast.FunctionDef, ast.ClassDef)) else ():
                        setattr(owner, f, prune(getattr(owner, f)) or [ast.copy_location(ast.Pass(), st)])
                    if isinstance(st, ast.Assign) and len(st.targets) == 1 and isinstance(st.targets[0], ast.Name) \
                            and st.targets[0].id in local_tables and st.targets[0].id not in live:
                        continue
                    out.append(st)
                return out
            fn.body = prune(fn.body)

    @staticmethod
    def _is_table(v):
        return isinstance(v, ast.Dict) and len(v.keys) >= 2 and all(k is not None and simple_const(k) for k in v.keys) \
            and all(pure(x) or isinstance(x, ast.Tuple) and all(pure(y) for y in x.elts) for x in v.values)

    # ---------------------------------------------------------------- tests decided by an enclosing test
    def fold_implied_tests(self, unit, fn):
        """inside `if k == A:` (or `k in [A, B]`, or the else of such a test) a nested test of the same pure key against
        constants may be decided: the dead branch is removed (k bound at most once in the function)."""
        stores = stored_names(fn)
        me = self

        def vals_of(t):
            """(key text, operator kind, constant texts) for `k == C`, `k is C`, `k in [..]` and their negations."""
            neg = False
            while isinstance(t, ast.UnaryOp) and isinstance(t.op, ast.Not):
                t, neg = t.operand, not neg
            if not (isinstance(t, ast.Compare) and len(t.ops) == 1 and pure(t.left)):
                return None
            root = t.left
            while isinstance(root, (ast.Attribute, ast.Subscript)):
                root = root.value
            if not isinstance(root, ast.Name) or stores.get(root.id, 0) > 1:
                return None
            op, r = t.ops[0], t.comparators[0]
            if isinstance(op, (ast.Eq, ast.Is, ast.NotEq, ast.IsNot)) and simple_const(r) and not isinstance(r, (ast.List, ast.Tuple, ast.Set)):
                vs = {ast.unparse(r)}
            elif isinstance(op, (ast.In, ast.NotIn)) and isinstance(r, (ast.List, ast.Tuple, ast.Set)) and \
                    all(simple_const(e) for e in r.elts):
                vs = {ast.unparse(e) for e in r.elts}
            else:
                return None
            positive = isinstance(op, (ast.Eq, ast.Is, ast.In)) != neg
            return ast.unparse(t.left), positive, vs

        def decide(t, cons):
            v = vals_of(t)
            if v is None or v[0] not in cons:
                return None
            k, positive, vs = v
            allowed, excluded = cons[k]
            res = None
            if allowed is not None:
                if allowed <= vs:
                    res = True
                elif not (allowed & vs):
                    res = False
            if res is None and excluded and vs <= excluded:
                res = False
            if res is None:
                return None
            return res if positive else not res

        def with_test(cons, t, branch):
            v = vals_of(t)
            if v is None:
                return cons
            k, positive, vs = v
            allowed, excluded = cons.get(k, (None, set()))
            new = dict(cons)
            if positive == branch:
                new[k] = (vs if allowed is None else allowed & vs, excluded)
            else:
                new[k] = (allowed - vs if allowed is not None else None, excluded | vs)
            return new

        def do_list(stmts, cons):
            out = []
            for st in stmts:
                if isinstance(st, (ast.FunctionDef, ast.AsyncFunctionDef, ast.ClassDef)):
                    out.append(st)
                    continue
                if isinstance(st, ast.If):
                    d = decide(st.test, cons)
                    if d is False:
                        me.log.append(('implied-test', unit.loc(st), unit.qual))
                        out.extend(do_list(st.orelse, cons))
                        continue
                    if d is True and st.orelse:
                        # the test is kept (what it says stays a fact of its body), the dead alternative goes
                        me.log.append(('implied-test', unit.loc(st), unit.qual))
                        st.orelse = []
                    st.body = do_list(st.body, with_test(cons, st.test, True)) or [ast.copy_location(ast.Pass(), st)]
                    st.orelse = do_list(st.orelse, with_test(cons, st.test, False))
                    out.append(st)
                    if always_exits(st.body) and not st.orelse:
                        cons = with_test(cons, st.test, False)
                    continue
                for owner, f in block_lists(st):
                    inner = {} if isinstance(st, (ast.For, ast.While)) else cons
                    new = do_list(getattr(owner, f), inner if isinstance(st, (ast.For, ast.While)) else cons)
                    if not new and f == 'body':
                        new = [ast.copy_location(ast.Pass(), st)]
                    setattr(owner, f, new)
                out.append(st)
            return out
        fn.body = do_list(fn.body, {}) or [ast.copy_location(ast.Pass(), fn)]

    # ---------------------------------------------------------------- local aliases
    def _rebinders(self):
        """{simple function name: attribute names that a call of a function of that name may re-bind}, transitively
        through the calls it makes (by simple name: an over-approximation)."""
        if getattr(self, '_rb', None) is not None:
            return self._rb
        direct, calls = {}, {}
        P = getattr(self, 'P', None)
        if P is None:
            self._rb = {}
            return self._rb
        for u in P.all_units(with_closures=False):
            if u.node.name == '__init__':
                continue
            key = ('m:' if u.cls is not None else 'f:') + u.node.name
            d = direct.setdefault(key, set())
            c = calls.setdefault(key, set())
            env = None
            for n in ast.walk(u.node):
                if isinstance(n, ast.Attribute) and isinstance(n.ctx, (ast.Store, ast.Del)):
                    # (class of the object whose attribute is re-bound, attribute); None when the class is unknown
                    owner = None
                    if isinstance(n.value, ast.Name) and n.value.id == 'self' and u.cls is not None:
                        owner = u.cls.name
                    else:
                        try:
                            env = env or P.env(u, u.cls)
                            t = env.typeof(n.value)
                            owner = t[1].name if t and t[0] == 'inst' else None
                        except Exception:
                            owner = None
                    d.add((owner, n.attr))
                elif isinstance(n, ast.Call):
                    f = n.func
                    nm = f.attr if isinstance(f, ast.Attribute) else getattr(f, 'id', '')
                    # methods of the built-in containers / strings / loggers called on something else than self are
                    # not calls into the package (a package method of the same name is not meant)
                    if not (isinstance(f, ast.Attribute) and not (isinstance(f.value, ast.Name) and f.value.id == 'self')
                            and nm in ('get', 'update', 'append', 'add', 'pop', 'remove', 'discard', 'items', 'values',
                                       'keys', 'copy', 'clear', 'extend', 'insert', 'setdefault', 'index', 'count',
                                       'sort', 'join', 'split', 'format', 'strip', 'startswith', 'endswith', 'debug',
                                       'info', 'warn', 'error', 'critical', 'trace', 'blather', 'group', 'search',
                                       'match', 'lower', 'upper', 'replace', 'encode', 'decode', 'intersection',
                                       'union', 'difference', 'issubset', 'issuperset', 'total_seconds', 'put',
                                       'read', 'write', 'close', 'find', 'findall', 'findtext')):
                        # a bare name designates a module-level function, an attribute call a method
                        c.add(('m:' if isinstance(f, ast.Attribute) else 'f:') + nm)
                    if isinstance(f, ast.Name) and f.id == 'setattr' and len(n.args) >= 2 and isinstance(n.args[1], ast.Constant):
                        d.add((None, str(n.args[1].value)))
        changed = True
        while changed:
            changed = False
            for k in direct:
                for c in calls.get(k, ()):
                    extra = direct.get(c, set()) - direct[k]
                    if extra:
                        direct[k] |= extra
                        changed = True
        self._rb = direct
        return self._rb

    def aliases(self, unit, fn):
        stores = stored_names(fn)
        params = set(param_names(fn))
        # texts of every re-bound chain (attribute / subscript stores, del) in the function, nested defs included
        rebound = set()
        for n in ast.walk(fn):
            if isinstance(n, (ast.Attribute, ast.Subscript)) and isinstance(n.ctx, (ast.Store, ast.Del)):
                rebound.add(ast.unparse(n))
            elif isinstance(n, ast.AugAssign):
                rebound.add(ast.unparse(n.target))
        nested_uses = set()
        for n in own_nodes(fn):
            if isinstance(n, (ast.FunctionDef, ast.AsyncFunctionDef, ast.Lambda)):
                for x in ast.walk(n):
                    if isinstance(x, ast.Name):
                        nested_uses.add(x.id)
        alias = {}
        for n in own_nodes(fn):
            if isinstance(n, ast.Assign) and len(n.targets) == 1:
                t, v = n.targets[0], n.value
            elif isinstance(n, ast.AnnAssign) and n.value is not None:
                t, v = n.target, n.value
            else:
                continue
            if not isinstance(t, ast.Name) or stores.get(t.id) != 1 or t.id in params:
                continue
            if isinstance(v, ast.Name) or not (self._chain(v) or simple_const(v) and not
                                               isinstance(v, (ast.List, ast.Set))):
                continue
            root = v
            while isinstance(root, (ast.Attribute, ast.Subscript)):
                root = root.value
            if isinstance(root, ast.Name) and root.id != 'self' and (stores.get(root.id, 0) > 1 or
                                                                     root.id in params and root.id in stores):
                continue
            # the chain, and each of its prefixes, must not be re-bound in the function
            e, bad = v, False
            while isinstance(e, (ast.Attribute, ast.Subscript)):
                if ast.unparse(e) in rebound:
                    bad = True
                e = e.value
            # ... nor by a function called while the alias is alive: `jobs = self.planned_jobs` does not follow
            # a `self.planned_jobs = {}` made by a callee (the calls after the definition, all of them inside a loop)
            chain = []          # (class of the owner or None, attribute) for each link of the chain
            P = getattr(self, 'P', None)
            for x in ast.walk(v):
                if isinstance(x, ast.Attribute):
                    owner = None
                    if P is not None and hasattr(unit, 'mod'):
                        if isinstance(x.value, ast.Name) and x.value.id == 'self' and unit.cls is not None:
                            owner = unit.cls
                        else:
                            try:
                                ty = P.env(unit, unit.cls).typeof(x.value)
                                owner = ty[1] if ty and ty[0] == 'inst' else None
                            except Exception:
                                owner = None
                    chain.append((owner, x.attr))
            if chain and P is not None:
                rb = self._rebinders()
                in_loop = any(isinstance(l, (ast.For, ast.While)) and any(x is n for x in ast.walk(l)) for l in own_nodes(fn))

                def related(owner, cname):
                    if owner is None or cname is None:
                        return True
                    c = P.classes.get(cname)
                    return c is None or c is owner or c in P.mro(owner) or owner in P.mro(c)
                for c in ast.walk(fn):
                    if isinstance(c, ast.Call) and (in_loop or getattr(c, 'lineno', 0) >= n.lineno):
                        f = c.func
                        nm = ('m:' + f.attr) if isinstance(f, ast.Attribute) else ('f:' + getattr(f, 'id', ''))
                        for (cn, at) in rb.get(nm, ()):
                            if any(at == a2 and related(o2, cn) for o2, a2 in chain):
                                bad = True
                                break
                    if bad:
                        break
            if any(isinstance(x, ast.Subscript) for x in ast.walk(v)):
                # an indexed container may also change through its methods (pop, update, ..) or be a fresh event each
                # time: only when the container is a parameter that the function never mutates
                rt = root.id if isinstance(root, ast.Name) else None
                if rt not in params or any(isinstance(c, ast.Call) and isinstance(c.func, ast.Attribute) and
                                           isinstance(c.func.value, ast.Name) and c.func.value.id == rt and
                                           c.func.attr in ('pop', 'update', 'clear', 'setdefault', 'popitem', '__setitem__')
                                           for c in ast.walk(fn)):
                    bad = True
            if bad:
                continue
            alias[t.id] = (v, n)
        if not alias:
            return
        me = self

        class T(ast.NodeTransformer):
            def visit_Name(self, n):
                if n.id in alias and isinstance(n.ctx, ast.Load):
                    v, site = alias[n.id]
                    if n.lineno < site.lineno:
                        return n
                    new = copy.deepcopy(v)
                    for x in ast.walk(new):
                        ast.copy_location(x, n)
                    me.log.append(('local-alias', unit.loc(n), '%s: %s -> %s' % (unit.qual, n.id, ast.unparse(v))))
                    return new
                return n
        for k in range(3):
            T().visit(fn)
        # the defining assignment of a fully substituted alias is dead: drop it
        live = {n.id for n in ast.walk(fn) if isinstance(n, ast.Name) and isinstance(n.ctx, ast.Load)}

        def prune(stmts):
            out = []
            for st in stmts:
                if isinstance(st, (ast.FunctionDef, ast.AsyncFunctionDef, ast.ClassDef)):
                    out.append(st)
                    continue
                for owner, f in block_lists(st):
                    new = prune(getattr(owner, f))
                    if not new and f in ('body',):
                        new = [ast.copy_location(ast.Pass(), st)]
                    setattr(owner, f, new)
                if any(st is site for _, site in alias.values()):
                    t = st.targets[0] if isinstance(st, ast.Assign) else st.target
                    if t.id not in live:
                        continue
                out.append(st)
            return out
        fn.body = prune(fn.body) or [ast.copy_location(ast.Pass(), fn)]

    @staticmethod
    def _chain(e):
        """a.b.c, or such a chain indexed by constants (`stats['now']`)."""
        if not isinstance(e, (ast.Attribute, ast.Subscript)):
            return False
        while isinstance(e, (ast.Attribute, ast.Subscript)):
            if isinstance(e, ast.Subscript) and not isinstance(e.slice, ast.Constant):
                return False
            e = e.value
        return isinstance(e, ast.Name)

    # ---------------------------------------------------------------- loops -> comprehensions
    def loops(self, unit, fn):
        me = self

        def neg(c):
            if isinstance(c, ast.UnaryOp) and isinstance(c.op, ast.Not):
                return c.operand
            if isinstance(c, ast.Compare) and len(c.ops) == 1:
                inv = {ast.In: ast.NotIn, ast.NotIn: ast.In, ast.Eq: ast.NotEq, ast.NotEq: ast.Eq,
                       ast.Is: ast.IsNot, ast.IsNot: ast.Is}
                k = type(c.ops[0])
                if k in inv:
                    return ast.Compare(left=c.left, ops=[inv[k]()], comparators=c.comparators)
            return ast.UnaryOp(op=ast.Not(), operand=c)

        def conj(cs):
            if not cs:
                return None
            if len(cs) == 1:
                return cs[0]
            vals = []
            for c in cs:
                vals += c.values if isinstance(c, ast.BoolOp) and isinstance(c.op, ast.And) else [c]
            return ast.BoolOp(op=ast.And(), values=vals)

        def peel(body, gens, conds, leaf):
            """body of a for loop -> generators/conditions down to a single leaf statement accepted by `leaf`."""
            body = list(body)
            while body and isinstance(body[0], ast.If) and not body[0].orelse and len(body) > 1 and \
                    len(body[0].body) == 1 and isinstance(body[0].body[0], ast.Continue):
                conds.append(neg(body[0].test))
                body = body[1:]
            if len(body) != 1:
                return None
            st = body[0]
            if isinstance(st, ast.If) and not st.orelse:
                conds.append(st.test)
                return peel(st.body, gens, conds, leaf)
            if isinstance(st, ast.For) and not st.orelse:
                c = conj(conds)
                if gens:
                    gens[-1].ifs = ([c] if c is not None else [])
                else:
                    return None
                gens.append(ast.comprehension(target=st.target, iter=st.iter, ifs=[], is_async=0))
                del conds[:]
                return peel(st.body, gens, conds, leaf)
            return leaf(st)

        def gen_of(loop, leaf):
            if loop.orelse or has_own(loop, (ast.Break,)):
                return None
            gens = [ast.comprehension(target=loop.target, iter=loop.iter, ifs=[], is_async=0)]
            conds = []
            r = peel(loop.body, gens, conds, leaf)
            if r is None:
                return None
            return gens, conds, r

        def acc_leaf(acc):
            def leaf(st):
                if isinstance(st, ast.Expr) and isinstance(st.value, ast.Call) and isinstance(st.value.func, ast.Attribute) \
                        and isinstance(st.value.func.value, ast.Name) and st.value.func.value.id == acc \
                        and st.value.func.attr in ('append', 'add') and len(st.value.args) == 1 and not st.value.keywords:
                    return (st.value.func.attr, st.value.args[0])
                if isinstance(st, ast.Assign) and len(st.targets) == 1 and isinstance(st.targets[0], ast.Subscript) \
                        and isinstance(st.targets[0].value, ast.Name) and st.targets[0].value.id == acc:
                    return ('setitem', (st.targets[0].slice, st.value))
                return None
            return leaf

        def ret_leaf(st):
            if isinstance(st, ast.Return) and st.value is not None:
                return ('return', st.value)
            return None

        def empty_kind(v):
            if isinstance(v, ast.List) and not v.elts:
                return 'list'
            if isinstance(v, ast.Dict) and not v.keys:
                return 'dict'
            if isinstance(v, ast.Call) and isinstance(v.func, ast.Name) and not v.args and not v.keywords \
                    and v.func.id in ('list', 'dict', 'set'):
                return v.func.id
            return None

        def mentions(node, name):
            return any(isinstance(x, ast.Name) and x.id == name for x in ast.walk(node))

        def do_list(stmts):
            for st in stmts:
                if not isinstance(st, (ast.FunctionDef, ast.AsyncFunctionDef, ast.ClassDef)):
                    for owner, f in block_lists(st):
                        setattr(owner, f, do_list(getattr(owner, f)))
            out = []
            i = 0
            while i < len(stmts):
                st = stmts[i]
                done = False
                # accumulator pattern
                if isinstance(st, (ast.Assign, ast.AnnAssign)) and getattr(st, 'value', None) is not None:
                    t = st.targets[0] if isinstance(st, ast.Assign) and len(st.targets) == 1 else getattr(st, 'target', None)
                    kind = empty_kind(st.value)
                    if isinstance(t, ast.Name) and kind:
                        j = i + 1
                        while j < len(stmts) and not mentions(stmts[j], t.id) and \
                                isinstance(stmts[j], (ast.Assign, ast.AnnAssign, ast.Expr)):
                            j += 1
                        if j < len(stmts) and isinstance(stmts[j], ast.For) and not mentions(stmts[j].iter, t.id):
                            g = gen_of(stmts[j], acc_leaf(t.id))
                            if g:
                                gens, conds, (op, el) = g
                                ok = (kind == 'list' and op == 'append') or (kind == 'set' and op == 'add') or \
                                     (kind == 'dict' and op == 'setitem')
                                inner = el if op != 'setitem' else ast.Tuple(elts=list(el), ctx=ast.Load())
                                if ok and not any(mentions(x, t.id) for x in [inner] + conds +
                                                  [gg.iter for gg in gens] + [c for gg in gens for c in gg.ifs]):
                                    c = conj(conds)
                                    gens[-1].ifs = [c] if c is not None else []
                                    if op == 'append':
                                        comp = ast.ListComp(elt=el, generators=gens)
                                    elif op == 'add':
                                        comp = ast.SetComp(elt=el, generators=gens)
                                    else:
                                        comp = ast.DictComp(key=el[0], value=el[1], generators=gens)
                                    new = copy.copy(st)
                                    new.value = ast.copy_location(comp, stmts[j])
                                    ast.fix_missing_locations(new)
                                    # the assignment takes the place of the loop (the statements in between come first)
                                    out.extend(stmts[i + 1:j])
                                    me.log.append(('loop-to-comprehension', unit.loc(stmts[j]), '%s: %s' % (unit.qual, t.id)))
                                    nxt = stmts[j + 1] if j + 1 < len(stmts) else None
                                    n_use = sum(1 for x in ast.walk(fn) if isinstance(x, ast.Name) and x.id == t.id
                                                and isinstance(x.ctx, ast.Load))
                                    # (the function still holds the loop here: one load in the loop, one in nxt)
                                    if nxt is not None and n_use == 2 and isinstance(nxt, (ast.Return, ast.Assign, ast.Expr)) \
                                            and sum(1 for x in ast.walk(nxt) if isinstance(x, ast.Name) and x.id == t.id
                                                    and isinstance(x.ctx, ast.Load)) == 1 and \
                                            sum(1 for x in ast.walk(fn) if isinstance(x, ast.Name) and x.id == t.id) == 3:
                                        # the accumulator was only a name for the value handed to the next statement
                                        out.append(Subst({t.id: comp}).visit(nxt))
                                        i = j + 2
                                    else:
                                        out.append(ast.copy_location(new, stmts[j]))
                                        i = j + 1
                                    done = True
                # search pattern: for ..: if c: return e   /   return d
                if not done and isinstance(st, ast.For) and i + 1 < len(stmts) and isinstance(stmts[i + 1], ast.Return):
                    g = gen_of(st, ret_leaf)
                    if g:
                        gens, conds, (_, val) = g
                        dflt = stmts[i + 1].value
                        c = conj(conds)
                        if isinstance(val, ast.Constant) and val.value is True and isinstance(dflt, ast.Constant) \
                                and dflt.value is False and c is not None:
                            # any(A and B for ..) == any(B for .. if A): the last conjunct is the element
                            if isinstance(c, ast.BoolOp) and isinstance(c.op, ast.And):
                                gens[-1].ifs = [conj(c.values[:-1])]
                                c = c.values[-1]
                            call = ast.Call(func=ast.Name(id='any', ctx=ast.Load()),
                                            args=[ast.GeneratorExp(elt=c, generators=gens)], keywords=[])
                        else:
                            gens[-1].ifs = [c] if c is not None else []
                            call = ast.Call(func=ast.Name(id='next', ctx=ast.Load()),
                                            args=[ast.GeneratorExp(elt=val, generators=gens),
                                                  dflt if dflt is not None else ast.Constant(value=None)], keywords=[])
                        new = ast.Return(value=call)
                        ast.copy_location(new, st)
                        ast.copy_location(call, st)
                        ast.fix_missing_locations(new)
                        out.append(new)
                        me.log.append(('loop-to-comprehension', unit.loc(st), '%s: return' % unit.qual))
                        i += 2
                        done = True
                if not done:
                    out.append(st)
                    i += 1
            return out
        fn.body = do_list(fn.body)

    # ---------------------------------------------------------------- driver
    def local_passes(self, u, fn):
        """the rewritings that only look at one function."""
        self.plain_assignments(u, fn)
        self.closures_inline(u, fn)
        self.fuse_comprehensions(u, fn)
        self.idioms(u, fn)
        self.accumulations(u, fn)
        self.unroll_literal_loops(u, fn)
        self.sink_into_branches(u, fn)
        self.bulk_removals(u, fn)
        self.or_defaults(u, fn)
        self.aliases(u, fn)
        self.loops(u, fn)
        self.fold_conditions(u, fn)
        self.split_exits(u, fn)
        self.unnest_else(u, fn)
        self.order_compares(u, fn)
        self.discards(u, fn)
        self.merge_ifs(u, fn)
        self.drop_pass(fn)

    def accumulations(self, unit, fn):
        """`t = t + v` -> `t += v` (also `-`, `|`, `&`, `*`) and `d[k] = d.get(k, 0) + v` -> `d[k] += v`: one spelling
        of an accumulation for the rules (t a name, an attribute chain or a subscript of pure parts)."""
        me = self
        OPS = (ast.Add, ast.Sub, ast.BitOr, ast.BitAnd, ast.Mult)

        class T(ast.NodeTransformer):
            def visit_FunctionDef(self, n):
                if n is fn:
                    self.generic_visit(n)
                return n

            def visit_Assign(self, n):
                if len(n.targets) != 1 or not isinstance(n.value, ast.BinOp) or not isinstance(n.value.op, OPS):
                    return n
                t = n.targets[0]
                if not isinstance(t, (ast.Name, ast.Attribute, ast.Subscript)) or not pure(t):
                    return n
                tt = ast.unparse(t)
                l, r = n.value.left, n.value.right
                other = None
                if ast.unparse(l) == tt:
                    other = r
                elif isinstance(n.value.op, ast.Add) and isinstance(t, ast.Subscript) and isinstance(l, ast.Call) and \
                        isinstance(l.func, ast.Attribute) and l.func.attr == 'get' and len(l.args) == 2 and \
                        isinstance(l.args[1], ast.Constant) and l.args[1].value == 0 and not l.keywords and \
                        ast.unparse(l.func.value) == ast.unparse(t.value) and ast.unparse(l.args[0]) == ast.unparse(t.slice):
                    other = r
                if other is None:
                    return n
                tgt = copy.deepcopy(t)
                new = ast.AugAssign(target=tgt, op=n.value.op, value=other)
                me.log.append(('accumulation', unit.loc(n), '%s: %s' % (unit.qual, tt)))
                return ast.fix_missing_locations(ast.copy_location(new, n))
        T().visit(fn)

    def plain_assignments(self, unit, fn):
        """`x: T = v` (a local, T not needed to type x: a primitive / container annotation, or v is a call whose result
        type is known anyway) -> `x = v`: the rules look at assignments, annotated or not."""
        P = getattr(self, 'P', None)

        def do_list(stmts):
            out = []
            for st in stmts:
                if not isinstance(st, (ast.FunctionDef, ast.AsyncFunctionDef, ast.ClassDef)):
                    for owner, f in block_lists(st):
                        setattr(owner, f, do_list(getattr(owner, f)))
                if isinstance(st, ast.AnnAssign) and st.value is not None and isinstance(st.target, ast.Name) and st.simple:
                    keep = False
                    if P is not None and hasattr(unit, 'mod') and not isinstance(st.value, ast.Call):
                        try:
                            t = P.ann(unit.mod, st.annotation)
                        except Exception:
                            t = None
                        keep = bool(t) and t[0] in ('inst', 'cls')
                    if not keep:
                        new = ast.Assign(targets=[st.target], value=st.value)
                        out.append(ast.fix_missing_locations(ast.copy_location(new, st)))
                        continue
                out.append(st)
            return out
        fn.body = do_list(fn.body)

    @staticmethod
    def drop_pass(fn):
        """`pass` next to other statements (left by the rewritings) is removed, and so is what follows an unconditional
        return / raise / continue / break in the same block (unreachable)."""
        def do_list(stmts):
            for st in stmts:
                if not isinstance(st, (ast.FunctionDef, ast.AsyncFunctionDef, ast.ClassDef)):
                    for owner, f in block_lists(st):
                        setattr(owner, f, do_list(getattr(owner, f)))
            kept = [st for st in stmts if not isinstance(st, ast.Pass)]
            for i, st in enumerate(kept):
                if isinstance(st, (ast.Return, ast.Raise, ast.Continue, ast.Break)) and i + 1 < len(kept) and \
                        getattr(st, '_synthetic_exit', True):
                    kept = kept[:i + 1]        # what follows an unconditional exit is dead (left by the table dispatch)
                    break
            return kept or stmts[:1]
        fn.body = do_list(fn.body)

    def run(self):
        P = self.P
        units = [u for u in P.all_units(with_closures=False)]
        if self.new_callables:
            for lst in self.new_callables.values():
                for (_c, _m, hu) in lst:
                    self.generator_as_expression(hu)
                    self.memoised_as_expression(hu)
            for _ in range(3):
                ch = False
                for u in units:
                    ch |= self.inline_statements(u, u.node)
                    ch |= self.inline_expressions(u, u.node)
                if not ch:
                    break
        self.constants()
        for u in units:
            self.dispatch(u, u.node)
            self.fold_implied_tests(u, u.node)
            self.local_passes(u, u.node)
        self.drop_absorbed()
        for u in units:
            self.rename_back(u, u.node)
        for m in P.mods.values():
            ast.fix_missing_locations(m.tree)
        return {name: m.tree for name, m in P.mods.items()}

    # ---------------------------------------------------------------- loops over a literal sequence
    def unroll_literal_loops(self, unit, fn):
        """`for a, b in ((x1, y1), (x2, y2)): BODY` (a literal of at most 6 pure elements, no break / continue / else)
        is BODY once per element, with the targets replaced by the element."""
        me = self

        def do_list(stmts):
            out = []
            for st in stmts:
                if not isinstance(st, (ast.FunctionDef, ast.AsyncFunctionDef, ast.ClassDef)):
                    for owner, f in block_lists(st):
                        setattr(owner, f, do_list(getattr(owner, f)))
                if isinstance(st, ast.For) and not st.orelse and isinstance(st.iter, (ast.Tuple, ast.List)) and \
                        1 <= len(st.iter.elts) <= 6 and not has_own(st, (ast.Break, ast.Continue)) and \
                        all(pure(e) or (isinstance(e, (ast.Tuple, ast.List)) and all(pure(x) for x in e.elts))
                            for e in st.iter.elts):
                    tg = st.target
                    names = [tg.id] if isinstance(tg, ast.Name) else \
                        ([e.id for e in tg.elts] if isinstance(tg, (ast.Tuple, ast.List)) and
                         all(isinstance(e, ast.Name) for e in tg.elts) else None)
                    stored_in_body = {x.id for b in st.body for x in ast.walk(b)
                                      if isinstance(x, ast.Name) and isinstance(x.ctx, ast.Store)}
                    ok = names is not None and not (set(names) & stored_in_body)
                    if ok and isinstance(tg, (ast.Tuple, ast.List)):
                        ok = all(isinstance(e, (ast.Tuple, ast.List)) and len(e.elts) == len(names) for e in st.iter.elts)
                    if ok:
                        for e in st.iter.elts:
                            m = {names[0]: e} if isinstance(tg, ast.Name) else dict(zip(names, e.elts))
                            for b in st.body:
                                out.append(Subst(m).visit(copy.deepcopy(b)))
                        me.log.append(('unrolled-loop', unit.loc(st), unit.qual))
                        continue
                out.append(st)
            return out
        fn.body = do_list(fn.body)

    # ---------------------------------------------------------------- equivalent idioms
    def idioms(self, unit, fn):
        """`next(iter(x))` -> `list(x)[0]`; `itemgetter(k)` -> `lambda x: x[k]`; `attrgetter('a')` -> `lambda x: x.a`;
        `dict.fromkeys(xs, c)` -> `{x: c for x in xs}` (c a constant); `chain.from_iterable(xs)` -> `sum(xs, [])`,
        `chain(a, *xs)` -> `a + sum(xs, [])` (the same elements in the same order, for the single iteration made of them)."""
        me = self

        class T(ast.NodeTransformer):
            def visit_Call(self, n):
                self.generic_visit(n)
                f = n.func
                nm = f.id if isinstance(f, ast.Name) else (f.attr if isinstance(f, ast.Attribute) else None)
                if nm == 'next' and isinstance(f, ast.Name) and len(n.args) == 1 and isinstance(n.args[0], ast.Call) and \
                        isinstance(n.args[0].func, ast.Name) and n.args[0].func.id == 'iter' and len(n.args[0].args) == 1:
                    new = ast.Subscript(value=ast.Call(func=ast.Name(id='list', ctx=ast.Load()),
                                                       args=[n.args[0].args[0]], keywords=[]),
                                        slice=ast.Constant(value=0), ctx=ast.Load())
                    me.log.append(('idiom', unit.loc(n), '%s: next(iter(..))' % unit.qual))
                    return ast.fix_missing_locations(ast.copy_location(new, n))
                if nm == 'itemgetter' and len(n.args) >= 2 and not n.keywords and \
                        all(isinstance(a, ast.Constant) for a in n.args):
                    body = ast.Tuple(elts=[ast.Subscript(value=ast.Name(id='x', ctx=ast.Load()), slice=a, ctx=ast.Load())
                                           for a in n.args], ctx=ast.Load())
                    new = ast.Lambda(args=ast.arguments(posonlyargs=[], args=[ast.arg(arg='x')], kwonlyargs=[],
                                                        kw_defaults=[], defaults=[]), body=body)
                    me.log.append(('idiom', unit.loc(n), '%s: itemgetter' % unit.qual))
                    return ast.fix_missing_locations(ast.copy_location(new, n))
                if nm in ('itemgetter', 'attrgetter') and len(n.args) == 1 and not n.keywords and \
                        isinstance(n.args[0], ast.Constant):
                    k = n.args[0]
                    if nm == 'itemgetter':
                        body = ast.Subscript(value=ast.Name(id='x', ctx=ast.Load()), slice=k, ctx=ast.Load())
                    elif isinstance(k.value, str) and k.value.isidentifier():
                        body = ast.Attribute(value=ast.Name(id='x', ctx=ast.Load()), attr=k.value, ctx=ast.Load())
                    else:
                        return n
                    new = ast.Lambda(args=ast.arguments(posonlyargs=[], args=[ast.arg(arg='x')], kwonlyargs=[],
                                                        kw_defaults=[], defaults=[]), body=body)
                    me.log.append(('idiom', unit.loc(n), '%s: %s' % (unit.qual, nm)))
                    return ast.fix_missing_locations(ast.copy_location(new, n))
                if nm in ('any', 'all') and isinstance(f, ast.Name) and len(n.args) == 1 and not n.keywords and \
                        isinstance(n.args[0], (ast.Tuple, ast.List)) and len(n.args[0].elts) >= 2 and \
                        all(pure(e) for e in n.args[0].elts):
                    new = ast.BoolOp(op=ast.Or() if nm == 'any' else ast.And(), values=list(n.args[0].elts))
                    me.log.append(('idiom', unit.loc(n), '%s: %s over a literal' % (unit.qual, nm)))
                    return ast.fix_missing_locations(ast.copy_location(new, n))
                ft = ast.unparse(f)
                if ft in ('chain.from_iterable', 'itertools.chain.from_iterable') and len(n.args) == 1 and not n.keywords:
                    new = ast.Call(func=ast.Name(id='sum', ctx=ast.Load()), args=[n.args[0], ast.List(elts=[], ctx=ast.Load())],
                                   keywords=[])
                    me.log.append(('idiom', unit.loc(n), '%s: chain.from_iterable' % unit.qual))
                    return ast.fix_missing_locations(ast.copy_location(new, n))
                if ft in ('chain', 'itertools.chain') and n.args and not n.keywords:
                    terms = []
                    for a in n.args:
                        if isinstance(a, ast.Starred):
                            terms.append(ast.Call(func=ast.Name(id='sum', ctx=ast.Load()),
                                                  args=[a.value, ast.List(elts=[], ctx=ast.Load())], keywords=[]))
                        else:
                            terms.append(a)
                    new = terms[0]
                    for t_ in terms[1:]:
                        new = ast.BinOp(left=new, op=ast.Add(), right=t_)
                    me.log.append(('idiom', unit.loc(n), '%s: chain' % unit.qual))
                    return ast.fix_missing_locations(ast.copy_location(new, n))
                if nm == 'fromkeys' and isinstance(f, ast.Attribute) and isinstance(f.value, ast.Name) and \
                        f.value.id == 'dict' and len(n.args) == 2 and isinstance(n.args[1], ast.Constant) and pure(n.args[0]):
                    new = ast.DictComp(key=ast.Name(id='k', ctx=ast.Load()), value=n.args[1],
                                       generators=[ast.comprehension(target=ast.Name(id='k', ctx=ast.Store()),
                                                                     iter=n.args[0], ifs=[], is_async=0)])
                    me.log.append(('idiom', unit.loc(n), '%s: dict.fromkeys' % unit.qual))
                    return ast.fix_missing_locations(ast.copy_location(new, n))
                return n
        T().visit(fn)

    # ---------------------------------------------------------------- local closures
    def closures_inline(self, unit, fn):
        """a function defined inside the method and only ever called there (a local helper for a repeated expression or
        statement) is folded back at its calls (statement level, or expression level for a single `return <expr>`)."""
        from .model import Unit
        for _ in range(3):
            defs = [n for n in own_nodes(fn) if isinstance(n, ast.FunctionDef) and not n.decorator_list]
            done = False
            for g in defs:
                refs = [x for x in ast.walk(fn) if isinstance(x, ast.Name) and x.id == g.name]
                calls = [c for c in ast.walk(fn) if isinstance(c, ast.Call) and isinstance(c.func, ast.Name)
                         and c.func.id == g.name]
                inner = [x for x in ast.walk(g) if isinstance(x, ast.Name) and x.id == g.name]
                if not calls or len(refs) != len(calls) or inner or g.args.vararg or g.args.kwarg or \
                        any(isinstance(x, (ast.Yield, ast.YieldFrom, ast.Nonlocal, ast.Global)) for x in ast.walk(g)):
                    continue
                helper = Unit(unit.mod, None, g, 'closure', parent=unit) if hasattr(unit, 'mod') else None
                if helper is None:
                    continue
                body = strip_doc(g.body)
                single = len(body) == 1 and isinstance(body[0], ast.Return) and body[0].value is not None
                me = self
                folded = [0]

                def do_list(stmts):
                    out = []
                    for st in stmts:
                        if st is g:
                            out.append(st)
                            continue
                        if not isinstance(st, (ast.FunctionDef, ast.AsyncFunctionDef, ast.ClassDef)):
                            for owner, f in block_lists(st):
                                setattr(owner, f, do_list(getattr(owner, f)))
                        mode = target = call = None
                        if isinstance(st, ast.Expr) and isinstance(st.value, ast.Call):
                            mode, call = 'expr', st.value
                        elif isinstance(st, ast.Assign) and len(st.targets) == 1 and isinstance(st.targets[0], ast.Name) \
                                and isinstance(st.value, ast.Call):
                            mode, call, target = 'assign', st.value, st.targets[0]
                        elif isinstance(st, ast.Return) and isinstance(st.value, ast.Call):
                            mode, call = 'return', st.value
                        if call is not None and isinstance(call.func, ast.Name) and call.func.id == g.name and not single:
                            new = me.expand(helper, call, None, mode, target, fn)
                            if new is not None:
                                out.extend(new)
                                folded[0] += 1
                                continue
                        out.append(st)
                    return out
                fn.body = do_list(fn.body)
                if single:
                    class T(ast.NodeTransformer):
                        def visit_Call(self, n):
                            self.generic_visit(n)
                            if isinstance(n.func, ast.Name) and n.func.id == g.name:
                                b = me.bind(helper, n, None, fn, expr_level=True)
                                if b is not None and not b[1]:
                                    new = Subst(b[0], {}).visit(copy.deepcopy(body[0].value))
                                    for x in ast.walk(new):
                                        ast.copy_location(x, n)
                                    folded[0] += 1
                                    return new
                            return n

                        def visit_FunctionDef(self, n):
                            return n if n is g else self.generic_visit(n)
                    T().visit(fn)
                left = [x for x in ast.walk(fn) if isinstance(x, ast.Name) and x.id == g.name]
                if folded[0] and not left:
                    def drop(stmts):
                        out = []
                        for st in stmts:
                            if st is g:
                                continue
                            if not isinstance(st, (ast.FunctionDef, ast.AsyncFunctionDef, ast.ClassDef)):
                                for owner, f in block_lists(st):
                                    setattr(owner, f, drop(getattr(owner, f)) or [ast.copy_location(ast.Pass(), st)])
                            out.append(st)
                        return out
                    fn.body = drop(fn.body) or [ast.copy_location(ast.Pass(), fn)]
                    self.log.append(('folded-closure', unit.loc(g), '%s: %s' % (unit.qual, g.name)))
                    done = True
            if not done:
                break

    # ---------------------------------------------------------------- statement hoisted out of an if/elif/else
    def sink_into_branches(self, unit, fn):
        """`if a: v = A elif b: v = B else: v = C` followed by the only statement that reads v -> that statement
        inside each branch, with the value in place of v (a repeated statement hoisted out of a chain is put back)."""
        me = self
        loads = {}
        for n in ast.walk(fn):
            if isinstance(n, ast.Name) and isinstance(n.ctx, ast.Load):
                loads[n.id] = loads.get(n.id, 0) + 1

        def fold_constant_test(node):
            """`if True: A else: B` -> A (a flag specialised by its constant value: jump threading)."""
            if isinstance(node, ast.If):
                t, neg = node.test, False
                while isinstance(t, ast.UnaryOp) and isinstance(t.op, ast.Not):
                    t, neg = t.operand, not neg
                if isinstance(t, ast.Constant) and isinstance(t.value, bool):
                    taken = node.body if (t.value != neg) else node.orelse
                    return list(taken) or [ast.copy_location(ast.Pass(), node)]
            return [node]

        def leaves(node):
            """the statement lists that end each branch of an if/elif/else chain (None when a branch is missing)."""
            out = [node.body]
            if not node.orelse:
                return None
            if len(node.orelse) == 1 and isinstance(node.orelse[0], ast.If):
                sub = leaves(node.orelse[0])
                if sub is None:
                    return None
                return out + sub
            return out + [node.orelse]

        def do_list(stmts):
            for st in stmts:
                if not isinstance(st, (ast.FunctionDef, ast.AsyncFunctionDef, ast.ClassDef)):
                    for owner, f in block_lists(st):
                        setattr(owner, f, do_list(getattr(owner, f)))
            out = []
            i = 0
            while i < len(stmts):
                st = stmts[i]
                nxt = stmts[i + 1] if i + 1 < len(stmts) else None
                done = False
                # default + overrides: `v = A` ; `if c: v = B [elif ..]` (no final else) ; the only reader of v
                prev = out[-1] if out else None
                if isinstance(st, ast.If) and nxt is not None and isinstance(nxt, (ast.Assign, ast.Expr, ast.Return)) and \
                        isinstance(prev, ast.Assign) and len(prev.targets) == 1 and isinstance(prev.targets[0], ast.Name) \
                        and pure(prev.value) and leaves(st) is None:
                    v = prev.targets[0].id
                    chain, cur = [], st
                    while True:
                        chain.append(cur)
                        if len(cur.orelse) == 1 and isinstance(cur.orelse[0], ast.If):
                            cur = cur.orelse[0]
                        else:
                            break
                    last = chain[-1]
                    bodies = [c.body for c in chain] + ([last.orelse] if last.orelse else [])
                    n_in = sum(1 for x in ast.walk(nxt) if isinstance(x, ast.Name) and x.id == v and isinstance(x.ctx, ast.Load))
                    stores_v = sum(1 for x in ast.walk(fn) if isinstance(x, ast.Name) and x.id == v
                                   and isinstance(x.ctx, ast.Store))
                    assigning = [b for b in bodies if b and isinstance(b[-1], ast.Assign) and len(b[-1].targets) == 1 and
                                 isinstance(b[-1].targets[0], ast.Name) and b[-1].targets[0].id == v]
                    inner_stores = sum(1 for b in bodies for s_ in b for x in ast.walk(s_)
                                       if isinstance(x, ast.Name) and x.id == v and isinstance(x.ctx, ast.Store))
                    if n_in >= 1 and loads.get(v) == n_in and assigning and inner_stores == len(assigning) and \
                            stores_v == 1 + len(assigning) and all(pure(b[-1].value) or n_in == 1 for b in assigning) \
                            and not any(isinstance(x, ast.Name) and x.id == v for c in chain for x in ast.walk(c.test)):
                        for b in bodies:
                            if b in assigning:
                                new = Subst({v: b[-1].value}).visit(copy.deepcopy(nxt))
                                ast.copy_location(new, b[-1])
                                b[-1] = new
                            else:
                                b.append(Subst({v: prev.value}).visit(copy.deepcopy(nxt)))
                        if not last.orelse:
                            last.orelse = [Subst({v: prev.value}).visit(copy.deepcopy(nxt))]
                        out.pop()           # the default assignment
                        out.append(st)
                        me.log.append(('sunk-statement', unit.loc(nxt), '%s: %s (default + overrides)' % (unit.qual, v)))
                        i += 2
                        continue
                # a tail shared by all the branches of a complete chain: every leaf ends by binding the same locals
                # (pure values), which only the statements that follow in the block read -> the tail goes back into
                # each branch with the values in place of the locals
                if isinstance(st, ast.If) and nxt is not None and not done:
                    lv = leaves(st)
                    rest = stmts[i + 1:]
                    if lv and 1 <= len(rest) <= 10:
                        def trailing(b):
                            m, k = {}, 0
                            for s_ in reversed(b):
                                if isinstance(s_, ast.Assign) and len(s_.targets) == 1:
                                    t, val = s_.targets[0], s_.value
                                    if isinstance(t, ast.Name) and pure(val):
                                        m.setdefault(t.id, val)
                                        k += 1
                                        continue
                                    if isinstance(t, ast.Tuple) and isinstance(val, ast.Tuple) and \
                                            len(t.elts) == len(val.elts) and \
                                            all(isinstance(e, ast.Name) for e in t.elts) and all(pure(e) for e in val.elts):
                                        for e, w in zip(t.elts, val.elts):
                                            m.setdefault(e.id, w)
                                        k += 1
                                        continue
                                break
                            return m, k
                        tr = [trailing(b) for b in lv]
                        names = set(tr[0][0]) if tr and tr[0][0] else set()
                        if names and len(names) >= 2 and all(set(m) == names and k >= 1 for m, k in tr):
                            in_rest = {v: sum(1 for r_ in rest for x in ast.walk(r_) if isinstance(x, ast.Name) and x.id == v
                                              and isinstance(x.ctx, ast.Load)) for v in names}
                            st_rest = any(isinstance(x, ast.Name) and x.id in names and isinstance(x.ctx, ast.Store)
                                          for r_ in rest for x in ast.walk(r_))
                            if all(in_rest[v] >= 1 and loads.get(v) == in_rest[v] for v in names) and not st_rest:
                                for b, (m, k) in zip(lv, tr):
                                    del b[len(b) - k:]
                                    for r_ in rest:
                                        b.append(Subst(m).visit(copy.deepcopy(r_)))
                                out.append(st)
                                me.log.append(('sunk-statement', unit.loc(nxt), '%s: shared tail (%s)' % (unit.qual, sorted(names))))
                                return out
                if isinstance(st, ast.If) and nxt is not None and isinstance(nxt, (ast.Assign, ast.Expr, ast.Return, ast.If)):
                    lv = leaves(st)
                    if lv and all(b and isinstance(b[-1], ast.Assign) and len(b[-1].targets) == 1 and
                                  isinstance(b[-1].targets[0], ast.Name) for b in lv):
                        names = {b[-1].targets[0].id for b in lv}
                        if len(names) == 1:
                            v = next(iter(names))
                            n_in = sum(1 for x in ast.walk(nxt) if isinstance(x, ast.Name) and x.id == v
                                       and isinstance(x.ctx, ast.Load))
                            if n_in >= 1 and loads.get(v) == n_in and \
                                    all(pure(b[-1].value) or n_in == 1 for b in lv):
                                for b in lv:
                                    val = b[-1].value
                                    new = Subst({v: val}).visit(copy.deepcopy(nxt))
                                    ast.copy_location(new, b[-1])
                                    b[-1:] = fold_constant_test(new)
                                out.append(st)
                                me.log.append(('sunk-statement', unit.loc(nxt), '%s: %s' % (unit.qual, v)))
                                i += 2
                                done = True
                if not done:
                    out.append(st)
                    i += 1
            return out
        fn.body = do_list(fn.body)

    # ---------------------------------------------------------------- bulk removal
    def bulk_removals(self, unit, fn):
        """`s.difference_update({x for x in s if c})` (pure s) -> `for x in list(s): if c: s.remove(x)`;
        `s.difference_update(e for x in xs if c)` (another iterable) -> `for x in xs: if c: if e in s: s.remove(e)`."""
        me = self

        def do_list(stmts):
            out = []
            for st in stmts:
                if not isinstance(st, (ast.FunctionDef, ast.AsyncFunctionDef, ast.ClassDef)):
                    for owner, f in block_lists(st):
                        setattr(owner, f, do_list(getattr(owner, f)))
                c = st.value if isinstance(st, ast.Expr) else None
                if isinstance(c, ast.Call) and isinstance(c.func, ast.Attribute) and c.func.attr == 'difference_update' \
                        and len(c.args) == 1 and isinstance(c.args[0], (ast.SetComp, ast.ListComp, ast.GeneratorExp)) \
                        and pure(c.func.value) and len(c.args[0].generators) == 1:
                    comp = c.args[0]
                    g = comp.generators[0]
                    if ast.unparse(g.iter) == ast.unparse(c.func.value) and isinstance(g.target, ast.Name) and \
                            isinstance(comp.elt, ast.Name) and comp.elt.id == g.target.id:
                        rm = ast.Expr(value=ast.Call(func=ast.Attribute(value=copy.deepcopy(c.func.value), attr='remove',
                                                                        ctx=ast.Load()),
                                                     args=[ast.Name(id=g.target.id, ctx=ast.Load())], keywords=[]))
                        body = [rm]
                        if g.ifs:
                            test = g.ifs[0] if len(g.ifs) == 1 else ast.BoolOp(op=ast.And(), values=list(g.ifs))
                            body = [ast.If(test=test, body=body, orelse=[])]
                        loop = ast.For(target=ast.Name(id=g.target.id, ctx=ast.Store()),
                                       iter=ast.Call(func=ast.Name(id='list', ctx=ast.Load()),
                                                     args=[copy.deepcopy(c.func.value)], keywords=[]),
                                       body=body, orelse=[])
                        out.append(ast.fix_missing_locations(ast.copy_location(loop, st)))
                        for x in ast.walk(loop):
                            if hasattr(x, 'lineno'):
                                ast.copy_location(x, st)
                        me.log.append(('bulk-removal', unit.loc(st), unit.qual))
                        continue
                    if ast.unparse(g.iter) != ast.unparse(c.func.value) and pure(comp.elt) and \
                            ast.unparse(c.func.value) not in ast.unparse(g.iter):
                        # elements computed from another iterable: each one is discarded
                        s_ = c.func.value
                        rm = ast.Expr(value=ast.Call(func=ast.Attribute(value=copy.deepcopy(s_), attr='remove', ctx=ast.Load()),
                                                     args=[copy.deepcopy(comp.elt)], keywords=[]))
                        body = [ast.If(test=ast.Compare(left=copy.deepcopy(comp.elt), ops=[ast.In()],
                                                        comparators=[copy.deepcopy(s_)]), body=[rm], orelse=[])]
                        if g.ifs:
                            test = g.ifs[0] if len(g.ifs) == 1 else ast.BoolOp(op=ast.And(), values=list(g.ifs))
                            body = [ast.If(test=test, body=body, orelse=[])]
                        loop = ast.For(target=g.target, iter=g.iter, body=body, orelse=[])
                        ast.copy_location(loop, st)
                        for x in ast.walk(loop):
                            if not hasattr(x, 'lineno') or True:
                                ast.copy_location(x, st) if hasattr(x, '_attributes') and 'lineno' in x._attributes else None
                        out.append(ast.fix_missing_locations(loop))
                        me.log.append(('bulk-removal', unit.loc(st), unit.qual))
                        continue
                out.append(st)
            return out
        fn.body = do_list(fn.body)

    # ---------------------------------------------------------------- x = a or b
    def or_defaults(self, unit, fn):
        """`if a: x = a else: x = b` / `x = a if a else b` (a pure) -> `x = a or b`."""
        me = self

        def as_or(t, v1, v2):
            if pure(t) and ast.unparse(t) == ast.unparse(v1):
                return ast.BoolOp(op=ast.Or(), values=[v1, v2])
            return None

        def do_list(stmts):
            out = []
            for st in stmts:
                if not isinstance(st, (ast.FunctionDef, ast.AsyncFunctionDef, ast.ClassDef)):
                    for owner, f in block_lists(st):
                        setattr(owner, f, do_list(getattr(owner, f)))
                new = None
                if isinstance(st, ast.If) and len(st.body) == 1 and len(st.orelse) == 1 and \
                        all(isinstance(x, ast.Assign) and len(x.targets) == 1 for x in (st.body[0], st.orelse[0])) and \
                        ast.unparse(st.body[0].targets[0]) == ast.unparse(st.orelse[0].targets[0]):
                    e = as_or(st.test, st.body[0].value, st.orelse[0].value)
                    if e is not None:
                        new = ast.Assign(targets=st.body[0].targets, value=e)
                elif isinstance(st, ast.Assign) and isinstance(st.value, ast.IfExp):
                    e = as_or(st.value.test, st.value.body, st.value.orelse)
                    if e is not None:
                        new = ast.Assign(targets=st.targets, value=e)
                if new is not None:
                    out.append(ast.fix_missing_locations(ast.copy_location(new, st)))
                    me.log.append(('or-default', unit.loc(st), unit.qual))
                    continue
                out.append(st)
            return out
        fn.body = do_list(fn.body)

    # ---------------------------------------------------------------- no else after an exit
    def unnest_else(self, unit, fn):
        """`if a: EXIT else: REST` -> `if a: EXIT` + REST (and the mirrored form with the test negated): an if/elif
        chain whose branches all leave is the same sequence of independent tests."""
        me = self

        def do_list(stmts):
            out = []
            for st in stmts:
                if not isinstance(st, (ast.FunctionDef, ast.AsyncFunctionDef, ast.ClassDef)):
                    for owner, f in block_lists(st):
                        setattr(owner, f, do_list(getattr(owner, f)))
                if isinstance(st, ast.If) and st.orelse:
                    if always_exits(st.body):
                        rest, st.orelse = st.orelse, []
                        out.append(st)
                        out.extend(rest)
                        me.log.append(('unnested-else', unit.loc(st), unit.qual))
                        continue
                    if always_exits(st.orelse):
                        t = st.test
                        st.test = t.operand if isinstance(t, ast.UnaryOp) and isinstance(t.op, ast.Not) else \
                            ast.copy_location(ast.UnaryOp(op=ast.Not(), operand=t), t)
                        rest, st.body, st.orelse = st.body, st.orelse, []
                        out.append(st)
                        out.extend(rest)
                        me.log.append(('unnested-else', unit.loc(st), unit.qual))
                        continue
                out.append(st)
            return out
        fn.body = do_list(fn.body)

    # ---------------------------------------------------------------- conditional expressions / disjunctions that exit
    def split_exits(self, unit, fn):
        """`return A if c else B` -> `if c: return A` + `return B`;
        `if a or b: EXIT` (no else, a short body that always leaves) -> `if a: EXIT` + `if b: EXIT`:
        each way out of the function is then one return statement under conjunctive facts."""
        me = self

        def do_list(stmts):
            out = []
            for st in stmts:
                if not isinstance(st, (ast.FunctionDef, ast.AsyncFunctionDef, ast.ClassDef)):
                    for owner, f in block_lists(st):
                        setattr(owner, f, do_list(getattr(owner, f)))
                if isinstance(st, ast.Return) and isinstance(st.value, ast.IfExp):
                    e = st.value
                    r1 = ast.copy_location(ast.Return(value=e.body), st)
                    r2 = ast.copy_location(ast.Return(value=e.orelse), st)
                    i = ast.copy_location(ast.If(test=e.test, body=[r1], orelse=[]), st)
                    out.extend(do_list([i, r2]))
                    me.log.append(('split-exit', unit.loc(st), '%s: conditional expression returned' % unit.qual))
                    continue
                if isinstance(st, ast.If) and not st.orelse and isinstance(st.test, ast.BoolOp) and \
                        isinstance(st.test.op, ast.Or) and len(st.body) <= 3 and always_exits(st.body) and \
                        not any(isinstance(x, (ast.If, ast.For, ast.While, ast.Try, ast.With)) for x in st.body):
                    for k, v in enumerate(st.test.values):
                        body = st.body if k == 0 else copy.deepcopy(st.body)
                        out.append(ast.copy_location(ast.If(test=v, body=body, orelse=[]), st))
                    me.log.append(('split-exit', unit.loc(st), '%s: disjunction that exits' % unit.qual))
                    continue
                out.append(st)
            return out
        fn.body = do_list(fn.body)

    # ---------------------------------------------------------------- operand order of comparisons
    def order_compares(self, unit, fn):
        """`CONST == x` -> `x == CONST` (and mirrored <, <=, >, >=); symmetric operators get one operand order."""
        from .paths import _rank, _constant_like, _MIRROR
        for n in ast.walk(fn):
            if isinstance(n, ast.Compare) and len(n.ops) == 1:
                l, op, r = n.left, n.ops[0], n.comparators[0]
                if isinstance(op, (ast.Eq, ast.NotEq, ast.Is, ast.IsNot)):
                    if (_rank(l), ast.unparse(l)) > (_rank(r), ast.unparse(r)):
                        n.left, n.comparators[0] = r, l
                elif type(op) in _MIRROR and _constant_like(l) and not _constant_like(r):
                    n.left, n.comparators[0], n.ops[0] = r, l, _MIRROR[type(op)]()

    # ---------------------------------------------------------------- single-use condition locals
    def fold_conditions(self, unit, fn):
        """`x = E` immediately followed by `if x:` / `if not x:` / `if x and ..:` where this is the only read of x:
        `if E:` (E is evaluated at the same point, so this holds whatever E is)."""
        stores = stored_names(fn)
        loads = {}
        for n in ast.walk(fn):
            if isinstance(n, ast.Name) and isinstance(n.ctx, ast.Load):
                loads[n.id] = loads.get(n.id, 0) + 1
        me = self

        def leftmost(t):
            if isinstance(t, ast.UnaryOp) and isinstance(t.op, ast.Not):
                return leftmost(t.operand)
            if isinstance(t, ast.BoolOp):
                return leftmost(t.values[0])
            return t

        def do_list(stmts):
            out = []
            i = 0
            while i < len(stmts):
                st = stmts[i]
                if not isinstance(st, (ast.FunctionDef, ast.AsyncFunctionDef, ast.ClassDef)):
                    for owner, f in block_lists(st):
                        setattr(owner, f, do_list(getattr(owner, f)))
                nxt = stmts[i + 1] if i + 1 < len(stmts) else None
                if isinstance(st, ast.Assign) and len(st.targets) == 1 and isinstance(st.targets[0], ast.Name) and \
                        isinstance(nxt, ast.If):
                    x = st.targets[0].id
                    lm = leftmost(nxt.test)
                    in_test = [n for n in ast.walk(nxt.test) if isinstance(n, ast.Name) and n.id == x]
                    # elsewhere in the test: allowed when nothing else in the test has an effect or can fail
                    # (names, attributes, constants, comparisons and boolean operators only)
                    calm = all(isinstance(n, (ast.Name, ast.Attribute, ast.Constant, ast.Compare, ast.BoolOp, ast.UnaryOp,
                                              ast.expr_context, ast.cmpop, ast.boolop, ast.unaryop, ast.List, ast.Tuple))
                               for n in ast.walk(nxt.test))
                    if stores.get(x) == 1 and loads.get(x) == 1 and len(in_test) == 1 and \
                            (isinstance(lm, ast.Name) and lm.id == x or calm):
                        nxt.test = Subst({x: st.value}).visit(nxt.test)
                        me.log.append(('folded-condition', unit.loc(st), '%s: %s' % (unit.qual, x)))
                        i += 1
                        continue
                out.append(st)
                i += 1
            return out
        fn.body = do_list(fn.body)

    # ---------------------------------------------------------------- set.discard
    def discards(self, unit, fn):
        """`s.discard(e)` (pure s and e; discard exists on sets only) is `if e in s: s.remove(e)`."""
        me = self

        def do_list(stmts):
            out = []
            for st in stmts:
                if not isinstance(st, (ast.FunctionDef, ast.AsyncFunctionDef, ast.ClassDef)):
                    for owner, f in block_lists(st):
                        setattr(owner, f, do_list(getattr(owner, f)))
                c = st.value if isinstance(st, ast.Expr) else None
                if isinstance(c, ast.Call) and isinstance(c.func, ast.Attribute) and c.func.attr == 'discard' and \
                        len(c.args) == 1 and not c.keywords and pure(c.func.value) and pure(c.args[0]):
                    rm = copy.deepcopy(st)
                    rm.value.func.attr = 'remove'
                    test = ast.Compare(left=copy.deepcopy(c.args[0]), ops=[ast.In()], comparators=[copy.deepcopy(c.func.value)])
                    new = ast.If(test=test, body=[rm], orelse=[])
                    out.append(ast.fix_missing_locations(ast.copy_location(new, st)))
                    me.log.append(('discard-to-remove', unit.loc(st), unit.qual))
                    continue
                out.append(st)
            return out
        fn.body = do_list(fn.body)

    # ---------------------------------------------------------------- nested ifs
    def merge_ifs(self, unit, fn):
        """`if a:` whose whole body is `if b: BODY` (no else on either) is `if a and b: BODY`."""
        me = self

        def do_list(stmts):
            for st in stmts:
                if isinstance(st, (ast.FunctionDef, ast.AsyncFunctionDef, ast.ClassDef)):
                    continue
                for owner, f in block_lists(st):
                    setattr(owner, f, do_list(getattr(owner, f)))
                while isinstance(st, ast.If) and not st.orelse and len(st.body) == 1 and isinstance(st.body[0], ast.If) \
                        and not st.body[0].orelse:
                    inner = st.body[0]
                    vals = []
                    for t in (st.test, inner.test):
                        vals += t.values if isinstance(t, ast.BoolOp) and isinstance(t.op, ast.And) else [t]
                    st.test = ast.copy_location(ast.BoolOp(op=ast.And(), values=vals), st.test)
                    st.body = inner.body
                    me.log.append(('merged-if', unit.loc(st), unit.qual))
            return stmts
        do_list(fn.body)

    # ---------------------------------------------------------------- renamed methods, functions and parameters
    @staticmethod
    def renamed_symbols(P, pinned, pinned_bodies):
        """{new name: (owner class name or module short name, pinned name)} for the methods / module functions of the
        reference decomposition that are missing while a function unknown to it, in the same class / module, does
        exactly the same thing (body_hash): a rename. Computed on the raw tree; applied by renaming in the source."""
        cur = {}
        for m in P.mods.values():
            for c in m.classes.values():
                for table in (c.methods, c.props):
                    for k, u in table.items():
                        cur[c.name + '.' + k] = (u, c.name)
            for k, u in m.funcs.items():
                cur[m.short + ':' + k] = (u, m.short)
        import difflib
        out = {}
        groups = {}
        for q, (h, params) in pinned_bodies.items():
            if q in cur:
                continue
            owner = q.split(':')[0] if ':' in q else q.split('.')[0]
            groups.setdefault((owner, ':' if ':' in q else '.', h), []).append(q)
        hashes = {}
        for (owner, sep, h), missing in groups.items():
            cands = []
            for k, (u, o) in cur.items():
                if o == owner and sep in k and k not in pinned and k not in pinned_bodies:
                    if k not in hashes:
                        hashes[k] = body_hash(u.node)
                    if hashes[k] == h:
                        cands.append(k)
            if len(cands) != len(missing):
                continue
            # several methods of one class with the same body (e.g. empty hooks): paired by name resemblance
            pairs = sorted(((difflib.SequenceMatcher(None, c, m).ratio(), c, m) for c in cands for m in missing), reverse=True)
            used_c, used_m = set(), set()
            for r, c, m in pairs:
                if c not in used_c and m not in used_m:
                    out[c] = m
                    used_c.add(c)
                    used_m.add(m)
        return out

    def _calls_new(self, u):
        for n in own_nodes(u.node):
            if isinstance(n, ast.Attribute) and n.attr in self.new_callables and n.attr != u.node.name:
                return True
            if isinstance(n, ast.Name) and n.id in self.new_callables and n.id != u.node.name:
                return True
        return False

    def owners_with_missing_functions(self):
        """classes / modules where a method / function of the reference decomposition is absent: a function unknown to
        the reference found there may be that one under another name, so it is not folded as a new helper yet."""
        P = self.P
        cur = set()
        for m in P.mods.values():
            for c in m.classes.values():
                cur |= {c.name + '.' + k for k in list(c.methods) + list(c.props)}
            cur |= {m.short + ':' + k for k in m.funcs}
        return {q.split(':')[0] if ':' in q else q.split('.')[0] for q in self.pinned_bodies if q not in cur}

    def fold_new_helpers(self, skip_owners=()):
        self.skip_owners = set(skip_owners)
        ch = False
        for u in self.P.all_units(with_closures=False):
            ch |= self.inline_statements(u, u.node)
            ch |= self.inline_expressions(u, u.node)
        self.drop_absorbed()
        self.skip_owners = set()
        return ch

    def moved_constants(self):
        """a class constant of the reference that is now a module-level constant of the same name (anywhere in the
        package) is put back in its class; the methods of that class read it through the class again."""
        P = self.P
        changed = False
        for q in sorted(self.pinned):
            if '.' not in q or ':' in q:
                continue
            cname, name = q.split('.', 1)
            c = P.classes.get(cname)
            if c is None or not name.isupper() or P.member(c, name):
                continue
            found = [(m, m.aliases[name]) for m in P.mods.values() if name in m.aliases
                     and m.short + ':' + name not in self.pinned and constant_expr(m.aliases[name])]
            if len(found) != 1:
                continue
            m, val = found[0]
            r = P.lookup(c.mod, name)
            if not (r and r[0] == 'alias' and r[1] is m):
                continue
            asg = ast.Assign(targets=[ast.Name(id=name, ctx=ast.Store())], value=copy.deepcopy(val))
            ast.fix_missing_locations(ast.copy_location(asg, c.node))
            doc = 1 if c.node.body and isinstance(c.node.body[0], ast.Expr) and isinstance(c.node.body[0].value, ast.Constant) else 0
            c.node.body.insert(doc, asg)
            for b in c.node.body:
                if isinstance(b, (ast.FunctionDef, ast.AsyncFunctionDef)):
                    class T(ast.NodeTransformer):
                        def visit_Name(self, n):
                            if n.id == name and isinstance(n.ctx, ast.Load):
                                return ast.copy_location(ast.Attribute(value=ast.Name(id=cname, ctx=ast.Load()), attr=name,
                                                                       ctx=ast.Load()), n)
                            return n
                    T().visit(b)
                    ast.fix_missing_locations(b)
            self.log.append(('moved-constant', '%s:%d' % (m.relpath, 1), '%s:%s -> %s' % (m.short, name, q)))
            changed = True
        return changed

    def rename_back_symbols(self):
        P = self.P
        ren = self.renamed_symbols(P, self.pinned, self.pinned_bodies)
        if ren:
            pinned_names = {q.replace(':', '.').split('.')[-1] for q in self.pinned}
            in_use = set()
            for m in P.mods.values():
                for n in ast.walk(m.tree):
                    if isinstance(n, ast.Attribute):
                        in_use.add(n.attr)
                    elif isinstance(n, ast.Name):
                        in_use.add(n.id)
                    elif isinstance(n, (ast.FunctionDef, ast.AsyncFunctionDef)):
                        in_use.add(n.name)
            for new_q, old_q in ren.items():
                new = new_q.replace(':', '.').split('.')[-1]
                old = old_q.replace(':', '.').split('.')[-1]
                if new in pinned_names:
                    continue            # the new name also designates something of the reference tree: not touched
                # a rename changes every reference: if the old name is still used somewhere (an inherited method of
                # that name, a caller left behind), the edit is not a rename but a change of what gets called
                still = old in in_use
                if still:
                    self.log.append(('not-a-rename', new_q, '%s looks like %s but `%s` is still in use' % (new_q, old_q, old)))
                    continue
                for m in P.mods.values():
                    for n in ast.walk(m.tree):
                        if isinstance(n, ast.Attribute) and n.attr == new:
                            n.attr = old
                        elif isinstance(n, ast.Name) and n.id == new:
                            n.id = old
                        elif isinstance(n, (ast.FunctionDef, ast.AsyncFunctionDef)) and n.name == new:
                            n.name = old
                        elif isinstance(n, ast.alias) and n.name == new:
                            n.name = old
                self.log.append(('renamed-symbol', new_q, '%s -> %s' % (new_q, old_q)))
        # renamed positional parameters (same digest, other names)
        for u in P.all_units(with_closures=False):
            pb = self.pinned_bodies.get(u.qual)
            if not pb or u.kind == 'setter':
                continue
            h, params = pb
            fn = u.node
            cur = [a.arg for a in fn.args.posonlyargs + fn.args.args]
            if cur != params and len(cur) == len(params) and body_hash(fn) == h and \
                    not (set(params) - set(cur)) & {n.id for n in ast.walk(fn) if isinstance(n, ast.Name)}:
                rename = {c: p_ for c, p_ in zip(cur, params) if c != p_}
                Subst({}, rename).visit(fn)
                for a in fn.args.posonlyargs + fn.args.args:
                    a.arg = rename.get(a.arg, a.arg)
                self.log.append(('renamed-parameter', u.loc(), '%s: %s' % (u.qual, rename)))
        return bool(ren)

    # ---------------------------------------------------------------- renamed locals
    def rename_back(self, unit, fn):
        """a local that the pinned tree does not know, defined exactly like a local of the pinned tree that is now
        missing, gets the pinned name back (the rules name the intermediate values as the pinned tree does)."""
        pin = self.pinned_locals.get(unit.qual)
        if not pin:
            return
        for _ in range(10):
            cur = signatures(fn)
            missing = {p: sg for p, sg in pin.items() if p not in cur}
            if not missing:
                return
            rename = {}
            for k, sg in cur.items():
                if k in pin:
                    continue
                cands = [p for p, s in missing.items() if s == sg and p not in rename.values()]
                if len(cands) == 1 and sum(1 for k2, s2 in cur.items() if k2 not in pin and s2 == sg) == 1:
                    rename[k] = cands[0]
            if not rename:
                return
            Subst({}, rename).visit(fn)
            for k, v in rename.items():
                self.log.append(('renamed-local', unit.loc(), '%s: %s -> %s' % (unit.qual, k, v)))

    def drop_absorbed(self):
        P = self.P
        if not self.new_callables:
            return
        refs = {}
        for m in P.mods.values():
            for n in ast.walk(m.tree):
                if isinstance(n, ast.Attribute):
                    refs[n.attr] = refs.get(n.attr, 0) + 1
                elif isinstance(n, ast.Name) and isinstance(n.ctx, ast.Load):
                    refs[n.id] = refs.get(n.id, 0) + 1
                elif isinstance(n, ast.Constant) and isinstance(n.value, str) and n.value in self.new_callables:
                    refs[n.value] = refs.get(n.value, 0) + 1
        for name, impls in self.new_callables.items():
            for owner, m, u in impls:
                inner = sum(1 for n in ast.walk(u.node) if (isinstance(n, ast.Attribute) and n.attr == name) or
                            (isinstance(n, ast.Name) and n.id == name))
                if refs.get(name, 0) - inner > 0 or u not in self.inlined:
                    continue
                container = owner.node.body if owner is not None else m.tree.body
                if u.node in container:
                    container.remove(u.node)
                    if not container:
                        container.append(ast.Pass(lineno=1, col_offset=0))
                    self.log.append(('absorbed-helper', u.loc(), u.qual))


def _cache_file(root):
    """a scratch file (system temporary directory) keyed by the content of the analysed sources and of the analyser:
    the 20 checks of one tree share one canonicalisation. Purely an accelerator: absent or unreadable, it is rebuilt."""
    import hashlib, tempfile
    h = hashlib.sha1()
    here = pathlib.Path(__file__).parent
    for f in sorted(here.glob('*.py')) + [PINNED_FILE]:
        h.update(f.read_bytes())
    pkg = pathlib.Path(root) / 'supvisors'
    for f in sorted(pkg.rglob('*.py')):
        rel = f.relative_to(pkg)
        if any(part in ('tests', 'test') for part in rel.parts):
            continue
        h.update(str(rel).encode())
        h.update(f.read_bytes())
    return pathlib.Path(tempfile.gettempdir()) / ('verif-canonical-%s.pkl' % h.hexdigest()[:24])


def canonical_program(root):
    """Program of the tree under root, in canonical form; also returns the log of the rewritings applied."""
    import os
    import pickle
    from .model import Program
    cache = None
    if not os.environ.get('VERIF_NO_CACHE'):
        try:
            cache = _cache_file(root)
            if cache.exists():
                trees, log, new_syms, missing = pickle.loads(cache.read_bytes())
                P = Program(root, trees=trees)
                P.normalisation_log, P.new_symbols, P.missing_symbols = log, new_syms, missing
                return P
        except Exception:
            cache = cache if cache is not None else None
    P = _canonical_program(root)
    if cache is not None:
        try:
            import sys
            sys.setrecursionlimit(max(sys.getrecursionlimit(), 20000))
            tmp = cache.with_suffix('.%d.tmp' % os.getpid())
            tmp.write_bytes(pickle.dumps(({n: m.tree for n, m in P.mods.items()}, P.normalisation_log, P.new_symbols,
                                          P.missing_symbols)))
            os.replace(tmp, cache)
            # keep the scratch directory small
            old = sorted(cache.parent.glob('verif-canonical-*.pkl'), key=lambda f: f.stat().st_mtime)
            for f in old[:-40]:
                f.unlink(missing_ok=True)
        except Exception:
            pass
    return P


def _canonical_program(root):
    from .model import Program
    P0 = Program(root)
    C = Canonicaliser(P0)
    for _ in range(10):
        # (a renamed method that calls another renamed method only matches once the latter has its name back; one
        # that calls a helper extracted from it only matches once that helper is folded back)
        changed = C.rename_back_symbols() | C.moved_constants() | C.renamed_attributes()
        if not changed:
            owners = C.owners_with_missing_functions()
            if not owners:
                break
            changed = C.fold_new_helpers(skip_owners=owners)
            if not changed:
                break
        # the model is rebuilt on the rewritten trees before going on (names are resolved through it)
        log = C.log
        P0 = Program(root, trees={name: m.tree for name, m in P0.mods.items()})
        C = Canonicaliser(P0)
        C.log = log
    trees = C.run()
    P = Program(root, trees=trees)
    P.normalisation_log = C.log
    P.new_symbols = sorted(symbols_of(P0) - C.pinned)
    P.missing_symbols = sorted(C.pinned - symbols_of(P0))
    return P
