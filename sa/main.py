"""Driver: python -m sa.main <ID> [--tier quick|thorough] [--root DIR] [--replay FILE]"""
import argparse
import importlib
import json
import os
import sys
import time
import traceback

from .model import Program, AnalysisError
from .report import Reporter


def analyse(prop, root='/repo', tier='quick', seed=0, program=None):
    """run the rules of one property on the tree under root; returns the Reporter (no output, no files)."""
    if program is None:
        from .normalise import canonical_program
        program = canonical_program(root)
    P = program
    from . import paths
    paths.PROGRAM = P
    paths._FM.clear()
    R = Reporter(prop, tier, seed, root)
    mod = importlib.import_module('sa.props.' + prop.lower())
    R.stats['modules'] = len(P.mods)
    R.stats['classes'] = len(P.classes)
    R.stats['functions'] = sum(1 for _ in P.all_units())
    log = getattr(P, 'normalisation_log', None)
    if log is not None:
        # what sa.normalise folded before the rules ran (behaviour-preserving rewritings; see its docstring)
        kinds = {}
        for k, where, what in log:
            kinds[k] = kinds.get(k, 0) + 1
        R.extra['canonical_form'] = {
            'rewritings': kinds,
            'symbols_not_in_the_reference_decomposition': P.new_symbols[:40],
            'reference_symbols_absent': P.missing_symbols[:40],
            'folded_helpers': sorted({what for k, where, what in log if k in ('inline-helper', 'absorbed-helper')})[:40]}
    mod.run(P, R)
    return R


def main(argv=None):
    ap = argparse.ArgumentParser()
    ap.add_argument('prop')
    ap.add_argument('--tier', default=os.environ.get('VERIF_TIER', 'quick'))
    ap.add_argument('--root', default='/repo')
    ap.add_argument('--replay')
    a = ap.parse_args(argv)
    try:
        seed = int(os.environ.get('VERIF_SEED', '0') or 0)
    except ValueError:
        seed = 0
    tier = a.tier if a.tier in ('quick', 'thorough') else 'quick'
    try:
        R = analyse(a.prop, a.root, tier, seed)
        if tier == 'thorough':
            from . import selftest
            selftest.run(a.prop, R)
        keys = None
        if a.replay:
            keys = {v['key'] for v in json.load(open(a.replay))['violations']}
        return R.finish(keys)
    except AnalysisError as exc:
        print('ANALYSIS-ERROR property=%s %s' % (a.prop, exc))
        return 2
    except Exception:
        traceback.print_exc()
        print('ANALYSIS-ERROR property=%s internal error in the checker (traceback above)' % a.prop)
        return 2


if __name__ == '__main__':
    sys.exit(main())
