"""Syntax-directed path facts: dominating conditions, early-exit negations, must-call, return paths.

A *fact* is (text, polarity, node): the expression `text` (ast.unparse after alias normalisation) is known
to evaluate truthy (polarity True) or falsy (False) whenever control reaches the annotated node.
"""
import ast
from .model import own_nodes

NORETURN_ATTRS = ('_raise',)


class Fact(tuple):
    """(text, polarity) with the originating AST node attached (not part of equality)."""
    def __new__(cls, text, pol, node=None):
        f = tuple.__new__(cls, (text, pol))
        f.node = node
        return f

    @property
    def text(self):
        return self[0]

    @property
    def pol(self):
        return self[1]


def is_noreturn_call(st):
    if isinstance(st, ast.Expr) and isinstance(st.value, ast.Call):
        f = st.value.func
        if isinstance(f, ast.Attribute) and f.attr in NORETURN_ATTRS:
            return True
    return False


def always_exits(stmts):
    """True when no path falls through the end of the statement list."""
    for st in stmts:
        if isinstance(st, (ast.Return, ast.Raise, ast.Continue, ast.Break)):
            return True
        if is_noreturn_call(st):
            return True
        if isinstance(st, ast.If) and st.orelse and always_exits(st.body) and always_exits(st.orelse):
            return True
        if isinstance(st, ast.With) and always_exits(st.body):
            return True
        if isinstance(st, ast.Try):
            if st.finalbody and always_exits(st.finalbody):
                return True
            main = always_exits(st.body) or (st.orelse and always_exits(st.orelse))
            if main and all(always_exits(h.body) for h in st.handlers):
                return True
    return False


class Normaliser:
    """alpha-renaming of single-assignment alias locals: `sm = self.state_modes` -> facts talk about the target."""

    def __init__(self, fn_node):
        counts, vals = {}, {}
        for n in own_nodes(fn_node):
            tgts = []
            if isinstance(n, ast.Assign):
                tgts = n.targets
            elif isinstance(n, (ast.AnnAssign, ast.AugAssign)):
                tgts = [n.target]
            elif isinstance(n, (ast.For, ast.comprehension)):
                tgts = [n.target]
            elif isinstance(n, ast.NamedExpr):
                tgts = [n.target]
            elif isinstance(n, ast.withitem) and n.optional_vars is not None:
                tgts = [n.optional_vars]
            for t in tgts:
                for x in ast.walk(t):
                    if isinstance(x, ast.Name):
                        counts[x.id] = counts.get(x.id, 0) + 1
            if isinstance(n, (ast.Assign, ast.AnnAssign)) and getattr(n, 'value', None) is not None:
                t = n.targets[0] if isinstance(n, ast.Assign) else n.target
                if isinstance(t, ast.Name) and self._pure_chain(n.value):
                    vals[t.id] = n.value
        args = fn_node.args
        params = {a.arg for a in args.posonlyargs + args.args + args.kwonlyargs}
        self.alias = {k: v for k, v in vals.items() if counts.get(k) == 1 and k not in params}

    @staticmethod
    def _pure_chain(e):
        while isinstance(e, ast.Attribute):
            e = e.value
        return isinstance(e, ast.Name) and e.id == 'self'

    def text(self, e):
        if not self.alias:
            return ast.unparse(e)
        names = {x.id for x in ast.walk(e) if isinstance(x, ast.Name)}
        if not (names & set(self.alias)):
            return ast.unparse(e)
        import copy
        e2 = copy.deepcopy(e)
        alias = self.alias

        class T(ast.NodeTransformer):
            def visit_Name(self, n):
                if n.id in alias and isinstance(n.ctx, ast.Load):
                    return copy.deepcopy(alias[n.id])
                return n
        e2 = T().visit(ast.Expression(body=e2)).body
        return ast.unparse(e2)


def atoms(test, pol, norm=None):
    """atomic facts implied by `test` evaluating to `pol`."""
    if isinstance(test, ast.UnaryOp) and isinstance(test.op, ast.Not):
        return atoms(test.operand, not pol, norm)
    if isinstance(test, ast.BoolOp) and ((isinstance(test.op, ast.And) and pol) or
                                         (isinstance(test.op, ast.Or) and not pol)):
        return [a for v in test.values for a in atoms(v, pol, norm)]
    if isinstance(test, ast.NamedExpr):
        return atoms(test.value, pol, norm) + [Fact(test.target.id, pol, test.target)]
    txt = norm.text(test) if norm else ast.unparse(test)
    out = [Fact(txt, pol, test)]
    # canonical forms: `x is None` / `x is not None` / `x == K` / `x != K` / `a not in b`
    if isinstance(test, ast.Compare) and len(test.ops) == 1:
        op = test.ops[0]
        l = norm.text(test.left) if norm else ast.unparse(test.left)
        r = norm.text(test.comparators[0]) if norm else ast.unparse(test.comparators[0])
        inv = {ast.IsNot: 'is', ast.NotEq: '==', ast.NotIn: 'in'}
        for k, pos in inv.items():
            if isinstance(op, k):
                out.append(Fact('%s %s %s' % (l, pos, r), not pol, test))
    return out


class FactMap:
    """facts and enclosing exception handlers for every node of a function body."""

    def __init__(self, fn_node):
        self.fn = fn_node
        self.norm = Normaliser(fn_node)
        self.facts = {}
        self.handlers = {}      # id(node) -> tuple of tuples of caught exception names (innermost last)
        self.stmt_of = {}       # id(expr node) -> enclosing statement
        self._block(fn_node.body, [], ())

    def at(self, node):
        return self.facts.get(id(node), ())

    def has(self, node, text, pol=True):
        return any(f[0] == text and f[1] == pol for f in self.at(node))

    def _expr(self, e, facts, hs, st):
        if e is None:
            return
        if isinstance(e, ast.BoolOp):
            self.facts.setdefault(id(e), tuple(facts))
            self.handlers.setdefault(id(e), hs)
            self.stmt_of.setdefault(id(e), st)
            acc = list(facts)
            for v in e.values:
                self._expr(v, acc, hs, st)
                acc = acc + atoms(v, isinstance(e.op, ast.And), self.norm)
            return
        if isinstance(e, ast.IfExp):
            self.facts.setdefault(id(e), tuple(facts))
            self.handlers.setdefault(id(e), hs)
            self.stmt_of.setdefault(id(e), st)
            self._expr(e.test, facts, hs, st)
            self._expr(e.body, facts + atoms(e.test, True, self.norm), hs, st)
            self._expr(e.orelse, facts + atoms(e.test, False, self.norm), hs, st)
            return
        if isinstance(e, (ast.ListComp, ast.SetComp, ast.GeneratorExp, ast.DictComp)):
            self.facts.setdefault(id(e), tuple(facts))
            self.handlers.setdefault(id(e), hs)
            self.stmt_of.setdefault(id(e), st)
            acc = list(facts)
            for g in e.generators:
                self._expr(g.iter, acc, hs, st)
                self._expr(g.target, acc, hs, st)
                for c in g.ifs:
                    self._expr(c, acc, hs, st)
                    acc = acc + atoms(c, True, self.norm)
            for part in ([e.key, e.value] if isinstance(e, ast.DictComp) else [e.elt]):
                self._expr(part, acc, hs, st)
            return
        if isinstance(e, ast.Lambda):
            self.facts.setdefault(id(e), tuple(facts))
            self._expr(e.body, [], hs, st)
            return
        self.facts.setdefault(id(e), tuple(facts))
        self.handlers.setdefault(id(e), hs)
        self.stmt_of.setdefault(id(e), st)
        for ch in ast.iter_child_nodes(e):
            if isinstance(ch, ast.expr):
                self._expr(ch, facts, hs, st)
            elif isinstance(ch, ast.keyword):
                self._expr(ch.value, facts, hs, st)
            elif isinstance(ch, ast.comprehension):
                pass

    def _block(self, stmts, facts, hs):
        facts = list(facts)
        for st in stmts:
            self.facts[id(st)] = tuple(facts)
            self.handlers[id(st)] = hs
            if isinstance(st, ast.If):
                self._expr(st.test, facts, hs, st)
                self._block(st.body, facts + atoms(st.test, True, self.norm), hs)
                self._block(st.orelse, facts + atoms(st.test, False, self.norm), hs)
                if always_exits(st.body) and not (st.orelse and always_exits(st.orelse)):
                    facts += atoms(st.test, False, self.norm)
                elif st.orelse and always_exits(st.orelse) and not always_exits(st.body):
                    facts += atoms(st.test, True, self.norm)
            elif isinstance(st, (ast.For, ast.AsyncFor)):
                self._expr(st.iter, facts, hs, st)
                self._expr(st.target, facts, hs, st)
                self._block(st.body, facts, hs)
                self._block(st.orelse, facts, hs)
            elif isinstance(st, ast.While):
                self._expr(st.test, facts, hs, st)
                self._block(st.body, facts + atoms(st.test, True, self.norm), hs)
                self._block(st.orelse, facts, hs)
            elif isinstance(st, (ast.With, ast.AsyncWith)):
                for it in st.items:
                    self._expr(it.context_expr, facts, hs, st)
                    self._expr(it.optional_vars, facts, hs, st)
                self._block(st.body, facts, hs)
            elif isinstance(st, ast.Try):
                caught = tuple(handler_names(h) for h in st.handlers)
                self._block(st.body, facts, hs + (caught,))
                for h in st.handlers:
                    self.facts[id(h)] = tuple(facts)
                    self._block(h.body, facts, hs)
                self._block(st.orelse, facts, hs)
                self._block(st.finalbody, facts, hs)
            elif isinstance(st, (ast.FunctionDef, ast.AsyncFunctionDef, ast.ClassDef)):
                pass
            elif isinstance(st, ast.Assert):
                self._expr(st.test, facts, hs, st)
                facts += atoms(st.test, True, self.norm)
            else:
                for ch in ast.iter_child_nodes(st):
                    if isinstance(ch, ast.expr):
                        self._expr(ch, facts, hs, st)


def handler_names(h):
    if h.type is None:
        return ('BaseException',)
    ts = h.type.elts if isinstance(h.type, ast.Tuple) else [h.type]
    return tuple(t.id if isinstance(t, ast.Name) else (t.attr if isinstance(t, ast.Attribute) else '?') for t in ts)


_FM = {}


def factmap(unit):
    fm = _FM.get(id(unit.node))
    if fm is None:
        fm = FactMap(unit.node)
        _FM[id(unit.node)] = fm
    return fm


def calls_in(node, conditional=True):
    """Call nodes evaluated when `node` (an expression or simple statement) is evaluated. With conditional=False
    only the calls evaluated unconditionally (not in IfExp arms, BoolOp tails, comprehension bodies, lambdas)."""
    out = []

    def walk(n, cond):
        if isinstance(n, ast.Call) and (conditional or not cond):
            out.append(n)
        if isinstance(n, ast.Lambda):
            return
        if isinstance(n, (ast.FunctionDef, ast.AsyncFunctionDef, ast.ClassDef)):
            return
        if isinstance(n, ast.IfExp):
            walk(n.test, cond)
            walk(n.body, True)
            walk(n.orelse, True)
            return
        if isinstance(n, ast.BoolOp):
            walk(n.values[0], cond)
            for v in n.values[1:]:
                walk(v, True)
            return
        if isinstance(n, (ast.ListComp, ast.SetComp, ast.GeneratorExp, ast.DictComp)):
            walk(n.generators[0].iter, cond)
            for g in n.generators:
                if g is not n.generators[0]:
                    walk(g.iter, True)
                for c in g.ifs:
                    walk(c, True)
            for part in ([n.key, n.value] if isinstance(n, ast.DictComp) else [n.elt]):
                walk(part, True)
            return
        for ch in ast.iter_child_nodes(n):
            walk(ch, cond)
    walk(node, False)
    return out


def must_call(fn_node, pred, prune=None, exits=None):
    """True iff on every path from the entry of the function to a normal exit (return or fall-through) some call
    node satisfying `pred` is evaluated. Loops run zero or more times; exception paths (raise) are not exits.
    `prune(test)` may return True/False to declare a branch test decided (infeasible arm skipped).
    `exits` (list) receives the offending exit nodes (Return statement, or the function node for fall-through)."""
    bad = exits if exits is not None else []

    def hit(node):
        return any(pred(c) for c in calls_in(node, conditional=False))

    def walk(stmts, called):
        for st in stmts:
            if isinstance(st, ast.Return):
                c = called or (st.value is not None and hit(st.value))
                if not c:
                    bad.append(st)
                return None
            if isinstance(st, ast.Raise) or is_noreturn_call(st):
                return None
            if isinstance(st, (ast.Continue, ast.Break)):
                return None
            if isinstance(st, ast.If):
                c = called or hit(st.test)
                decided = prune(st.test) if prune else None
                a = walk(st.body, c) if decided is not False else None
                b = walk(st.orelse, c) if decided is not True else None
                if decided is True:
                    called = a
                elif decided is False:
                    called = b
                else:
                    outs = [x for x in (a, b) if x is not None]
                    called = all(outs) if outs else None
                if called is None:
                    return None
            elif isinstance(st, (ast.For, ast.AsyncFor)):
                called = called or hit(st.iter)
                walk(st.body, called)
                r = walk(st.orelse, called)
                if st.orelse and r is None:
                    return None
                called = called if not st.orelse else r
            elif isinstance(st, ast.While):
                called = called or hit(st.test)
                walk(st.body, called)
                walk(st.orelse, called)
            elif isinstance(st, (ast.With, ast.AsyncWith)):
                for it in st.items:
                    called = called or hit(it.context_expr)
                called = walk(st.body, called)
                if called is None:
                    return None
            elif isinstance(st, ast.Try):
                fin = any(hit(s) for s in st.finalbody if not isinstance(s, (ast.If, ast.For, ast.While, ast.Try)))
                entry = called or fin
                a = walk(st.body, entry)
                if a is not None and st.orelse:
                    a = walk(st.orelse, a)
                outs = [a] if a is not None else []
                for h in st.handlers:
                    r = walk(h.body, entry)
                    if r is not None:
                        outs.append(r)
                if not outs:
                    return None
                called = all(outs)
                if st.finalbody:
                    called = walk(st.finalbody, called)
                    if called is None:
                        return None
            elif isinstance(st, (ast.FunctionDef, ast.AsyncFunctionDef, ast.ClassDef)):
                pass
            else:
                called = called or hit(st)
        return called

    end = walk(fn_node.body, False)
    if end is False:
        bad.append(fn_node)
    return not bad


def returns(unit):
    """[(value node or None, facts, return stmt or None)] for every return path incl. the implicit None."""
    fm = factmap(unit)
    out = []
    for n in own_nodes(unit.node):
        if isinstance(n, ast.Return):
            out.append((n.value, fm.at(n), n))
    if not always_exits(unit.node.body):
        # facts at the fall-through end: negations of the early exits at top level
        facts = []
        for st in unit.node.body:
            if isinstance(st, ast.If):
                if always_exits(st.body) and not (st.orelse and always_exits(st.orelse)):
                    facts += atoms(st.test, False, fm.norm)
                elif st.orelse and always_exits(st.orelse) and not always_exits(st.body):
                    facts += atoms(st.test, True, fm.norm)
            elif isinstance(st, ast.Assert):
                facts += atoms(st.test, True, fm.norm)
        out.append((None, tuple(facts), None))
    return out


def own_calls(unit):
    return [n for n in own_nodes(unit.node) if isinstance(n, ast.Call)]


def call_text(call):
    return ast.unparse(call.func)


def statements(fn_node):
    """all statements of the function's own body, in source order."""
    out = []

    def walk(stmts):
        for st in stmts:
            out.append(st)
            if isinstance(st, (ast.FunctionDef, ast.AsyncFunctionDef, ast.ClassDef)):
                continue
            for fld in ('body', 'orelse', 'finalbody'):
                v = getattr(st, fld, None)
                if isinstance(v, list) and v and isinstance(v[0], ast.stmt):
                    walk(v)
            for h in getattr(st, 'handlers', []):
                walk(h.body)
    walk(fn_node.body)
    return out


class PathLimit(Exception):
    pass


def all_paths(fn_node, limit=2000):
    """every acyclic path through the function's if/elif/else structure (loops, try and with are walked as
    straight-line bodies: for/while bodies are taken zero or one time) as (decisions, statements, exit) where
    decisions = [(test node, polarity)], statements = simple statements executed in order, exit = Return/Raise node
    or None for the fall-through."""
    out = []

    def walk(stmts, decs, done, cont):
        """cont(decs, done) continues after the block falls through."""
        if len(out) > limit:
            raise PathLimit()
        if not stmts:
            cont(decs, done)
            return
        st, rest = stmts[0], stmts[1:]
        if isinstance(st, (ast.Return, ast.Raise)):
            out.append((decs, done + [st], st))
            return
        if is_noreturn_call(st):
            out.append((decs, done + [st], st))
            return
        if isinstance(st, ast.If):
            walk(st.body, decs + [(st.test, True)], done, lambda d, s: walk(rest, d, s, cont))
            walk(st.orelse, decs + [(st.test, False)], done, lambda d, s: walk(rest, d, s, cont))
            return
        if isinstance(st, (ast.For, ast.AsyncFor, ast.While)):
            walk(rest, decs, done + [st], cont)                                           # zero iteration
            walk(st.body, decs, done + [st], lambda d, s: walk(rest, d, s, cont))         # one iteration
            return
        if isinstance(st, (ast.With, ast.AsyncWith)):
            walk(st.body, decs, done + [st], lambda d, s: walk(rest, d, s, cont))
            return
        if isinstance(st, ast.Try):
            walk(st.body + st.orelse + st.finalbody, decs, done, lambda d, s: walk(rest, d, s, cont))
            for h in st.handlers:
                walk(h.body + st.finalbody, decs, done + [h], lambda d, s: walk(rest, d, s, cont))
            return
        if isinstance(st, (ast.Continue, ast.Break)):
            cont(decs, done + [st])
            return
        walk(rest, decs, done + [st], cont)

    walk(list(fn_node.body), [], [], lambda d, s: out.append((d, s, None)))
    return out
