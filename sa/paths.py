"""Syntax-directed path facts: dominating conditions, early-exit negations, must-call, return paths.

A *fact* is (text, polarity, node): the expression `text` (ast.unparse after alias normalisation) is known
to evaluate truthy (polarity True) or falsy (False) whenever control reaches the annotated node.
"""
import ast
from .model import own_nodes

NORETURN_ATTRS = ('_raise',)


class Fact(tuple):
    """(text, polarity) with the originating AST node attached (not part of equality)."""
    def __new__(cls, text, pol, node=None):
        f = tuple.__new__(cls, (text, pol))
        f.node = node
        return f

    @property
    def text(self):
        return self[0]

    @property
    def pol(self):
        return self[1]


def is_noreturn_call(st):
    if isinstance(st, ast.Expr) and isinstance(st.value, ast.Call):
        f = st.value.func
        if isinstance(f, ast.Attribute) and f.attr in NORETURN_ATTRS:
            return True
    return False


def always_exits(stmts):
    """True when no path falls through the end of the statement list."""
    for st in stmts:
        if isinstance(st, (ast.Return, ast.Raise, ast.Continue, ast.Break)):
            return True
        if is_noreturn_call(st):
            return True
        if isinstance(st, ast.If) and st.orelse and always_exits(st.body) and always_exits(st.orelse):
            return True
        if isinstance(st, ast.With) and always_exits(st.body):
            return True
        if isinstance(st, ast.Try):
            if st.finalbody and always_exits(st.finalbody):
                return True
            main = always_exits(st.body) or (st.orelse and always_exits(st.orelse))
            if main and all(always_exits(h.body) for h in st.handlers):
                return True
    return False


class Normaliser:
    """alpha-renaming of single-assignment alias locals: `sm = self.state_modes` -> facts talk about the target."""

    def __init__(self, fn_node):
        counts, vals = {}, {}
        for n in own_nodes(fn_node):
            tgts = []
            if isinstance(n, ast.Assign):
                tgts = n.targets
            elif isinstance(n, (ast.AnnAssign, ast.AugAssign)):
                tgts = [n.target]
            elif isinstance(n, (ast.For, ast.comprehension)):
                tgts = [n.target]
            elif isinstance(n, ast.NamedExpr):
                tgts = [n.target]
            elif isinstance(n, ast.withitem) and n.optional_vars is not None:
                tgts = [n.optional_vars]
            for t in tgts:
                for x in ast.walk(t):
                    if isinstance(x, ast.Name):
                        counts[x.id] = counts.get(x.id, 0) + 1
            if isinstance(n, (ast.Assign, ast.AnnAssign)) and getattr(n, 'value', None) is not None:
                t = n.targets[0] if isinstance(n, ast.Assign) else n.target
                # (pure chains are folded, when that is sound, by sa.normalise on the syntax tree: what is left here
                # as a local is an alias that may not follow its target, and is not looked through)
                if isinstance(t, ast.Name) and self._predicate(n.value):
                    vals[t.id] = n.value
        args = fn_node.args
        params = {a.arg for a in args.posonlyargs + args.args + args.kwonlyargs}
        self.alias = {k: v for k, v in vals.items() if counts.get(k) == 1 and k not in params}
        self.helpers = {}        # name -> expression returned by a private single-return predicate of the class

    @staticmethod
    def _pure_chain(e):
        while isinstance(e, ast.Attribute):
            e = e.value
        return isinstance(e, ast.Name) and e.id == 'self'

    PRED = {'is_master', 'is_stable', 'is_checking', 'is_inactive', 'is_running', 'has_active_state',
            'has_running_processes', 'in_progress', 'stopped', 'running', 'running_on', 'conflicting', 'crashed',
            'disabled', 'disabled_on', 'check_master', 'never_started', 'has_crashed'}

    @classmethod
    def _predicate(cls, e):
        """a boolean-valued expression hoisted into a local (`busy = a.in_progress() or b.in_progress()`)."""
        if isinstance(e, (ast.Compare, ast.BoolOp)):
            return True
        if isinstance(e, ast.UnaryOp) and isinstance(e.op, ast.Not):
            return True
        if isinstance(e, ast.Call) and isinstance(e.func, ast.Attribute) and e.func.attr in cls.PRED:
            return True
        return False

    def inline(self, e, depth=0):
        """`self._helper()` / `self._helper` -> the expression the private helper returns (extract-condition refactoring)."""
        if not self.helpers or depth > 2:
            return e
        nm = None
        if isinstance(e, ast.Call) and not e.args and not e.keywords and isinstance(e.func, ast.Attribute) and \
                isinstance(e.func.value, ast.Name) and e.func.value.id == 'self':
            nm = e.func.attr
        elif isinstance(e, ast.Attribute) and isinstance(e.value, ast.Name) and e.value.id == 'self':
            nm = e.attr
        if nm in self.helpers:
            import copy
            out = copy.deepcopy(self.helpers[nm])
            for x in ast.walk(out):
                if hasattr(e, 'lineno'):
                    ast.copy_location(x, e)
            return self.inline(out, depth + 1)
        return e

    def subst(self, e, depth=0):
        """e with alias locals replaced by their defining expression (AST level, original untouched)."""
        if not self.alias or depth > 3:
            return e
        names = {x.id for x in ast.walk(e) if isinstance(x, ast.Name)}
        if not (names & set(self.alias)):
            return e
        import copy
        e2 = copy.deepcopy(e)
        alias = self.alias

        class T(ast.NodeTransformer):
            def visit_Name(self, n):
                if n.id in alias and isinstance(n.ctx, ast.Load):
                    return ast.copy_location(copy.deepcopy(alias[n.id]), n)
                return n
        e2 = T().visit(ast.Expression(body=e2)).body
        ast.fix_missing_locations(e2)
        for x in ast.walk(e2):
            if not hasattr(x, 'lineno') and hasattr(e, 'lineno'):
                ast.copy_location(x, e)
        return self.subst(e2, depth + 1)

    def text(self, e):
        return ast.unparse(self.subst(e))


def _constant_like(e):
    if isinstance(e, ast.Constant):
        return True
    if isinstance(e, ast.Attribute) and isinstance(e.value, ast.Name) and e.value.id[:1].isupper() and \
            e.attr.isupper():
        return True                     # Enum.MEMBER
    if isinstance(e, (ast.List, ast.Tuple, ast.Set)) and all(_constant_like(x) for x in e.elts):
        return True
    return False


def _rank(e):
    """how 'constant' an operand is: the operands of a symmetric comparison are ordered computed < variable < type /
    class < constant (then by text), which is how the repository writes them almost everywhere."""
    if _constant_like(e):
        return 4
    if isinstance(e, ast.Name) and (e.id[:1].isupper() or e.id in ('int', 'str', 'bool', 'float', 'list', 'dict', 'set',
                                                                    'tuple', 'bytes')):
        return 3
    if isinstance(e, ast.Attribute) and e.attr[:1].isupper():
        return 3
    if isinstance(e, ast.Call) and isinstance(e.func, ast.Name) and e.func.id in ('set', 'list', 'dict', 'tuple') \
            and not e.args:
        return 3
    if isinstance(e, (ast.Name, ast.Attribute)):
        return 2
    if isinstance(e, ast.Subscript):
        return 1
    return 0


_MIRROR = {ast.Lt: ast.Gt, ast.Gt: ast.Lt, ast.LtE: ast.GtE, ast.GtE: ast.LtE, ast.Eq: ast.Eq, ast.NotEq: ast.NotEq}


def canonical(test):
    """(expression, flip) - an expression equivalent to `test` (or to `not test` when flip) in a canonical spelling, so
    that equivalent ways of writing a condition give the same fact text. Designed as a fixpoint on the spellings the
    repository uses; only variants are rewritten:
      bool(x) -> x ; len(x) > 0 | >= 1 | != 0 -> x ; len(x) == 0 | < 1 -> not x ;
      CONST == x -> x == CONST (and mirrored <, <=, >, >=) ; x in (A, B) | {A, B} -> x in [A, B] ; x in [A] -> x == A ;
      x == A or x == B -> x in [A, B].  (a false conjunction is spelt as the true disjunction of the negations: atoms())"""
    e = test
    if isinstance(e, ast.Call) and isinstance(e.func, ast.Name) and e.func.id == 'bool' and len(e.args) == 1 \
            and not e.keywords:
        return canonical(e.args[0])
    if isinstance(e, ast.Compare) and len(e.ops) == 1:
        l, op, r = e.left, e.ops[0], e.comparators[0]
        if _constant_like(l) and not _constant_like(r) and type(op) in _MIRROR:
            l, r, op = r, l, _MIRROR[type(op)]()
            e = ast.Compare(left=l, ops=[op], comparators=[r])
        # symmetric operators: one operand order (constants on the right - above; otherwise by text)
        if isinstance(op, (ast.Eq, ast.NotEq, ast.Is, ast.IsNot)) and \
                (_rank(l), ast.unparse(l)) > (_rank(r), ast.unparse(r)):
            l, r = r, l
            e = ast.Compare(left=l, ops=[op], comparators=[r])
        # len(x) against 0 / 1
        if isinstance(l, ast.Call) and isinstance(l.func, ast.Name) and l.func.id == 'len' and len(l.args) == 1 and \
                isinstance(r, ast.Constant) and r.value in (0, 1):
            k = (type(op), r.value)
            if k in ((ast.Gt, 0), (ast.GtE, 1), (ast.NotEq, 0)):
                return l.args[0], False
            if k in ((ast.Eq, 0), (ast.Lt, 1), (ast.LtE, 0)):
                return l.args[0], True
        if isinstance(op, (ast.In, ast.NotIn)) and isinstance(r, (ast.Tuple, ast.Set)) and _constant_like(r):
            r = ast.List(elts=list(r.elts), ctx=ast.Load())
            e = ast.Compare(left=l, ops=[op], comparators=[r])
        if isinstance(op, (ast.In, ast.NotIn)) and isinstance(r, ast.List) and len(r.elts) == 1 and _constant_like(r):
            op = ast.Eq() if isinstance(op, ast.In) else ast.NotEq()
            r = r.elts[0]
            e = ast.Compare(left=l, ops=[op], comparators=[r])
        # negative operators -> positive operator, flipped polarity (one spelling per fact)
        pos = {ast.NotEq: ast.Eq, ast.NotIn: ast.In, ast.IsNot: ast.Is}.get(type(op))
        if pos:
            return ast.Compare(left=l, ops=[pos()], comparators=[r]), True
        return e, False
    if isinstance(e, ast.BoolOp):
        vals, changed = [], False
        for v in e.values:
            inner = v.operand if isinstance(v, ast.UnaryOp) and isinstance(v.op, ast.Not) else v
            neg = inner is not v
            c, f = canonical(inner)
            if c is not inner or f:
                changed = True
            if f != neg:
                c = ast.UnaryOp(op=ast.Not(), operand=c)
            vals.append(c)
        if isinstance(e.op, ast.Or):
            # x == A or x == B -> x in [A, B]
            if all(isinstance(v, ast.Compare) and len(v.ops) == 1 and isinstance(v.ops[0], ast.Eq) and
                   _constant_like(v.comparators[0]) for v in vals) and len({ast.unparse(v.left) for v in vals}) == 1:
                return ast.Compare(left=vals[0].left, ops=[ast.In()],
                                   comparators=[ast.List(elts=[v.comparators[0] for v in vals], ctx=ast.Load())]), False
        if changed:
            return ast.BoolOp(op=e.op, values=vals), False
    return e, False


_CF = {}


def cf(text, pol=True):
    """(text, polarity) of an expected fact in the canonical spelling used by the fact maps."""
    k = (text, pol)
    if k not in _CF:
        try:
            c, flip = canonical(ast.parse(text, mode='eval').body)
            _CF[k] = (ast.unparse(c), pol != flip)
        except SyntaxError:
            _CF[k] = k
    return _CF[k]


def ctext(e):
    """text of an expression with every condition inside it in canonical spelling (see canonical())."""
    import copy

    class T(ast.NodeTransformer):
        def visit_Compare(self, n):
            self.generic_visit(n)
            c, flip = canonical(n)
            return ast.UnaryOp(op=ast.Not(), operand=c) if flip else c

        def visit_BoolOp(self, n):
            self.generic_visit(n)
            c, flip = canonical(n)
            return ast.UnaryOp(op=ast.Not(), operand=c) if flip else c

        def visit_Call(self, n):
            self.generic_visit(n)
            c, flip = canonical(n)
            return ast.UnaryOp(op=ast.Not(), operand=c) if flip else c
    if isinstance(e, str):
        e = ast.parse(e, mode='eval').body
    return ast.unparse(ast.fix_missing_locations(T().visit(copy.deepcopy(e))))


def atoms(test, pol, norm=None):
    """atomic facts implied by `test` evaluating to `pol`."""
    if isinstance(test, ast.UnaryOp) and isinstance(test.op, ast.Not):
        return atoms(test.operand, not pol, norm)
    if norm is not None:
        test = norm.inline(norm.subst(test))
        if isinstance(test, ast.UnaryOp) and isinstance(test.op, ast.Not):
            return atoms(test.operand, not pol, norm)
    ctest, flip = canonical(test)
    if flip or ctest is not test:
        if flip:
            pol = not pol
        orig = test
        test = ast.copy_location(ctest, orig) if hasattr(orig, 'lineno') else ctest
        ast.fix_missing_locations(test)
        if isinstance(test, ast.UnaryOp) and isinstance(test.op, ast.Not):
            return atoms(test.operand, not pol, norm)
    if isinstance(test, ast.BoolOp) and ((isinstance(test.op, ast.And) and pol) or
                                         (isinstance(test.op, ast.Or) and not pol)):
        return [a for v in test.values for a in atoms(v, pol, norm)]
    if isinstance(test, ast.NamedExpr):
        return atoms(test.value, pol, norm) + [Fact(test.target.id, pol, test.target)]
    if isinstance(test, ast.BoolOp) and isinstance(test.op, ast.And) and not pol:
        # normal form of a compound fact: a true disjunction (De Morgan), so that `if not (a and not b)` and
        # `if not a or b` give the same fact
        vals = []
        for v in test.values:
            if isinstance(v, ast.UnaryOp) and isinstance(v.op, ast.Not):
                vals.append(v.operand)
            else:
                vals.append(ast.UnaryOp(op=ast.Not(), operand=v))
        new = ast.BoolOp(op=ast.Or(), values=vals)
        if hasattr(test, 'lineno'):
            ast.copy_location(new, test)
        ast.fix_missing_locations(new)
        test, pol = new, True
    txt = norm.text(test) if norm else ast.unparse(test)
    out = [Fact(txt, pol, test)]
    return out


def _prune(facts):
    """drop the negative facts that a positive one already implies: with `x == A` known, `not x == B` and
    `not x in [B, C]` (A, B, C distinct constants) say nothing more. An if/elif chain and a sequence of independent
    exclusive tests then give the same facts."""
    pos = {}
    for f in facts:
        n = getattr(f, 'node', None)
        if f[1] and isinstance(n, ast.Compare) and len(n.ops) == 1 and _constant_like(n.comparators[0]):
            if isinstance(n.ops[0], (ast.Eq, ast.Is)):
                pos.setdefault(ast.unparse(n.left), set()).add(frozenset([ast.unparse(n.comparators[0])]))
            elif isinstance(n.ops[0], ast.In) and isinstance(n.comparators[0], (ast.List, ast.Tuple, ast.Set)):
                pos.setdefault(ast.unparse(n.left), set()).add(frozenset(ast.unparse(x) for x in n.comparators[0].elts))
    if not pos:
        return facts
    out = []
    for f in facts:
        n = getattr(f, 'node', None)
        if not f[1] and isinstance(n, ast.Compare) and len(n.ops) == 1 and _constant_like(n.comparators[0]):
            k = ast.unparse(n.left)
            if k in pos:
                if isinstance(n.ops[0], (ast.Eq, ast.Is)):
                    excl = {ast.unparse(n.comparators[0])}
                elif isinstance(n.ops[0], ast.In) and isinstance(n.comparators[0], (ast.List, ast.Tuple, ast.Set)):
                    excl = {ast.unparse(x) for x in n.comparators[0].elts}
                else:
                    excl = None
                if excl is not None and any(not (p & excl) for p in pos[k]):
                    continue
        out.append(f)
    return tuple(out)


class FactMap:
    """facts and enclosing exception handlers for every node of a function body."""

    def __init__(self, fn_node, helpers=None):
        self.fn = fn_node
        self.norm = Normaliser(fn_node)
        self.norm.helpers = helpers or {}
        self.facts = {}
        self.handlers = {}      # id(node) -> tuple of tuples of caught exception names (innermost last)
        self.stmt_of = {}       # id(expr node) -> enclosing statement
        self._pruned = set()
        self._block(fn_node.body, [], ())

    def at(self, node):
        fs = self.facts.get(id(node), ())
        if len(fs) > 1 and id(node) not in self._pruned:
            fs = self.facts[id(node)] = _prune(fs)
            self._pruned.add(id(node))
        return fs

    def closed(self, node):
        """the facts at node as a set of (text, polarity) in closed form (see sa.defuse): no local names."""
        from .defuse import defuse
        du = defuse(self.fn)
        out = set()
        for f in self.at(node):
            try:
                e = ast.parse(f[0], mode='eval').body
            except SyntaxError:
                out.add((f[0], f[1]))
                continue
            e, flip = canonical(du.closed(e))
            out.add((ast.unparse(e), f[1] != flip))
        return out

    def has(self, node, text, pol=True):
        """is (text, pol) a fact at node? The expected text may be written in any equivalent spelling."""
        text, pol = cf(text, pol)
        return any(f[0] == text and f[1] == pol for f in self.at(node))

    def _expr(self, e, facts, hs, st):
        if e is None:
            return
        if isinstance(e, ast.BoolOp):
            self.facts.setdefault(id(e), tuple(facts))
            self.handlers.setdefault(id(e), hs)
            self.stmt_of.setdefault(id(e), st)
            acc = list(facts)
            for v in e.values:
                self._expr(v, acc, hs, st)
                acc = acc + atoms(v, isinstance(e.op, ast.And), self.norm)
            return
        if isinstance(e, ast.IfExp):
            self.facts.setdefault(id(e), tuple(facts))
            self.handlers.setdefault(id(e), hs)
            self.stmt_of.setdefault(id(e), st)
            self._expr(e.test, facts, hs, st)
            self._expr(e.body, facts + atoms(e.test, True, self.norm), hs, st)
            self._expr(e.orelse, facts + atoms(e.test, False, self.norm), hs, st)
            return
        if isinstance(e, (ast.ListComp, ast.SetComp, ast.GeneratorExp, ast.DictComp)):
            self.facts.setdefault(id(e), tuple(facts))
            self.handlers.setdefault(id(e), hs)
            self.stmt_of.setdefault(id(e), st)
            acc = list(facts)
            for g in e.generators:
                self._expr(g.iter, acc, hs, st)
                self._expr(g.target, acc, hs, st)
                for c in g.ifs:
                    self._expr(c, acc, hs, st)
                    acc = acc + atoms(c, True, self.norm)
            for part in ([e.key, e.value] if isinstance(e, ast.DictComp) else [e.elt]):
                self._expr(part, acc, hs, st)
            return
        if isinstance(e, ast.Lambda):
            self.facts.setdefault(id(e), tuple(facts))
            self._expr(e.body, [], hs, st)
            return
        self.facts.setdefault(id(e), tuple(facts))
        self.handlers.setdefault(id(e), hs)
        self.stmt_of.setdefault(id(e), st)
        for ch in ast.iter_child_nodes(e):
            if isinstance(ch, ast.expr):
                self._expr(ch, facts, hs, st)
            elif isinstance(ch, ast.keyword):
                self._expr(ch.value, facts, hs, st)
            elif isinstance(ch, ast.comprehension):
                pass

    def _block(self, stmts, facts, hs):
        facts = list(facts)
        for st in stmts:
            self.facts[id(st)] = tuple(facts)
            self.handlers[id(st)] = hs
            if isinstance(st, ast.If):
                self._expr(st.test, facts, hs, st)
                self._block(st.body, facts + atoms(st.test, True, self.norm), hs)
                self._block(st.orelse, facts + atoms(st.test, False, self.norm), hs)
                if always_exits(st.body) and not (st.orelse and always_exits(st.orelse)):
                    facts += atoms(st.test, False, self.norm)
                elif st.orelse and always_exits(st.orelse) and not always_exits(st.body):
                    facts += atoms(st.test, True, self.norm)
            elif isinstance(st, (ast.For, ast.AsyncFor)):
                self._expr(st.iter, facts, hs, st)
                self._expr(st.target, facts, hs, st)
                self._block(st.body, facts, hs)
                self._block(st.orelse, facts, hs)
            elif isinstance(st, ast.While):
                self._expr(st.test, facts, hs, st)
                self._block(st.body, facts + atoms(st.test, True, self.norm), hs)
                self._block(st.orelse, facts, hs)
            elif isinstance(st, (ast.With, ast.AsyncWith)):
                for it in st.items:
                    self._expr(it.context_expr, facts, hs, st)
                    self._expr(it.optional_vars, facts, hs, st)
                self._block(st.body, facts, hs)
            elif isinstance(st, ast.Try):
                caught = tuple(handler_names(h) for h in st.handlers)
                self._block(st.body, facts, hs + (caught,))
                for h in st.handlers:
                    self.facts[id(h)] = tuple(facts)
                    self._block(h.body, facts, hs)
                # what the try body asserts (top level) holds in the else clause, and after the try when every handler
                # leaves (`try: v = int(x); assert v > 0  except ..: self._raise(..)`)
                asserted = []
                for b_ in st.body:
                    if isinstance(b_, ast.Assert):
                        asserted += atoms(b_.test, True, self.norm)
                self._block(st.orelse, facts + asserted, hs)
                self._block(st.finalbody, facts, hs)
                if asserted and st.handlers and all(always_exits(h.body) for h in st.handlers):
                    facts += asserted
            elif isinstance(st, (ast.FunctionDef, ast.AsyncFunctionDef, ast.ClassDef)):
                pass
            elif isinstance(st, ast.Assert):
                self._expr(st.test, facts, hs, st)
                facts += atoms(st.test, True, self.norm)
            else:
                for ch in ast.iter_child_nodes(st):
                    if isinstance(ch, ast.expr):
                        self._expr(ch, facts, hs, st)


def handler_names(h):
    if h.type is None:
        return ('BaseException',)
    ts = h.type.elts if isinstance(h.type, ast.Tuple) else [h.type]
    return tuple(t.id if isinstance(t, ast.Name) else (t.attr if isinstance(t, ast.Attribute) else '?') for t in ts)


_FM = {}
PROGRAM = None          # set by the driver: lets the fact maps inline private helper predicates of the unit's class


def _helper_predicates(unit):
    out = {}
    if PROGRAM is None or unit.cls is None:
        return out
    for k in PROGRAM.mro(unit.cls):
        for nm, u in list(k.methods.items()) + list(k.props.items()):
            if not nm.startswith('_') or nm.startswith('__') or nm in out:
                continue
            a = u.node.args
            if len(a.args) != 1 or a.vararg or a.kwarg or a.kwonlyargs:
                continue
            body = [st for st in u.node.body
                    if not (isinstance(st, ast.Expr) and isinstance(st.value, ast.Constant))
                    and not (isinstance(st, ast.Expr) and isinstance(st.value, ast.Call)
                             and 'logger' in ast.unparse(st.value.func).split('.'))]
            if len(body) == 1 and isinstance(body[0], ast.Return) and body[0].value is not None and \
                    isinstance(body[0].value, (ast.Compare, ast.BoolOp, ast.UnaryOp, ast.Call, ast.Attribute)):
                v = body[0].value
                if isinstance(v, ast.Attribute) and not (isinstance(v.value, ast.Name)):
                    # property chains such as `return self.supvisors.logger` are shortcuts, not predicates
                    continue
                if isinstance(v, ast.Call) and not isinstance(v.func, ast.Attribute):
                    continue
                out[nm] = v
    return out


def expand_self(unit, e, depth=0):
    """e (an expression or its text) with every `self.h(..)` / `self.h` whose implementation (through the MRO of the
    unit's class, no override below) is a single `return <expr>` replaced by that expression, recursively; returned as
    canonical text. `self.conflicting()` and `len(self.running_identifiers) > 1` then read the same: a rule that names
    a one-line helper accepts the helper written out, and the reverse."""
    import copy
    if isinstance(e, str):
        e = ast.parse(e, mode='eval').body
    P = PROGRAM
    if P is None or unit.cls is None:
        return ctext(e)

    def one_line(name, is_call):
        mem = P.member(unit.cls, name)
        if not mem or mem[0] not in ('method', 'prop') or (mem[0] == 'prop') == is_call:
            return None
        if any(name in sub.methods or name in sub.props for sub in P.all_subs(unit.cls)):
            return None
        fn = mem[2].node
        body = [st for st in fn.body if not (isinstance(st, ast.Expr) and isinstance(st.value, ast.Constant))]
        if len(body) != 1 or not isinstance(body[0], ast.Return) or body[0].value is None:
            return None
        if fn.args.vararg or fn.args.kwarg or fn.args.kwonlyargs or fn.args.defaults:
            return None
        return fn, body[0].value

    class T(ast.NodeTransformer):
        def __init__(self, d):
            self.d = d

        def sub(self, node, name, args):
            r = one_line(name, args is not None)
            if r is None or self.d > 3:
                return node
            fn, val = r
            params = [a.arg for a in fn.args.args][1:]
            if len(params) != len(args or []):
                return node
            m = dict(zip(params, args or []))
            val = copy.deepcopy(val)

            class S(ast.NodeTransformer):
                def visit_Name(self, n):
                    return copy.deepcopy(m[n.id]) if n.id in m and isinstance(n.ctx, ast.Load) else n
            val = S().visit(val)
            return T(self.d + 1).visit(val)

        def visit_Call(self, n):
            self.generic_visit(n)
            f = n.func
            if isinstance(f, ast.Attribute) and isinstance(f.value, ast.Name) and f.value.id == 'self' and not n.keywords:
                return self.sub(n, f.attr, list(n.args))
            return n

        def visit_Attribute(self, n):
            self.generic_visit(n)
            if isinstance(n.value, ast.Name) and n.value.id == 'self' and isinstance(n.ctx, ast.Load):
                return self.sub(n, n.attr, None)
            return n
    out = T(depth).visit(copy.deepcopy(e))
    return ctext(ast.fix_missing_locations(out))


def factmap(unit):
    fm = _FM.get(id(unit.node))
    if fm is None:
        fm = FactMap(unit.node, _helper_predicates(unit))
        _FM[id(unit.node)] = fm
    return fm


def calls_in(node, conditional=True):
    """Call nodes evaluated when `node` (an expression or simple statement) is evaluated. With conditional=False
    only the calls evaluated unconditionally (not in IfExp arms, BoolOp tails, comprehension bodies, lambdas)."""
    out = []

    def walk(n, cond):
        if isinstance(n, ast.Call) and (conditional or not cond):
            out.append(n)
        if isinstance(n, ast.Lambda):
            return
        if isinstance(n, (ast.FunctionDef, ast.AsyncFunctionDef, ast.ClassDef)):
            return
        if isinstance(n, ast.IfExp):
            walk(n.test, cond)
            walk(n.body, True)
            walk(n.orelse, True)
            return
        if isinstance(n, ast.BoolOp):
            walk(n.values[0], cond)
            for v in n.values[1:]:
                walk(v, True)
            return
        if isinstance(n, (ast.ListComp, ast.SetComp, ast.GeneratorExp, ast.DictComp)):
            walk(n.generators[0].iter, cond)
            for g in n.generators:
                if g is not n.generators[0]:
                    walk(g.iter, True)
                for c in g.ifs:
                    walk(c, True)
            for part in ([n.key, n.value] if isinstance(n, ast.DictComp) else [n.elt]):
                walk(part, True)
            return
        for ch in ast.iter_child_nodes(n):
            walk(ch, cond)
    walk(node, False)
    return out


def must_call(fn_node, pred, prune=None, exits=None):
    """True iff on every path from the entry of the function to a normal exit (return or fall-through) some call
    node satisfying `pred` is evaluated. Loops run zero or more times; exception paths (raise) are not exits.
    `prune(test)` may return True/False to declare a branch test decided (infeasible arm skipped).
    `exits` (list) receives the offending exit nodes (Return statement, or the function node for fall-through)."""
    bad = exits if exits is not None else []

    def hit(node):
        return any(pred(c) for c in calls_in(node, conditional=False))

    def walk(stmts, called):
        for st in stmts:
            if isinstance(st, ast.Return):
                c = called or (st.value is not None and hit(st.value))
                if not c:
                    bad.append(st)
                return None
            if isinstance(st, ast.Raise) or is_noreturn_call(st):
                return None
            if isinstance(st, (ast.Continue, ast.Break)):
                return None
            if isinstance(st, ast.If):
                c = called or hit(st.test)
                decided = prune(st.test) if prune else None
                a = walk(st.body, c) if decided is not False else None
                b = walk(st.orelse, c) if decided is not True else None
                if decided is True:
                    called = a
                elif decided is False:
                    called = b
                else:
                    outs = [x for x in (a, b) if x is not None]
                    called = all(outs) if outs else None
                if called is None:
                    return None
            elif isinstance(st, (ast.For, ast.AsyncFor)):
                called = called or hit(st.iter)
                walk(st.body, called)
                r = walk(st.orelse, called)
                if st.orelse and r is None:
                    return None
                called = called if not st.orelse else r
            elif isinstance(st, ast.While):
                called = called or hit(st.test)
                walk(st.body, called)
                walk(st.orelse, called)
            elif isinstance(st, (ast.With, ast.AsyncWith)):
                for it in st.items:
                    called = called or hit(it.context_expr)
                called = walk(st.body, called)
                if called is None:
                    return None
            elif isinstance(st, ast.Try):
                fin = any(hit(s) for s in st.finalbody if not isinstance(s, (ast.If, ast.For, ast.While, ast.Try)))
                entry = called or fin
                a = walk(st.body, entry)
                if a is not None and st.orelse:
                    a = walk(st.orelse, a)
                outs = [a] if a is not None else []
                for h in st.handlers:
                    r = walk(h.body, entry)
                    if r is not None:
                        outs.append(r)
                if not outs:
                    return None
                called = all(outs)
                if st.finalbody:
                    called = walk(st.finalbody, called)
                    if called is None:
                        return None
            elif isinstance(st, (ast.FunctionDef, ast.AsyncFunctionDef, ast.ClassDef)):
                pass
            else:
                called = called or hit(st)
        return called

    end = walk(fn_node.body, False)
    if end is False:
        bad.append(fn_node)
    return not bad


def returns(unit):
    """[(value node or None, facts, return stmt or None)] for every return path incl. the implicit None."""
    fm = factmap(unit)
    out = []
    for n in own_nodes(unit.node):
        if isinstance(n, ast.Return):
            v = n.value
            if isinstance(v, ast.Name):
                # a result local (single-exit style): one entry per assignment of the local, under the facts of the
                # assignment and of the return - the same entries as the early-return style gives
                asg = [a for a in own_nodes(unit.node) if isinstance(a, (ast.Assign, ast.AnnAssign)) and a.value is not None
                       and any(isinstance(t, ast.Name) and t.id == v.id
                               for t in (a.targets if isinstance(a, ast.Assign) else [a.target]))]
                if len(asg) > 1 and not any(isinstance(x, ast.AugAssign) and isinstance(x.target, ast.Name)
                                            and x.target.id == v.id for x in own_nodes(unit.node)):
                    for a in asg:
                        seen = {tuple(f) for f in fm.at(a)}
                        out.append((a.value, tuple(fm.at(a)) + tuple(f for f in fm.at(n) if tuple(f) not in seen), a))
                    continue
            out.append((n.value, fm.at(n), n))
    if not always_exits(unit.node.body):
        # facts at the fall-through end: negations of the early exits at top level
        facts = []
        for st in unit.node.body:
            if isinstance(st, ast.If):
                if always_exits(st.body) and not (st.orelse and always_exits(st.orelse)):
                    facts += atoms(st.test, False, fm.norm)
                elif st.orelse and always_exits(st.orelse) and not always_exits(st.body):
                    facts += atoms(st.test, True, fm.norm)
            elif isinstance(st, ast.Assert):
                facts += atoms(st.test, True, fm.norm)
        out.append((None, tuple(facts), None))
    return out


def returned_values(unit):
    """[(value node, facts)] of what the function can return, a flag local being replaced by what is assigned to it:
    `flag = False; if c: flag = X; return flag` and `if not c: return False; return X` give the same non-default
    entries (X under c). The initialiser of a flag (assignment at the top level of the body, no fact) is reported
    with the pseudo-fact ('<initial>', True)."""
    fm = factmap(unit)
    out = []
    for v, facts, n in returns(unit):
        if isinstance(v, ast.Name):
            asg = [a for a in own_nodes(unit.node) if isinstance(a, (ast.Assign, ast.AnnAssign)) and a.value is not None
                   and any(isinstance(t, ast.Name) and t.id == v.id
                           for t in (a.targets if isinstance(a, ast.Assign) else [a.target]))]
            if len(asg) > 1 or (len(asg) == 1 and fm.at(asg[0])):
                for a in asg:
                    fs = tuple(fm.at(a)) + tuple(facts)
                    if a in unit.node.body and not fm.at(a):
                        fs = (Fact('<initial>', True),) + tuple(facts)
                    out.append((a.value, fs))
                continue
        out.append((v, tuple(facts)))
    return out


def assigned_values(unit, target):
    """[(value node, facts, statement)] for the assignments to `target` (text); a value that is a local bound several
    times (a result variable) is replaced by what is assigned to that local, under the facts of both statements."""
    fm = factmap(unit)
    out = []
    for a in own_nodes(unit.node):
        if not (isinstance(a, ast.Assign) and len(a.targets) == 1 and ast.unparse(a.targets[0]) == target):
            continue
        v = a.value
        if isinstance(v, ast.Name):
            asg = [b for b in own_nodes(unit.node) if isinstance(b, (ast.Assign, ast.AnnAssign)) and b.value is not None
                   and any(isinstance(t, ast.Name) and t.id == v.id
                           for t in (b.targets if isinstance(b, ast.Assign) else [b.target]))]
            if len(asg) > 1:
                for b in asg:
                    seen = {tuple(f) for f in fm.at(b)}
                    out.append((b.value, tuple(fm.at(b)) + tuple(f for f in fm.at(a) if tuple(f) not in seen), b))
                continue
        out.append((v, tuple(fm.at(a)), a))
    return out


def removal_sites(unit, coll):
    """[(call, argument text, facts other than the membership test)] for the removals of an element from the collection
    `coll` (text): `coll.remove(e)`; sa.normalise spells `coll.discard(e)` as `if e in coll: coll.remove(e)`, so the
    fact `e in coll` at a removal only says that the removal is a tolerant one and is left out."""
    fm = factmap(unit)
    out = []
    for c in own_nodes(unit.node):
        if isinstance(c, ast.Call) and isinstance(c.func, ast.Attribute) and c.func.attr in ('remove', 'discard') \
                and ast.unparse(c.func.value) == coll and len(c.args) == 1:
            arg = ast.unparse(c.args[0])
            facts = {tuple(f) for f in fm.at(c)} - {('%s in %s' % (arg, coll), True)}
            out.append((c, arg, facts))
    return out


def own_calls(unit):
    return [n for n in own_nodes(unit.node) if isinstance(n, ast.Call)]


def call_text(call):
    return ast.unparse(call.func)


def statements(fn_node):
    """all statements of the function's own body, in source order."""
    out = []

    def walk(stmts):
        for st in stmts:
            out.append(st)
            if isinstance(st, (ast.FunctionDef, ast.AsyncFunctionDef, ast.ClassDef)):
                continue
            for fld in ('body', 'orelse', 'finalbody'):
                v = getattr(st, fld, None)
                if isinstance(v, list) and v and isinstance(v[0], ast.stmt):
                    walk(v)
            for h in getattr(st, 'handlers', []):
                walk(h.body)
    walk(fn_node.body)
    return out


def effects_outside(unit, text, pol=True):
    """the effectful simple statements of the function that are NOT dominated by the fact (text, pol): calls other than
    logging, stores to attributes / subscripts, returns of a value. Whatever the way the guard is written (enclosing
    if, guard clause with early return, hoisted condition), the answer is the same."""
    fm = factmap(unit)
    text, pol = cf(text, pol)
    out = []
    for st in statements(unit.node):
        if isinstance(st, (ast.If, ast.For, ast.While, ast.Try, ast.With, ast.FunctionDef, ast.ClassDef, ast.Pass,
                           ast.AsyncFunctionDef, ast.Import, ast.ImportFrom, ast.Global, ast.Nonlocal)):
            continue
        if isinstance(st, ast.Expr) and isinstance(st.value, ast.Constant):
            continue
        if isinstance(st, ast.Return) and st.value is None:
            continue
        calls = [c for c in ast.walk(st) if isinstance(c, ast.Call)]
        if isinstance(st, ast.Expr) and calls and all('logger' in ast.unparse(c.func).split('.') or c is not st.value
                                                      for c in calls) and 'logger' in ast.unparse(st.value.func).split('.'):
            continue
        stores = [t for t in ast.walk(st) if isinstance(t, (ast.Attribute, ast.Subscript)) and isinstance(t.ctx, ast.Store)]
        if not calls and not stores and not isinstance(st, (ast.Return, ast.Raise, ast.Delete)):
            continue        # a local computed from locals: no effect
        if not any(f[0] == text and f[1] == pol for f in fm.at(st)):
            out.append(st)
    return out


_UNKNOWN = object()


def const_value(e, env):
    """the value of expression e when the sub-expressions whose text is a key of env have that constant value; _UNKNOWN
    when e involves anything else (constant folding over comparisons, boolean operators and integer arithmetic)."""
    t = ast.unparse(e)
    if t in env:
        return env[t]
    if isinstance(e, ast.Constant):
        return e.value
    if isinstance(e, (ast.List, ast.Tuple, ast.Set)):
        vs = [const_value(x, env) for x in e.elts]
        return _UNKNOWN if any(v is _UNKNOWN for v in vs) else list(vs)
    if isinstance(e, ast.UnaryOp):
        v = const_value(e.operand, env)
        if v is _UNKNOWN:
            return v
        if isinstance(e.op, ast.Not):
            return not v
        if isinstance(e.op, ast.USub) and isinstance(v, (int, float)):
            return -v
        return _UNKNOWN
    if isinstance(e, ast.BoolOp):
        vs = [const_value(v, env) for v in e.values]
        if isinstance(e.op, ast.And):
            if any(v is not _UNKNOWN and not v for v in vs):
                return False
            return _UNKNOWN if any(v is _UNKNOWN for v in vs) else vs[-1]
        if any(v is not _UNKNOWN and v for v in vs):
            return True
        return _UNKNOWN if any(v is _UNKNOWN for v in vs) else vs[-1]
    if isinstance(e, ast.Compare):
        terms = [const_value(x, env) for x in [e.left] + list(e.comparators)]
        if any(v is _UNKNOWN for v in terms):
            return _UNKNOWN
        import operator as _o
        OPS = {ast.Eq: _o.eq, ast.NotEq: _o.ne, ast.Lt: _o.lt, ast.LtE: _o.le, ast.Gt: _o.gt, ast.GtE: _o.ge,
               ast.Is: _o.is_, ast.IsNot: _o.is_not, ast.In: lambda a, b: a in b, ast.NotIn: lambda a, b: a not in b}
        try:
            return all(OPS[type(op)](l, r) for l, op, r in zip(terms, e.ops, terms[1:]))
        except (KeyError, TypeError):
            return _UNKNOWN
    if isinstance(e, ast.BinOp) and isinstance(e.op, (ast.Add, ast.Sub, ast.Mult)):
        l, r = const_value(e.left, env), const_value(e.right, env)
        if isinstance(l, int) and isinstance(r, int):
            return {ast.Add: l + r, ast.Sub: l - r, ast.Mult: l * r}[type(e.op)]
    return _UNKNOWN


def enum_env(P, enum, var, member):
    """environment for holds_when: the expression `var` is the member `member` of the enumeration `enum`."""
    env = {'%s.%s' % (enum, m): m for m in P.enum_members(enum)}
    env[var] = member
    return env


def holds_when(facts, env):
    """True when every fact is satisfied once the expressions of env have their constant value, False when one is
    contradicted, None when one cannot be decided. Facts are (text, polarity) pairs."""
    res = True
    for f in facts:
        try:
            v = const_value(ast.parse(f[0], mode='eval').body, env)
        except SyntaxError:
            v = _UNKNOWN
        if v is _UNKNOWN:
            res = None if res else res
        elif bool(v) != bool(f[1]):
            return False
    return res


class PathLimit(Exception):
    pass


def all_paths(fn_node, limit=2000):
    """every acyclic path through the function's if/elif/else structure (loops, try and with are walked as
    straight-line bodies: for/while bodies are taken zero or one time) as (decisions, statements, exit) where
    decisions = [(test node, polarity)], statements = simple statements executed in order, exit = Return/Raise node
    or None for the fall-through."""
    out = []

    def walk(stmts, decs, done, cont):
        """cont(decs, done) continues after the block falls through."""
        if len(out) > limit:
            raise PathLimit()
        if not stmts:
            cont(decs, done)
            return
        st, rest = stmts[0], stmts[1:]
        if isinstance(st, (ast.Return, ast.Raise)):
            out.append((decs, done + [st], st))
            return
        if is_noreturn_call(st):
            out.append((decs, done + [st], st))
            return
        if isinstance(st, ast.If):
            walk(st.body, decs + [(st.test, True)], done, lambda d, s: walk(rest, d, s, cont))
            walk(st.orelse, decs + [(st.test, False)], done, lambda d, s: walk(rest, d, s, cont))
            return
        if isinstance(st, (ast.For, ast.AsyncFor, ast.While)):
            walk(rest, decs, done + [st], cont)                                           # zero iteration
            walk(st.body, decs, done + [st], lambda d, s: walk(rest, d, s, cont))         # one iteration
            return
        if isinstance(st, (ast.With, ast.AsyncWith)):
            walk(st.body, decs, done + [st], lambda d, s: walk(rest, d, s, cont))
            return
        if isinstance(st, ast.Try):
            walk(st.body + st.orelse + st.finalbody, decs, done, lambda d, s: walk(rest, d, s, cont))
            for h in st.handlers:
                walk(h.body + st.finalbody, decs, done + [h], lambda d, s: walk(rest, d, s, cont))
            return
        if isinstance(st, (ast.Continue, ast.Break)):
            cont(decs, done + [st])
            return
        walk(rest, decs, done + [st], cont)

    walk(list(fn_node.body), [], [], lambda d, s: out.append((d, s, None)))
    return out
