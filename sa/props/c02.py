"""C02 - Supvisors state only moves along the documented state graph."""
import ast
from ..model import own_nodes, AnalysisError
from ..paths import factmap
from ..fsm import Fsm, ORDER, WORKING, ENDING, MASTER_DRIVEN


def transitions_subscript(norm, e):
    """True when e (normalised) is `<x>._Transitions[<current state>]`."""
    txt = norm.text(e)
    return txt in ('self._Transitions[self.state]', 'self._Transitions[self.state_modes.state]',
                   'FiniteStateMachine._Transitions[self.state]',
                   'FiniteStateMachine._Transitions[self.state_modes.state]')


def table_guard_fact(fm, node, name):
    """is the fact `name in self._Transitions[self.state]` established at node?"""
    for f in fm.at(node):
        c = f.node
        if isinstance(c, ast.Compare) and len(c.ops) == 1 and isinstance(c.left, ast.Name) and c.left.id == name \
                and transitions_subscript(fm.norm, c.comparators[0]):
            if (isinstance(c.ops[0], ast.In) and f[0].count(' not in ') == 0 and f[1]) or \
                    (isinstance(c.ops[0], ast.NotIn) and ((' not in ' in f[0] and not f[1]) or
                                                          (' not in ' not in f[0] and f[1]))):
                return True
    return False


def run(P, R):
    fsm = Fsm(P)
    T = fsm.transitions
    members = fsm.members
    rank = {s: i for i, s in enumerate(ORDER)}
    rank['CONCILIATION'] = rank['OPERATION']        # OPERATION <-> CONCILIATION are siblings
    floc = fsm.cls.mod.relpath + ':%d' % fsm.trans_node.lineno

    # ---------------------------------------------------------------- R1
    r1 = R.rule('R1', 'table constraints',
                '_Transitions, read from the source, satisfies the documented graph: FINAL terminal; RESTARTING and '
                'SHUTTING_DOWN lead exactly to FINAL; the forward chain OFF>SYNCHRONIZATION>ELECTION>DISTRIBUTION>'
                'OPERATION<>CONCILIATION exists; any other edge is a return to OFF/SYNCHRONIZATION/ELECTION from a '
                'later state or an exit to RESTARTING/SHUTTING_DOWN from ELECTION or later; keys of _Transitions and '
                '_StateInstances are exactly the enum', 20)
    R.check(r1, set(T) == set(members), '_Transitions keys == SupvisorsStates', 'keys|_Transitions', floc,
            '_Transitions keys %s differ from the enum %s' % (sorted(T), sorted(members)))
    R.check(r1, set(fsm.instances) == set(members), '_StateInstances keys == SupvisorsStates', 'keys|_StateInstances',
            floc, '_StateInstances keys %s differ from the enum %s' % (sorted(fsm.instances), sorted(members)))
    for need in ('FINAL',) + tuple(ENDING) + tuple(ORDER):
        R.require(need in members, 'SupvisorsStates.%s not in the enum' % need)
    R.check(r1, not T.get('FINAL'), 'FINAL has no successor', 'FINAL|terminal', floc,
            'FINAL has successors %s: the terminal state can be left' % sorted(T.get('FINAL', ())))
    for e in ENDING:
        R.check(r1, T.get(e) == {'FINAL'}, '%s leads exactly to FINAL' % e, '%s|only-final' % e, floc,
                '%s leads to %s instead of exactly {FINAL}' % (e, sorted(T.get(e, ()))))
    chain = [('OFF', 'SYNCHRONIZATION'), ('SYNCHRONIZATION', 'ELECTION'), ('ELECTION', 'DISTRIBUTION'),
             ('DISTRIBUTION', 'OPERATION'), ('OPERATION', 'CONCILIATION'), ('CONCILIATION', 'OPERATION')]
    for a, b in chain:
        R.check(r1, b in T.get(a, ()), 'forward edge %s -> %s present' % (a, b), 'chain|%s|%s' % (a, b), floc,
                'documented edge %s -> %s is missing from _Transitions' % (a, b))
    for a in ORDER:
        for b in sorted(T.get(a, ())):
            if (a, b) in chain:
                continue
            if b in ('OFF', 'SYNCHRONIZATION', 'ELECTION') and rank[b] < rank[a]:
                R.ok(r1, 'edge %s -> %s is a documented return' % (a, b), floc)
            elif b in ENDING and rank[a] >= rank['ELECTION']:
                R.ok(r1, 'edge %s -> %s is a documented exit' % (a, b), floc)
            else:
                R.fail(r1, 'edge|%s|%s' % (a, b), floc,
                       'edge %s -> %s is neither on the forward chain, nor a return to OFF/SYNCHRONIZATION/ELECTION, '
                       'nor an exit to RESTARTING/SHUTTING_DOWN from ELECTION or later' % (a, b))

    # the documented relation (docs/ only draw it; frozen from the transition table of the documented release): an
    # edge added to the table is a way for the published state to move off the documented graph
    DOCUMENTED = {'OFF': {'SYNCHRONIZATION'}, 'SYNCHRONIZATION': {'OFF', 'ELECTION'},
                  'ELECTION': {'OFF', 'SYNCHRONIZATION', 'DISTRIBUTION', 'SHUTTING_DOWN'},
                  'DISTRIBUTION': {'OFF', 'ELECTION', 'OPERATION', 'RESTARTING', 'SHUTTING_DOWN'},
                  'OPERATION': {'OFF', 'SYNCHRONIZATION', 'ELECTION', 'CONCILIATION', 'RESTARTING', 'SHUTTING_DOWN'},
                  'CONCILIATION': {'OFF', 'SYNCHRONIZATION', 'OPERATION', 'RESTARTING', 'SHUTTING_DOWN'},
                  'RESTARTING': {'FINAL'}, 'SHUTTING_DOWN': {'FINAL'}, 'FINAL': set()}
    for a in members:
        extra = sorted(T.get(a, set()) - DOCUMENTED.get(a, set()))
        R.check(r1, not extra, 'no undocumented edge out of %s' % a, 'undocumented|%s|%s' % (a, ','.join(extra)), floc,
                '_Transitions[%s] admits %s, which the documented graph does not: the published state can move along '
                'an undocumented edge' % (a, extra))

    # ---------------------------------------------------------------- R2
    r2 = R.rule('R2', 'ownership + dominance',
                'the local FSM state (SupvisorsStateModes.state setter) is assigned outside statemodes.py only in '
                'FiniteStateMachine.set_state, with the value tested `in self._Transitions[self.state]` on every path '
                'to the assignment; the per-instance StateModes.state field is written only by StateModes.__init__/'
                'update and the SupvisorsStateModes.state setter', 3)
    SSM, SM = P.cls('SupvisorsStateModes'), P.cls('StateModes')
    set_state = P.unit('FiniteStateMachine.set_state')
    P.unit('SupvisorsStateModes.state[set]')
    n_local = n_field = 0
    for u in P.all_units():
        env = None
        for n in own_nodes(u.node):
            if not (isinstance(n, ast.Attribute) and isinstance(n.ctx, ast.Store) and n.attr == 'state'):
                continue
            env = env or P.env(u, u.cls)
            t = env.typeof(n.value)
            rtxt = ast.unparse(n.value)
            is_ssm = (t and t[0] == 'inst' and t[1] is SSM) or (t is None and rtxt.split('.')[-1] == 'state_modes')
            is_sm = (t and t[0] == 'inst' and t[1] is SM) or \
                    (t is None and rtxt.split('.')[-1] in ('local_state_modes', 'master_state_modes'))
            if is_ssm:
                n_local += 1
                st = factmap(u).stmt_of.get(id(n)) or next(s for s in own_nodes(u.node) if isinstance(s, ast.Assign)
                                                          and n in s.targets)
                if u is not set_state:
                    R.fail(r2, 'writer|%s' % u.qual, u.loc(n),
                           '%s assigns the local Supvisors state directly, bypassing the transition table test of '
                           'FiniteStateMachine.set_state' % u.qual)
                    continue
                asg = next((s for s in own_nodes(u.node) if isinstance(s, ast.Assign) and n in s.targets), None)
                ok = asg is not None and isinstance(asg.value, ast.Name) and \
                    table_guard_fact(factmap(u), asg, asg.value.id)
                R.check(r2, ok, 'set_state assigns the state only under `next_state in _Transitions[state]`',
                        'guard|FiniteStateMachine.set_state', u.loc(n),
                        'the assignment of the Supvisors state in set_state is not dominated by the refusal of a '
                        'value outside self._Transitions[self.state]')
            elif is_sm:
                n_field += 1
                allowed = (u.cls is SM and u.name in ('__init__', 'update')) or u.qual == 'SupvisorsStateModes.state[set]'
                R.check(r2, allowed, 'StateModes.state written by %s' % u.qual, 'field-writer|%s' % u.qual, u.loc(n),
                        '%s writes the FSM state field of a StateModes object (only StateModes.__init__/update and '
                        'the SupvisorsStateModes.state setter may)' % u.qual)
    R.require(n_local >= 1, 'no assignment to state_modes.state found (set_state anchor vanished)')
    R.require(n_field >= 3, 'fewer than 3 writes of StateModes.state found')
    # the setter itself must store what it is given
    setter = P.unit('SupvisorsStateModes.state[set]')
    arg = setter.node.args.args[1].arg
    stores = [s for s in own_nodes(setter.node) if isinstance(s, ast.Assign) and
              ast.unparse(s.targets[0]).endswith('.state')]
    R.check(r2, len(stores) == 1 and isinstance(stores[0].value, ast.Name) and stores[0].value.id == arg,
            'the state setter stores its argument unchanged', 'setter|identity', setter.loc(),
            'SupvisorsStateModes.state setter does not store exactly the value it is given')

    # ---------------------------------------------------------------- R4
    r4 = R.rule('R4', 'decision-site facts',
                'every decision of a Master-driven state (DISTRIBUTION, OPERATION, CONCILIATION, RESTARTING, '
                'SHUTTING_DOWN) is a follow of the Master state, or is taken in a _master_* method, or under the '
                'fact is_master(), or under the fact master_state == that state (the Master is already there)', 8)
    seen = set()
    for st in members:
        d, sites = fsm.decisions(st)
        for x in sorted(v for v in d if v in MASTER_DRIVEN and v != st):
            for unit, node in sorted(sites.get(x, ()), key=lambda s: (s[0].qual, s[1].lineno)):
                if (unit, id(node), x) in seen:
                    continue
                seen.add((unit, id(node), x))
                fm = factmap(unit)
                facts = fm.at(node)
                ok = unit.name.startswith('_master_')
                ok = ok or any(f[1] and f[0] == 'self.state_modes.is_master()' for f in facts)
                ok = ok or any(f[1] and f[0] == 'self.state_modes.master_state == SupvisorsStates.%s' % x for f in facts)
                R.check(r4, ok, '%s decides %s under Master authority' % (unit.qual, x),
                        'local-decision|%s|%s' % (unit.qual, x), unit.loc(node),
                        '%s decides the Master-driven state %s from purely local information (no is_master()/'
                        'check_master() fact, not in a _master_* method, not a follow of the Master state): an '
                        'instance can enter %s before or without its Master' % (unit.qual, x, x))
    for qual in ('FiniteStateMachine.on_restart', 'FiniteStateMachine.on_shutdown'):
        u = P.unit(qual)
        fm = factmap(u)
        for c in own_nodes(u.node):
            if isinstance(c, ast.Call) and ast.unparse(c.func) == 'self.set_state':
                R.check(r4, fm.has(c, 'self.state_modes.is_master()', True),
                        '%s enters the ending state only as Master' % qual, 'direct|%s' % qual, u.loc(c),
                        '%s calls set_state without the fact is_master()' % qual)
    # slaves follow: _slave_next of the base returns the Master state
    u = P.unit('_MasterSlaveState._slave_next')
    d, _ = fsm.method_returns('OPERATION', '_slave_next')
    R.check(r4, d == {'MASTER_STATE'}, 'a Slave in a working state returns exactly the Master state',
            'slave-follow|_MasterSlaveState._slave_next', u.loc(),
            '_slave_next of a working state can return %s instead of following the Master state' %
            sorted(str(x) for x in d))
    # ---------------------------------------------------------------- R5
    r5 = R.rule('R5', 'who the Master can be (shared with C01)', 'a Master-driven state is entered with a known Master that '
                'the instance sees RUNNING: the recognised Master is only chosen among RUNNING candidates (declared '
                'Masters of RUNNING instances first, core identifiers restricted to those candidates, lowest nick), it is '
                'forgotten when it leaves RUNNING, and the election only happens on a stable context (all RUNNING '
                'instances report the same set)', 8)
    from .c01 import rule_master, rule_stability
    rule_master(P, R, r5)
    rule_stability(P, R, r5)
    R.assume('Decision sets are computed over the return statements of next() and the helpers it calls through self./'
             'super(); values flowing through instance attributes are not tracked (none do on the analysed tree; an '
             'unknown return expression is an analysis error).')
