"""C13 - Isolation is permanent, reciprocal and airtight (structural clauses)."""
import ast
from ..model import own_nodes, AnalysisError
from ..paths import effects_outside, ctext, factmap, call_text, returns, must_call
from ..typestate import InstanceTypestate
from ..absval import EnumEval

PRE_FILTER = {'DISCOVERY': 'creates the instance: nothing to validate yet',
              'IDENTIFICATION': 're-guarded by is_checking(timestamp) in Context.on_identification_event (R4)'}
ACCEPTED = ('status.state in [SupvisorsInstanceStates.CHECKED, SupvisorsInstanceStates.RUNNING]', True)


def rule_origin_filter(P, R, rid):
    """every handler call of read_publication / read_notification is dominated by the origin filter."""
    n = 0
    for q, enum in (('SupervisorListener.read_publication', 'PublicationHeaders'),
                    ('SupervisorListener.read_notification', 'NotificationHeaders')):
        u = P.unit(q)
        fm = factmap(u)
        sdef = [a for a in own_nodes(u.node) if isinstance(a, (ast.Assign, ast.AnnAssign)) and
                ast.unparse(a.targets[0] if isinstance(a, ast.Assign) else a.target) == 'status']
        ok = len(sdef) == 1 and ast.unparse(sdef[0].value) == 'self.supvisors.context.is_valid(*event_origin)'
        R.check(rid, ok, '%s validates the claimed origin with Context.is_valid' % q, 'filter|%s|source' % q, u.loc(),
                '%s does not compute `status` as context.is_valid(*event_origin)' % q)
        members = P.enum_members(enum)
        seen = set()
        for c in own_nodes(u.node):
            if not isinstance(c, ast.Call):
                continue
            t = call_text(c)
            if not (t.startswith('self.fsm.') or t in ('self.on_host_statistics', 'self.on_process_statistics')):
                continue
            hdr = [f[0].split('.')[-1] for f in fm.at(c) if f[1] and f[0].startswith('header == %s.' % enum)]
            h = hdr[0] if hdr else '?'
            seen.add(h)
            n += 1
            filtered = fm.has(c, 'status', True)
            if not filtered and h in PRE_FILTER and enum == 'NotificationHeaders':
                R.ok(rid, '%s: %s handled before the filter (%s)' % (q, h, PRE_FILTER[h]), u.loc(c))
                continue
            R.check(rid, filtered, '%s: %s handler is behind the origin filter' % (q, h), 'filter|%s|%s' % (q, h),
                    u.loc(c), '%s calls %s for %s without the fact "is_valid() returned a status": a message from an '
                    'isolated or unknown origin reaches the handler' % (q, t, h))
            if t.startswith('self.fsm.') and c.args:
                first = ast.unparse(c.args[0])
                passes_status = first == 'status' or t in ('self.fsm.on_discovery_event', 'self.fsm.on_identification_event')
                R.check(rid, passes_status, '%s: %s handler receives the validated status' % (q, h),
                        'filter|%s|%s|arg' % (q, h), u.loc(c), '%s hands `%s` to %s instead of the validated status' %
                        (q, first, t))
        missing = sorted(set(members) - seen - ({'DISCOVERY'} if False else set()))
        R.check(rid, not missing, '%s has a branch for every %s member' % (q, enum), 'filter|%s|missing' % q, u.loc(),
                '%s has no handler branch for %s' % (q, missing))
    R.require(n >= 12, 'only %d handler calls found in read_publication / read_notification' % n)
    iv = P.unit('Context.is_valid')
    rs = [(v, {tuple(f) for f in facts}) for v, facts, nn in returns(iv) if v is not None and not isinstance(v, ast.Constant)]
    ok = len(rs) == 1 and ast.unparse(rs[0][0]) == 'status' and \
        {('status.isolated', False), ('status.supvisors_id.is_valid(ipv4_address)', True),
         ('len(identifiers) == 1', True)} <= rs[0][1]
    R.check(rid, ok, 'is_valid() returns a status only if unique, not isolated and the address matches',
            'filter|is_valid', iv.loc(), 'Context.is_valid returns a status under %s' % [sorted(x[1]) for x in rs])
    defs = {a.targets[0].id: ast.unparse(a.value) for a in own_nodes(iv.node) if isinstance(a, ast.Assign)
            and isinstance(a.targets[0], ast.Name)}
    ok = defs.get('identifiers') == 'self.mapper.filter([identifier, nick_identifier])' and \
        defs.get('status') == 'self.instances[identifiers[0]]'
    R.check(rid, ok, 'the origin is resolved from the claimed identifier and nick identifier', 'filter|is_valid-resolve',
            iv.loc(), 'Context.is_valid resolves the origin with %s' % defs)


def rule_consumer_guards(P, R, rid):
    """state guards in the consumers of process events and handshake notifications."""
    for q in ('Context.on_process_state_event', 'Context.on_process_removed_event',
              'Context.on_process_disability_event'):
        u = P.unit(q)
        fm = factmap(u)
        out = effects_outside(u, *ACCEPTED)
        R.check(rid, not out, '%s acts only for a CHECKED or RUNNING sender' % q, 'accept|%s' % q,
                u.loc(out[0]) if out else u.loc(),
                '%s is not entirely under `status.state in [CHECKED, RUNNING]`: events of a peer that did not pass the '
                'handshake are taken into account (%s)' % (q, '; '.join(ast.unparse(x)[:60] for x in out[:2])))
    u = P.unit('Context.on_authorization')
    fm = factmap(u)
    eff = [n for n in own_nodes(u.node) if (isinstance(n, ast.Assign) and ast.unparse(n.targets[0]) == 'status.state')
           or (isinstance(n, ast.Call) and call_text(n) == 'self.invalidate')]
    ok = len(eff) >= 4 and all(fm.has(n, 'status.is_checking(timestamp)', True) for n in eff)
    R.check(rid, ok, 'an authorization is only applied to a peer still CHECKING since before the message',
            'accept|Context.on_authorization', u.loc(), 'Context.on_authorization changes the instance state without '
            'the fact is_checking(timestamp): a stale or duplicated authorization is applied')
    ts = [a for a in own_nodes(u.node) if isinstance(a, ast.Assign) and 'timestamp' in ast.unparse(a.targets[0])]
    ok = any("event['now_monotonic']" in ast.unparse(a.value) for a in ts)
    R.check(rid, ok, 'the timestamp tested is the one of the message', 'accept|on_authorization-timestamp', u.loc(),
            'on_authorization does not take the timestamp from event[now_monotonic]')
    ci = P.unit('SupervisorProxy.check_instance')
    body = [x for x in ci.node.body if not (isinstance(x, ast.Expr) and isinstance(x.value, ast.Constant))]
    tdef = [a for a in own_nodes(ci.node) if isinstance(a, ast.Assign) and ast.unparse(a.targets[0]) == 'timestamp']
    stamp = [v for d in own_nodes(ci.node) if isinstance(d, ast.Dict) for k, v in zip(d.keys, d.values)
             if isinstance(k, ast.Constant) and k.value == 'now_monotonic']
    ok = len(tdef) == 1 and body and body[0] is tdef[0] and ast.unparse(tdef[0].value) == 'time.monotonic()' and \
        len(stamp) == 1 and ast.unparse(stamp[0]) == 'timestamp' and \
        any(isinstance(c, ast.Call) and call_text(c) == 'self._transfer_network_info' and
            [ast.unparse(a) for a in c.args] == ['timestamp'] for c in own_nodes(ci.node))
    R.check(rid, ok, 'handshake results carry the time at which the handshake STARTED', 'accept|handshake-timestamp',
            ci.loc(), 'check_instance does not stamp its notifications with the monotonic time taken before the first '
            'XML-RPC: a result obtained across a new CHECKING entry passes the is_checking() guard')
    from . import shared
    shared.handshake_order(P, R, rid)
    from .c12 import rule_snapshot_when_authorized
    rule_snapshot_when_authorized(P, R, rid)
    shared.discovery_eligibility(P, R, rid)
    u = P.unit('Context.on_identification_event')
    fm = factmap(u)
    idc = [c for c in own_nodes(u.node) if isinstance(c, ast.Call) and call_text(c) == 'self.mapper.identify']
    # (closed form: the status is the entry of the sender, looked up with [] or .get(), and the date that of the event)
    fcl = {(f[0], f[1]) for f in fm.closed(idc[0])} if len(idc) == 1 else set()
    ok = len(idc) == 1 and bool(fcl & {
        ("self.instances[event['identifier']].is_checking(event['now_monotonic'])", True),
        ("self.instances.get(event['identifier']).is_checking(event['now_monotonic'])", True)})
    R.check(rid, ok, 'an identification is only applied to a peer still CHECKING', 'accept|on_identification_event',
            u.loc(), 'on_identification_event calls mapper.identify without the fact is_checking(timestamp)')
    ic = P.unit('SupvisorsInstanceStatus.is_checking')
    rs = [ctext(v) for v, f, n in returns(ic) if v is not None]
    R.check(rid, rs == [ctext('self.state == SupvisorsInstanceStates.CHECKING and timestamp > self.checking_time')],
            'is_checking = CHECKING and message later than the entry in CHECKING', 'accept|is_checking', ic.loc(),
            'is_checking returns %s' % rs)
    st = P.unit('SupvisorsInstanceStatus.state[set]')
    fm = factmap(st)
    ct = [a for a in own_nodes(st.node) if isinstance(a, ast.Assign) and ast.unparse(a.targets[0]) == 'self.checking_time']
    ok = len(ct) == 1 and fm.has(ct[0], 'new_state == SupvisorsInstanceStates.CHECKING', True) and \
        ast.unparse(ct[0].value) == 'time.monotonic()'
    R.check(rid, ok, 'the CHECKING entry date is recorded at each entry', 'accept|checking_time', st.loc(),
            'the state setter does not stamp checking_time when entering CHECKING')
    u = P.unit('Context.load_processes')
    fm = factmap(u)
    sp = [c for c in own_nodes(u.node) if isinstance(c, ast.Call) and call_text(c) == 'self.setdefault_process']
    ok = len(sp) == 1 and any(f[1] and f[0] == 'not check_state or status.state == SupvisorsInstanceStates.CHECKING'
                              for f in fm.at(sp[0]))
    R.check(rid, ok, 'a process snapshot is loaded only from a CHECKING peer (or an already accepted one)',
            'accept|load_processes', u.loc(), 'load_processes loads process information without `not check_state or '
            'state == CHECKING`')
    u = P.unit('FiniteStateMachine.on_all_process_info')
    c = [x for x in own_nodes(u.node) if isinstance(x, ast.Call) and call_text(x) == 'self.context.load_processes']
    ok = len(c) == 1 and len(c[0].args) == 2 and not c[0].keywords
    R.check(rid, ok, 'the handshake snapshot is loaded with the state check on', 'accept|on_all_process_info', u.loc(),
            'on_all_process_info disables check_state')
    u = P.unit('FiniteStateMachine.on_process_added_event')
    c = [x for x in own_nodes(u.node) if isinstance(x, ast.Call) and call_text(x) == 'self.context.load_processes']
    R.check(rid, len(c) == 1, 'process-added events reuse load_processes', 'accept|on_process_added_event', u.loc(),
            'on_process_added_event does not call load_processes')


def run(P, R):
    ts = InstanceTypestate(P)

    # ---------------------------------------------------------------- R1
    r1 = R.rule('R1', 'table + guarded single writer', 'ISOLATED is final: its row in _Transitions is empty, and _state '
                'is only written by the setter behind check_transition (and __init__)', 3)
    R.check(r1, ts.T['ISOLATED'] == set(), 'ISOLATED has no successor', 'final|row', ts.cls.mod.relpath,
            '_Transitions[ISOLATED] = %s: an isolated instance can come back' % sorted(ts.T['ISOLATED']))
    into = sorted(s for s, v in ts.T.items() if 'ISOLATED' in v)
    R.check(r1, into == ['CHECKING', 'FAILED'], 'ISOLATED is entered only from CHECKING (handshake) or FAILED (fencing)',
            'final|into', ts.cls.mod.relpath, 'ISOLATED can be entered from %s' % into)
    writers = set()
    for u in P.all_units():
        for x in own_nodes(u.node):
            if isinstance(x, ast.Attribute) and isinstance(x.ctx, ast.Store) and x.attr == '_state':
                t = P.env(u, u.cls).typeof(x.value)
                if (t and t[0] == 'inst' and t[1] is ts.cls) or (t is None and u.cls is ts.cls):
                    writers.add(u.qual)
    R.check(r1, writers == {'SupvisorsInstanceStatus.__init__', 'SupvisorsInstanceStatus.state[set]'},
            '_state has no raw writer', 'final|writers', ts.cls.mod.relpath, '_state is written by %s' % sorted(writers))

    # ---------------------------------------------------------------- R2
    r2 = R.rule('R2', 'must-pass-through', 'in read_publication every handler call, and in read_notification every '
                'handler call but the two listed pre-filter headers (DISCOVERY, IDENTIFICATION), is dominated by the '
                'fact "Context.is_valid(*event_origin) returned a status" and receives that status; is_valid returns a '
                'status only for a unique, non-isolated origin whose address matches', 16)
    rule_origin_filter(P, R, r2)

    # ---------------------------------------------------------------- R3
    r3 = R.rule('R3', 'who-may-construct / who-may-call', 'nothing is sent to an isolated peer: get_proxy creates a proxy '
                'only under `not status.isolated` and stops an existing one under `status.isolated`; push_message is only '
                'called on the truthiness-tested result of get_proxy; proxy threads are constructed nowhere else', 6)
    gp = P.unit('SupervisorProxyServer.get_proxy')
    fm = factmap(gp)
    mk = [c for c in own_nodes(gp.node) if isinstance(c, ast.Call) and call_text(c) == 'self.klass']
    ok = len(mk) == 1 and {('proxy', False), ('status.isolated', False)} <= {tuple(f) for f in fm.at(mk[0])}
    R.check(r3, ok, 'a proxy is created only for a non-isolated peer', 'proxy|create', gp.loc(),
            'get_proxy creates a proxy under %s' % [sorted(tuple(f) for f in fm.at(c)) for c in mk])
    stp = [c for c in own_nodes(gp.node) if isinstance(c, ast.Call) and call_text(c) == 'proxy.stop']
    nul = [a for a in own_nodes(gp.node) if isinstance(a, ast.Assign) and ast.unparse(a.targets[0]) == 'proxy'
           and isinstance(a.value, ast.Constant) and a.value.value is None]
    ok = len(stp) == 1 and len(nul) == 1 and {('proxy', True), ('status.isolated', True)} <= {tuple(f) for f in fm.at(stp[0])} \
        and {tuple(f) for f in fm.at(nul[0])} == {tuple(f) for f in fm.at(stp[0])}
    R.check(r3, ok, 'the proxy of an isolated peer is stopped and no longer handed out', 'proxy|stop', gp.loc(),
            'get_proxy does not stop and forget the proxy of an isolated peer')
    sdef = [a for a in own_nodes(gp.node) if isinstance(a, (ast.Assign, ast.AnnAssign)) and
            ast.unparse(a.targets[0] if isinstance(a, ast.Assign) else a.target) == 'status']
    R.check(r3, len(sdef) == 1 and ast.unparse(sdef[0].value) == 'self.supvisors.context.instances[identifier]',
            'the isolation status is the one of the requested peer', 'proxy|status', gp.loc(),
            'get_proxy reads the status from %s' % [ast.unparse(a.value) for a in sdef])
    n = 0
    for u in P.all_units():
        fmu = None
        for c in own_nodes(u.node):
            if isinstance(c, ast.Call) and isinstance(c.func, ast.Attribute) and c.func.attr == 'push_message':
                n += 1
                fmu = fmu or factmap(u)
                recv = ast.unparse(c.func.value)
                src = [ast.unparse(a.value) for a in own_nodes(u.node) if isinstance(a, ast.Assign)
                       and ast.unparse(a.targets[0]) == recv]
                ok = u.cls is not None and u.cls.name == 'SupervisorProxyServer' and \
                    all(s.startswith('self.get_proxy(') for s in src) and bool(src) and fmu.has(c, recv, True)
                R.check(r3, ok, '%s pushes only to a proxy obtained from get_proxy' % u.qual, 'push|%s' % u.qual, u.loc(c),
                        '%s calls push_message on `%s` (from %s) without it being the tested result of get_proxy()' %
                        (u.qual, recv, src))
    R.require(n >= 3, 'only %d push_message call sites found' % n)
    for u in P.all_units():
        for c in own_nodes(u.node):
            if isinstance(c, ast.Call) and call_text(c) in ('SupervisorProxyThread', 'SupervisorProxy') and \
                    u.mod.short != 'supervisorproxy':
                R.fail(r3, 'foreign-proxy|%s' % u.qual, u.loc(c), '%s constructs a Supervisor proxy outside the proxy '
                       'server' % u.qual)
    pp = P.unit('SupervisorProxyServer.push_publication')
    fm = factmap(pp)
    pm = [c for c in own_nodes(pp.node) if isinstance(c, ast.Call) and call_text(c) == 'proxy.push_message']
    ok = len(pm) == 1 and fm.has(pm[0], 'identifier == self.local_identifier', False) and \
        any(isinstance(l, ast.For) and ast.unparse(l.iter) == 'self.supvisors.mapper.instances' for l in own_nodes(pp.node))
    R.check(r3, ok, 'a publication goes to every known peer but the local one (through get_proxy)', 'push|publication',
            pp.loc(), 'push_publication does not iterate all mapper instances except the local one')
    pub = P.unit('SupervisorProxy.publish')
    fm = factmap(pub)
    sd = [c for c in own_nodes(pub.node) if isinstance(c, ast.Call) and call_text(c) == 'self.send_remote_comm_event']
    ok = len(sd) == 1 and any(f[1] and f[0] == 'publication_type == PublicationHeaders.TICK or '
                              'self.status.has_active_state()' for f in fm.at(sd[0]))
    R.check(r3, ok, 'only TICKs are sent to a peer that is not active', 'push|active', pub.loc(),
            'SupervisorProxy.publish sends under %s' % [sorted(tuple(f) for f in fm.at(c)) for c in sd])

    run = P.unit('SupervisorProxyThread.run')
    loops = [l for l in run.node.body if isinstance(l, ast.While)]
    pe = [c for c in own_nodes(run.node) if isinstance(c, ast.Call) and call_text(c) == 'self.process_event']
    ok = len(loops) == 1 and ast.unparse(loops[0].test) == 'not self.stop_event.is_set()' and len(pe) == 1 and \
        any(x is pe[0] for x in ast.walk(loops[0]))
    R.check(r3, ok, 'a stopped proxy processes no further queued message', 'proxy|run-loop', run.loc(),
            'SupervisorProxyThread.run keeps processing messages after stop() (loop test `%s`): what is queued for a peer '
            'is still sent after it has been isolated' % (ast.unparse(loops[0].test) if loops else '?'))

    # ---------------------------------------------------------------- R4
    r4 = R.rule('R4', 'consumer guards', 'process state / removal / disability events are entirely under `status.state in '
                '[CHECKED, RUNNING]`; authorization and identification effects are under is_checking(message '
                'timestamp); the handshake snapshot is loaded only under `not check_state or state == CHECKING`', 10)
    rule_consumer_guards(P, R, r4)

    # ---------------------------------------------------------------- R5
    r5 = R.rule('R5', 'dispatch effects', 'handshake verdicts: _is_authorized answers NOT_AUTHORIZED when the peer reports '
                'the local instance ISOLATED, INCONSISTENT when its get_strategies() payload differs; get_strategies '
                'reads exactly auto_fence and the starting / conciliation / supvisors_failure strategies; '
                'on_authorization maps both verdicts to invalidate(status, True), which assigns ISOLATED for a remote '
                'peer; the dispatch is exhaustive over AuthorizationTypes', 7)
    ia = P.unit('SupervisorProxy._is_authorized')
    rs = [(ast.unparse(v).split('.')[-1], {tuple(f) for f in facts}) for v, facts, n in returns(ia) if v is not None]
    na = [fs for k, fs in rs if k == 'NOT_AUTHORIZED']
    ok = any(('instance_state == SupvisorsInstanceStates.ISOLATED', True) in fs for fs in na)
    R.check(r5, ok, 'a peer that isolated the local instance is not authorized', 'verdict|isolated', ia.loc(),
            '_is_authorized does not return NOT_AUTHORIZED under `instance_state == ISOLATED`')
    defs = {a.targets[0].id: ast.unparse(a.value) for a in own_nodes(ia.node) if isinstance(a, ast.Assign)
            and isinstance(a.targets[0], ast.Name)}
    ok = defs.get('state') == "local_status_payload[0]['statecode']" and \
        defs.get('instance_state') == 'SupvisorsInstanceStates(state)' and \
        'self.proxy.supvisors.get_instance_info' in defs.get('local_status_payload', '') and \
        '(self.local_identifier,)' in defs.get('local_status_payload', '')
    R.check(r5, ok, 'the state tested is the remote view of the LOCAL instance', 'verdict|remote-view', ia.loc(),
            '_is_authorized does not read the state of the local instance as seen by the peer (%s)' %
            {k: defs.get(k) for k in ('state', 'instance_state', 'local_status_payload')})
    inc = [fs for k, fs in rs if k == 'INCONSISTENT']
    ok = len(inc) == 1 and ('RPCInterface(self.supvisors).get_strategies() == strategies_payload', False) in inc[0] and \
        'self.proxy.supvisors.get_strategies' in defs.get('strategies_payload', '')
    R.check(r5, ok, 'differing strategies make the peer INCONSISTENT', 'verdict|inconsistent', ia.loc(),
            '_is_authorized does not return INCONSISTENT exactly when the remote get_strategies() differs from the '
            'local one')
    auth = [fs for k, fs in rs if k == 'AUTHORIZED']
    ok = len(auth) == 1 and {('local_status_payload is None', False),
                             ('instance_state == SupvisorsInstanceStates.ISOLATED', False),
                             ('RPCInterface(self.supvisors).get_strategies() == strategies_payload', True)} <= auth[0]
    R.check(r5, ok, 'AUTHORIZED only after both checks passed', 'verdict|authorized', ia.loc(),
            '_is_authorized returns AUTHORIZED under %s' % [sorted(x) for x in auth])
    gs = P.unit('RPCInterface.get_strategies')
    opts = sorted({n.attr for n in own_nodes(gs.node) if isinstance(n, ast.Attribute) and
                   ast.unparse(n.value) in ('options', 'self.supvisors.options')})
    R.check(r5, opts == ['auto_fence', 'conciliation_strategy', 'starting_strategy', 'supvisors_failure_strategy'],
            'get_strategies compares auto_fence and the three strategies', 'verdict|get_strategies', gs.loc(),
            'RPCInterface.get_strategies reads options %s' % opts)
    oa = P.unit('Context.on_authorization')
    fm = factmap(oa)
    ev = EnumEval(P, 'AuthorizationTypes')
    members = P.enum_members('AuthorizationTypes')
    R.require(sorted(members) == ['AUTHORIZED', 'INCONSISTENT', 'NOT_AUTHORIZED', 'UNKNOWN'],
              'AuthorizationTypes members changed: %s' % members)
    inv = [c for c in own_nodes(oa.node) if isinstance(c, ast.Call) and call_text(c) == 'self.invalidate']
    got = set()
    for c in inv:
        ks = [f[0].split('.')[-1] for f in fm.at(c) if f[1] and f[0].startswith('authorization == AuthorizationTypes.')]
        if len(ks) == 1 and [ast.unparse(a) for a in c.args] == ['status', 'True']:
            got.add(ks[0])
    R.check(r5, got == {'NOT_AUTHORIZED', 'INCONSISTENT'}, 'both refusals isolate the peer (fence=True)',
            'verdict|isolate', oa.loc(), 'on_authorization calls invalidate(status, True) for %s' % sorted(got))
    checked = [a for a in own_nodes(oa.node) if isinstance(a, ast.Assign) and ast.unparse(a.targets[0]) == 'status.state'
               and ts.ev.const(a.value) == 'CHECKED']
    neg = {('authorization == AuthorizationTypes.%s' % m, False) for m in ('UNKNOWN', 'NOT_AUTHORIZED', 'INCONSISTENT')}
    ok = len(checked) == 1 and neg <= {tuple(f) for f in fm.at(checked[0])}
    R.check(r5, ok, 'CHECKED only for the remaining verdict (AUTHORIZED)', 'verdict|checked', oa.loc(),
            'on_authorization assigns CHECKED under %s' % [sorted(tuple(f) for f in fm.at(a)) for a in checked])
    bad = [a for a in own_nodes(oa.node) if isinstance(a, ast.Assign) and ast.unparse(a.targets[0]) == 'authorization'
           and isinstance(a.value, ast.Attribute)]
    ok = len(bad) == 1 and ast.unparse(bad[0].value) == 'AuthorizationTypes.NOT_AUTHORIZED'
    R.check(r5, ok, 'an unknown authorization code is treated as NOT_AUTHORIZED', 'verdict|unknown-code', oa.loc(),
            'on_authorization maps an unknown code to %s' % [ast.unparse(a.value) for a in bad])
    R.assume('Non-interference over all later message sequences beyond these guards, and the real answer of the remote '
             'peer, are NOT decided. A TICK or request already queued when the peer becomes ISOLATED is still '
             'delivered before get_proxy stops the thread (race between two threads, not decided).')
