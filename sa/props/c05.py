"""C05 - Conflicts are detected and conciliated exactly as the strategy says (structural clauses)."""
import ast
from ..model import own_nodes, AnalysisError
from ..defuse import comp_view, cond_atoms, closed_text
from ..paths import factmap, call_text, returns, must_call
from ..callgraph import CallGraph
from ..absval import EnumEval
from ..fsm import Fsm
from . import shared

TABLE = {'SENICIDE': 'SenicideStrategy', 'INFANTICIDE': 'InfanticideStrategy', 'USER': 'UserStrategy',
         'STOP': 'StopStrategy', 'RESTART': 'RestartStrategy', 'RUNNING_FAILURE': 'FailureStrategy'}
IDLE = {('self.supvisors.starter.in_progress()', False), ('self.supvisors.stopper.in_progress()', False)}
ACTIONS = {'self.supvisors.stopper.stop_process', 'self.supvisors.stopper.default_restart_process',
           'self.supvisors.stopper.restart_process', 'self.supvisors.failure_handler.add_default_job',
           'self.supvisors.failure_handler.add_job', 'self.supvisors.stopper.stop_application',
           'self.supvisors.starter.start_process', 'self.supvisors.starter.default_start_process'}


def _managed_helper_ok(P):
    """Context.get_managed_applications returns exactly the applications whose rules are managed."""
    u = P.unit('Context.get_managed_applications')
    rs = [v for v, f, n in returns(u) if v is not None]
    cv = comp_view(u, rs[0]) if len(rs) == 1 else None
    E = 'each(self.applications.items())'
    return cv is not None and cv['kind'] == 'dict' and cv['iters'] == ['self.applications.items()'] and \
        cv['elt'] == (E + '[0]', E + '[1]') and cv['conds'] == {(E + '[1].rules.managed', True)}


def rule_conflict_scan(P, R, r1):
    """conflicting() and conflicts() scan the same set: every process of every MANAGED application (shared with C08:
    a difference between the two parks the Master in CONCILIATION with nothing to conciliate)."""
    for q in ('Context.conflicting', 'Context.conflicts'):
        u = P.unit(q)
        comps = [c for c in own_nodes(u.node) if isinstance(c, (ast.GeneratorExp, ast.ListComp))]
        ok = False
        A = 'each(self.applications.values())'
        PR = 'each(%s.processes.values())' % A
        for c in comps:
            cv = comp_view(u, c)        # closed form: independent of binder names and of `if` vs `and` placement
            whole = cv['conds'] | cond_atoms([ast.parse(cv['elt'], mode='eval').body]) if isinstance(cv['elt'], str) \
                else cv['conds']
            if cv['iters'] == ['self.applications.values()', A + '.processes.values()'] and \
                    (A + '.rules.managed', True) in whole and \
                    ((PR + '.conflicting()', True) in whole or cv['elt'] == PR):
                ok = True
            # or through the helper that selects the managed applications (its definition is checked below)
            A2 = 'each(self.get_managed_applications().values())'
            PR2 = 'each(%s.processes.values())' % A2
            if cv['iters'] == ['self.get_managed_applications().values()', A2 + '.processes.values()'] and \
                    ((PR2 + '.conflicting()', True) in whole or cv['elt'] == PR2) and _managed_helper_ok(P):
                ok = True
        R.check(r1, ok, '%s scans the processes of managed applications only' % q, 'managed|%s' % q, u.loc(),
                '%s does not restrict the conflict scan to `application.rules.managed` over all applications and '
                'processes' % q)


def run(P, R):
    fsm = Fsm(P)
    G = CallGraph(P)

    # ---------------------------------------------------------------- R1
    r1 = R.rule('R1', 'filter facts', 'the conflict scan is restricted to managed applications in both '
                'Context.conflicting() and Context.conflicts(), over every process of every application; a conflict is '
                '"running on two or more instances"', 4)
    rule_conflict_scan(P, R, r1)
    u = P.unit('ProcessStatus.conflicting')
    rs = [ast.unparse(v) for v, f, n in returns(u) if v is not None]
    R.check(r1, rs in (['len(self.running_identifiers) > 1'], ['len(self.running_identifiers) >= 2']),
            'a process conflicts iff it runs on two or more instances', 'conflict|definition', u.loc(),
            'ProcessStatus.conflicting returns %s' % rs)
    u = P.unit('Context.conflicting')
    rs = [v for v, f, n in returns(u) if v is not None]
    R.check(r1, len(rs) == 1 and isinstance(rs[0], ast.Call) and call_text(rs[0]) == 'any',
            'conflicting() is true as soon as one conflict exists', 'conflict|any', u.loc(),
            'Context.conflicting does not return any(...)')

    # ---------------------------------------------------------------- R2
    r2 = R.rule('R2', 'return-path facts', 'the Master enters CONCILIATION only when no start/stop job is in progress '
                'and a conflict exists; it returns to OPERATION only when idle and no conflict remains; otherwise it '
                'stays and re-conciliates (calls _master_enter again)', 4)
    u = P.unit('OperationState._master_next')
    rs = [(fsm.ev.const(v), {tuple(f) for f in facts}) for v, facts, n in returns(u) if v is not None]
    conc = [fs for k, fs in rs if k == 'CONCILIATION']
    ok = len(conc) == 1 and conc[0] == IDLE | {('self.context.conflicting()', True)}
    R.check(r2, ok, 'OPERATION -> CONCILIATION exactly when idle and conflicting', 'enter|OperationState', u.loc(),
            'OperationState._master_next returns CONCILIATION under %s' % [sorted(x) for x in conc])
    oth = {k for k, fs in rs if k != 'CONCILIATION'}
    R.check(r2, oth == {'OPERATION'}, 'otherwise the Master stays in OPERATION', 'enter|OperationState-else', u.loc(),
            'OperationState._master_next can also return %s' % sorted(map(str, oth)))
    u = P.unit('ConciliationState._master_next')
    rs = [(fsm.ev.const(v), {tuple(f) for f in facts}, n) for v, facts, n in returns(u) if v is not None]
    op = [fs for k, fs, n in rs if k == 'OPERATION']
    ok = len(op) == 1 and op[0] == IDLE | {('self.context.conflicting()', False)}
    R.check(r2, ok, 'CONCILIATION -> OPERATION exactly when idle and no conflict remains', 'leave|ConciliationState',
            u.loc(), 'ConciliationState._master_next returns OPERATION under %s' % [sorted(x) for x in op])
    fm = factmap(u)
    re_ = [c for c in own_nodes(u.node) if isinstance(c, ast.Call) and call_text(c) == 'self._master_enter']
    ok = len(re_) == 1 and {tuple(f) for f in fm.at(re_[0])} == IDLE | {('self.context.conflicting()', True)}
    R.check(r2, ok, 'remaining conflicts are conciliated again once the jobs are done', 'leave|re-conciliate', u.loc(),
            'ConciliationState._master_next does not call _master_enter() exactly when idle and still conflicting')

    # ---------------------------------------------------------------- R3
    r3 = R.rule('R3', 'dispatch table', 'conciliate_conflicts maps each of the 6 ConciliationStrategies to the class of '
                'the same intent and applies it to the conflicts it is given; ConciliationState._master_enter passes the '
                'configured strategy and Context.conflicts()', 8)
    ev = EnumEval(P, 'ConciliationStrategies')
    members = P.enum_members('ConciliationStrategies')
    R.require(sorted(members) == sorted(TABLE), 'ConciliationStrategies members changed: %s' % members)
    cc = P.unit('strategy:conciliate_conflicts')
    fm = factmap(cc)
    got = {}
    for a in own_nodes(cc.node):
        if isinstance(a, ast.Assign) and ast.unparse(a.targets[0]) == 'instance' and isinstance(a.value, ast.Call):
            ks = [ev.const(f.node.comparators[0]) for f in fm.at(a) if f[1] and isinstance(f.node, ast.Compare)
                  and ast.unparse(f.node.left) == 'strategy' and ast.unparse(f.node) == f[0]]
            if len(ks) == 1:
                got[ks[0]] = call_text(a.value)
    for m in members:
        R.check(r3, got.get(m) == TABLE[m], '%s -> %s' % (m, TABLE[m]), 'dispatch|%s' % m, cc.loc(),
                'conciliate_conflicts maps %s to %s instead of %s' % (m, got.get(m), TABLE[m]))
    ap = [c for c in own_nodes(cc.node) if isinstance(c, ast.Call) and call_text(c) == 'instance.conciliate']
    # the application may be written once after the dispatch or once per branch of it
    def covers(c, m):
        ks = [ev.const(f.node.comparators[0]) for f in fm.at(c) if isinstance(f.node, ast.Compare)
              and ast.unparse(f.node.left) == 'strategy' and f[1]]
        return not ks or m in ks
    cparam = cc.node.args.args[2].arg

    def given_conflicts(a):
        """the parameter itself, or its restriction to the processes that are (still) conflicting."""
        if ast.unparse(a) == cparam:
            return True
        if not isinstance(a, ast.Name):
            return False
        defs = [x for x in own_nodes(cc.node) if isinstance(x, ast.Assign) and ast.unparse(x.targets[0]) == a.id]
        apps = [x for x in own_nodes(cc.node) if isinstance(x, ast.Call) and call_text(x) == a.id + '.append']
        if len(defs) != 1:
            return False
        v = defs[0].value
        if isinstance(v, ast.ListComp):
            view = comp_view(cc, v)
            return view['iters'] == [cparam] and view['elt'] == 'each(%s)' % cparam and \
                view['conds'] <= {('each(%s).conflicting()' % cparam, True)}
        if not (isinstance(v, ast.List) and not v.elts and apps):
            return False
        for x in apps:
            loops = [l for l in own_nodes(cc.node) if isinstance(l, ast.For) and ast.unparse(l.iter) == cparam
                     and isinstance(l.target, ast.Name) and any(y is x for y in ast.walk(l))]
            if len(loops) != 1 or ast.unparse(x.args[0]) != loops[0].target.id or \
                    not {(f[0], f[1]) for f in fm.at(x)} <= {('%s.conflicting()' % loops[0].target.id, True)}:
                return False
        return True
    ok = bool(ap) and all(len(c.args) == 1 and given_conflicts(c.args[0]) for c in ap) and \
        all(any(covers(c, m) for c in ap) for m in members)
    R.check(r3, ok, 'the chosen strategy is applied to the given conflicts', 'dispatch|apply', cc.loc(),
            'conciliate_conflicts does not call instance.conciliate(conflicts)')
    # who conciliates: every call of conciliate_conflicts sits in a Master-only half of the CONCILIATION state
    # (_master_enter / _master_next, which _MasterSlaveState only runs when the local instance is the Master)
    CS = P.cls('ConciliationState')
    sites = [(u, x) for u in P.all_units(with_closures=False) for x in own_nodes(u.node)
             if isinstance(x, ast.Call) and call_text(x) == 'conciliate_conflicts' and u.qual != 'strategy:conciliate_conflicts'
             and u.mod is CS.mod]      # (the XML-RPC and the Web UI conciliate on the user's request: C17)
    me = CS.methods.get('_master_enter')
    where = sorted({u.qual for u, x in sites})
    ok = me is not None and any(u is me for u, x in sites) and all(
        u.cls is CS and u.name in ('_master_enter', '_master_next') for u, x in sites) and all(
        [closed_text(u, a) for a in x.args] == ['self.supvisors', 'self.supvisors.options.conciliation_strategy',
                                                'self.context.conflicts()'] for u, x in sites)
    R.check(r3, ok, 'the Master (and only the Master) conciliates the current conflicts with the configured strategy',
            'dispatch|enter', (me or CS.methods.get('enter') or next(iter(CS.methods.values()))).loc(),
            'conciliate_conflicts(supvisors, options.conciliation_strategy, context.conflicts()) is called from %s: it '
            'must be called on entering CONCILIATION from the Master-only half ConciliationState._master_enter (and from '
            'no half that a Slave also runs)' % where)

    # ---------------------------------------------------------------- R4
    r4 = R.rule('R4', 'effect summary per strategy', 'USER reaches no Starter/Stopper/failure-handler call; in the other '
                'five every action takes as process the loop variable over `conflicts` (never another process); '
                'SENICIDE/INFANTICIDE stop on running_identifiers minus the kept copy, kept = min/max over `uptime`; '
                'STOP/RESTART/RUNNING_FAILURE pass no restricting identifier set; all trigger the Stopper once after the '
                'loop', 14)
    uu = P.unit('UserStrategy.conciliate')
    seen = G.reach([(P.cls('UserStrategy'), uu)])
    bad = [n for n in seen if n[0] is not None and n[0].name in ('Starter', 'Stopper', 'RunningFailureHandler',
                                                                  'RpcHandler')]
    R.check(r4, not bad and len(seen) <= 2, 'USER stops nothing', 'effect|USER', uu.loc(),
            'UserStrategy.conciliate reaches %s' % [n[1].qual for n in bad][:3])
    spec = {'SenicideStrategy': ('min', True), 'InfanticideStrategy': ('max', True), 'StopStrategy': (None, False),
            'RestartStrategy': (None, False), 'FailureStrategy': (None, False)}
    want_calls = {'SenicideStrategy': {'self.supvisors.stopper.stop_process'},
                  'InfanticideStrategy': {'self.supvisors.stopper.stop_process'},
                  'StopStrategy': {'self.supvisors.stopper.stop_process'},
                  'RestartStrategy': {'self.supvisors.stopper.default_restart_process'},
                  'FailureStrategy': {'self.supvisors.stopper.stop_process',
                                      'self.supvisors.failure_handler.add_default_job'}}
    for cname, (keep, restrict) in spec.items():
        kcls = P.cls(cname)
        u = P.resolved(kcls, 'conciliate')        # through the MRO: the body may live in a common base class
        loops = [l for l in u.node.body if isinstance(l, ast.For)]
        R.require(len(loops) == 1 and ast.unparse(loops[0].iter) == u.node.args.args[1].arg,
                  '%s.conciliate: loop over the conflicts not found' % cname)
        var = loops[0].target.id
        acts = [c for c in own_nodes(u.node) if isinstance(c, ast.Call) and call_text(c) in ACTIONS]
        names = {call_text(c) for c in acts}
        R.check(r4, names == want_calls[cname], '%s performs %s' % (cname, sorted(x.split('.')[-1] for x in want_calls[cname])),
                'effect|%s|calls' % cname, u.loc(), '%s.conciliate performs %s, expected %s' %
                (cname, sorted(names), sorted(want_calls[cname])))
        inside = all(any(x is c for x in ast.walk(loops[0])) for c in acts)
        ok = inside and all(c.args and ast.unparse(c.args[0]) == var for c in acts)
        R.check(r4, ok, '%s acts only on the conflicting process of the iteration' % cname, 'effect|%s|target' % cname,
                u.loc(), '%s.conciliate calls an action on another object than the loop variable `%s`' % (cname, var))
        sp = [c for c in acts if call_text(c).endswith('.stop_process')]
        if restrict:
            # saved = min/max(<the identifiers where the process RUNS>, key=<uptime of that copy>); the function may be
            # a class constant of the strategy class (self.<attr> = min / max)
            def chooser(call):
                t = call_text(call)
                if t in ('min', 'max'):
                    return t
                if t.startswith('self.') and t.count('.') == 1:
                    mem = P.member(kcls, t[5:])
                    if mem and mem[0] == 'cattr' and isinstance(mem[2][1], ast.Name) and mem[2][1].id in ('min', 'max'):
                        return mem[2][1].id
                return None
            sv = [a for a in ast.walk(loops[0]) if isinstance(a, ast.Assign) and isinstance(a.value, ast.Call)
                  and chooser(a.value) and a.value.args]
            ok = False
            if len(sv) == 1:
                c0 = sv[0].value
                among = closed_text(u, c0.args[0])
                E = 'each(%s)' % loops[0].iter.id if isinstance(loops[0].iter, ast.Name) else '?'
                key = ' '.join(closed_text(u, k.value) for k in c0.keywords if k.arg == 'key')
                # the candidates: the running identifiers themselves, or a table built by iterating them (never the
                # whole info_map: an instance that knows the program without running it must not be "kept")
                cand_ok = among == E + '.running_identifiers' or (
                    ' in %s.running_identifiers' % E in among and '%s.info_map.items()' % E not in among and
                    ' in %s.info_map' % E not in among.replace(' in %s.info_map[' % E, ''))
                ok = chooser(c0) == keep and cand_ok and 'uptime' in (key + among)
            R.check(r4, ok, '%s keeps the copy with the %s uptime' % (cname, 'lowest' if keep == 'min' else 'highest'),
                    'effect|%s|kept' % cname, u.loc(), '%s.conciliate does not keep %s(running_identifiers, key=uptime): %s'
                    % (cname, keep, [closed_text(u, a.value)[:140] for a in sv]))
            saved = sv[0].targets[0].id if sv and isinstance(sv[0].targets[0], ast.Name) else '?'
            cp = [a for a in ast.walk(loops[0]) if isinstance(a, ast.Assign) and
                  ast.unparse(a.value) in ('%s.running_identifiers.copy()' % var, 'set(%s.running_identifiers)' % var)]
            rm = [c for c in ast.walk(loops[0]) if isinstance(c, ast.Call) and isinstance(c.func, ast.Attribute)
                  and c.func.attr in ('remove', 'discard') and c.args and ast.unparse(c.args[0]) == saved]
            ok = len(cp) == 1 and len(rm) == 1 and ast.unparse(rm[0].func.value) == cp[0].targets[0].id and \
                len(sp) == 1 and len(sp[0].args) >= 2 and ast.unparse(sp[0].args[1]) == cp[0].targets[0].id
            # or the set difference written directly
            if not ok and len(sp) == 1 and len(sp[0].args) >= 2:
                arg = sp[0].args[1]
                if isinstance(arg, ast.Name):
                    d = [a.value for a in ast.walk(loops[0]) if isinstance(a, ast.Assign) and
                         isinstance(a.targets[0], ast.Name) and a.targets[0].id == arg.id]
                    arg = d[0] if len(d) == 1 else arg
                ok = ast.unparse(arg) in ('%s.running_identifiers - {%s}' % (var, saved),
                                          '%s.running_identifiers.difference({%s})' % (var, saved))
            R.check(r4, ok, '%s stops every copy but the kept one' % cname, 'effect|%s|others' % cname, u.loc(),
                    '%s.conciliate does not stop on a copy of running_identifiers minus the kept identifier' % cname)
        else:
            ok = all(len(c.args) == 1 and not any(k.arg == 'identifiers' for k in c.keywords) for c in sp)
            R.check(r4, ok, '%s stops every copy' % cname, 'effect|%s|all-copies' % cname, u.loc(),
                    '%s.conciliate restricts the stop to some identifiers' % cname)
        trig = [s for s in u.node.body[u.node.body.index(loops[0]) + 1:] if isinstance(s, ast.Expr)
                and isinstance(s.value, ast.Call) and call_text(s.value) == 'self.supvisors.stopper.next']
        deferred = all(any((isinstance(a, ast.Constant) and a.value is False) for a in c.args) or
                       any(k.arg == 'trigger' and isinstance(k.value, ast.Constant) and k.value.value is False
                           for k in c.keywords) for c in acts if 'stopper' in call_text(c))
        R.check(r4, len(trig) == 1 and deferred, '%s plans all stops, then triggers the Stopper once' % cname,
                'effect|%s|trigger' % cname, u.loc(), '%s.conciliate does not defer the triggers (trigger=False) and '
                'call stopper.next() once after the loop' % cname)
    u = P.unit('FailureStrategy.conciliate')
    R.check(r4, must_call(u.node, lambda c: call_text(c) == 'self.supvisors.failure_handler.trigger_jobs'),
            'RUNNING_FAILURE triggers the failure jobs', 'effect|FailureStrategy|trigger_jobs', u.loc(),
            'FailureStrategy.conciliate does not trigger the failure handler jobs')
    u = P.unit('Stopper.default_restart_process')
    ok = any(isinstance(c, ast.Call) and call_text(c) == 'self.restart_process' for c in own_nodes(u.node))
    rp = P.unit('Stopper.restart_process')
    fm = factmap(rp)
    sp = [c for c in own_nodes(rp.node) if isinstance(c, ast.Call) and call_text(c) == 'self.stop_process']
    ap = [c for c in own_nodes(rp.node) if isinstance(c, ast.Call) and call_text(c) == 'process_list.append']
    ok = ok and len(sp) == 1 and len(ap) == 1 and fm.has(sp[0], 'process.running()', True) and \
        fm.has(ap[0], 'process.running()', True) and len(sp[0].args) == 1
    R.check(r4, ok, 'RESTART stops every copy and defers one start until stopped', 'effect|RestartStrategy|restart',
            rp.loc(), 'Stopper.restart_process does not stop all copies of a running process and record one deferred '
            'start')

    shared.running_definitions(P, R, r4)

    # ---------------------------------------------------------------- R5
    r5 = R.rule('R5', 'stop-target filter', 'a stop planned with an identifier set only targets instances of that set '
                'where the process runs; commands are de-duplicated by process name AND identifier (several copies of '
                'the same process are each stopped)', 3)
    u = P.unit('Stopper.stop_process')
    comps = [c for c in own_nodes(u.node) if isinstance(c, ast.ListComp) and isinstance(c.elt, ast.Call)
             and call_text(c.elt) == 'self.command_class']
    ok = len(comps) == 1 and ast.unparse(comps[0].generators[0].iter) == 'process.running_identifiers' and \
        [ast.unparse(i) for i in comps[0].generators[0].ifs] == ['not identifiers or identifier in identifiers']
    R.check(r5, ok, 'stop commands = running identifiers restricted to the given set', 'targets|stop_process', u.loc(),
            'Stopper.stop_process does not build its commands from `process.running_identifiers if not identifiers or '
            'identifier in identifiers`')
    ac = P.unit('ApplicationJobs.add_commands')
    # closed facts of the append (no local names): neither a current nor a planned command for (name, identifier)
    app = [c for c in own_nodes(ac.node) if isinstance(c, ast.Call) and isinstance(c.func, ast.Attribute)
           and c.func.attr == 'append']
    CMD = 'each(each(jobs.items())[1])'        # the command of the loops over the (sequence, commands) given
    got = factmap(ac).closed(app[0]) if len(app) == 1 else set()
    for nm, fn in (('current_job', 'self.get_current_command'), ('planned_job', 'self.get_planned_command')):
        ok = ('%s(%s.process.process_name, %s.identifier)' % (fn, CMD, CMD), False) in got
        R.check(r5, ok, '%s matched by process name and identifier' % nm, 'dedup|%s' % nm, ac.loc(),
                'add_commands does not append under `not %s(process name, identifier)` (facts: %s): the stop of a '
                'second copy of the same process is dropped' % (fn, sorted(got)))
    R.assume('That every real duplicate is seen, and that the conciliation loop closes (needs the stop events), is NOT '
             'decided.')
