"""C11 - Process status is a deterministic synthesis of per-instance reports.

The synthesis function itself (value-level over histories) is not decided; decided are the ownership of the synthesis
state, the re-synthesis after every report, and the decision structure of the synthesis (classification of states,
order of the cases, forced-state arbitration), read from the code's shape."""
import ast
from ..model import own_nodes, AnalysisError
from ..defuse import closed_text
from ..paths import expand_self, removal_sites, factmap, call_text, returns, must_call
from .. import supstates
from . import shared

OWNED = {'running_identifiers', '_state', 'state', 'forced_state', 'forced_reason', 'expected_exit', 'last_event_mtime'}
# objects the model allocates itself and does not share (ownership proved by C19.R2): one line of reason each
MODEL_WRITERS = {
    'ProcessStartCommandModel.__init__': 'initialises the mock ProcessStatus it has just allocated',
    'ProcessStartCommandModel.start': 'records the predicted placement on its own mock ProcessStatus',
    'StarterModel.feed_model': 'plays predicted events on the mock ProcessStatus objects of its commands',
}
MUTATORS = ('update', 'pop', 'clear', 'setdefault', 'popitem', 'add', 'discard', 'remove', 'append')


def run(P, R):
    st = supstates.load()
    PS = P.cls('ProcessStatus')

    # ---------------------------------------------------------------- R1
    r1 = R.rule('R1', 'who-may-write (package-wide)', 'running_identifiers, the state, forced_state/forced_reason, '
                'expected_exit and the per-instance payloads (info_map element stores, update(), del) of a ProcessStatus '
                'are written only inside ProcessStatus; the three model writers act on mocks they allocate (C19.R2)', 4)
    n_in, n_model = 0, 0
    for u in P.all_units():
        env = None
        for n in own_nodes(u.node):
            tgt, kind = None, None
            if isinstance(n, ast.Attribute) and isinstance(n.ctx, ast.Store) and n.attr in OWNED:
                tgt, kind = n, 'field %s' % n.attr
                base = n.value
            elif isinstance(n, ast.Subscript) and isinstance(n.ctx, (ast.Store, ast.Del)):
                cur = n
                while isinstance(cur, ast.Subscript):
                    cur = cur.value
                if isinstance(cur, ast.Attribute) and cur.attr == 'info_map':
                    tgt, kind, base = n, 'info_map store', cur.value
            elif isinstance(n, ast.Call) and isinstance(n.func, ast.Attribute) and n.func.attr in MUTATORS:
                cur = n.func.value
                while isinstance(cur, ast.Subscript):
                    cur = cur.value
                if isinstance(cur, ast.Attribute) and cur.attr in ('info_map', 'running_identifiers'):
                    tgt, kind, base = n, '%s.%s()' % (cur.attr, n.func.attr), cur.value
            if tgt is None:
                continue
            env = env or P.env(u, u.cls)
            t = env.typeof(base)
            generic = kind in ('field state', 'field _state', 'field last_event_mtime')
            is_ps = (t and t[0] == 'inst' and t[1] is PS) or (t is None and not generic and
                                                              ast.unparse(base).split('.')[-1]
                                                              in ('process', 'mock_process', 'proc'))
            if t and t[0] == 'inst' and t[1] is not PS:
                continue
            if not is_ps:
                continue
            if u.cls is PS:
                n_in += 1
                continue
            if u.qual in MODEL_WRITERS:
                n_model += 1
                R.ok(r1, '%s writes %s of a mock it owns (%s)' % (u.qual, kind, MODEL_WRITERS[u.qual]), u.loc(n))
                continue
            R.fail(r1, 'foreign-writer|%s|%s' % (u.qual, kind.split()[0] + (kind.split()[1] if ' ' in kind else '')),
                   u.loc(n), '%s writes %s of a ProcessStatus from outside the class: the synthesis no longer depends on '
                   'the reports alone' % (u.qual, kind))
    R.require(n_in >= 12, 'only %d writes of the synthesis state found inside ProcessStatus' % n_in)
    R.ok(r1, '%d writes inside ProcessStatus' % n_in, PS.mod.relpath)

    # ---------------------------------------------------------------- R2
    r2 = R.rule('R2', 'must-call', 'the status is re-synthesised after every report: add_info and update_info always end '
                'with update_status(identifier, state of that report) and reset the forced state; an instance loss goes '
                'through update_info for that instance only; force_state / reset_forced_state are the only writers of '
                'the forced state', 7)
    for q, arg, reset in (('ProcessStatus.add_info', "info['state']", "info['state']"),
                          ('ProcessStatus.update_info', 'new_state', None)):
        u = P.unit(q)
        us = [c for c in own_nodes(u.node) if isinstance(c, ast.Call) and call_text(c) == 'self.update_status']
        ok = len(us) == 1 and must_call(u.node, lambda c: c is us[0]) and \
            [closed_text(u, a) for a in us[0].args] in (['identifier', "info['state']"],
                                                         ['identifier', "self.info_map[identifier]['state']"]) and \
            (us[0].lineno, us[0].col_offset) == max((c.lineno, c.col_offset) for c in own_nodes(u.node)
                                                     if isinstance(c, ast.Call) and 'logger' not in call_text(c).split('.'))
        R.check(r2, ok, '%s ends with update_status(identifier, %s)' % (q, arg), 'resynth|%s' % q, u.loc(),
                '%s does not always end with update_status(identifier, %s)' % (q, arg))
        rf = [c for c in own_nodes(u.node) if isinstance(c, ast.Call) and call_text(c) == 'self.reset_forced_state']
        ok = len(rf) == 1 and must_call(u.node, lambda c: c is rf[0]) and \
            [ast.unparse(a) for a in rf[0].args] == ([reset] if reset else []) and (rf[0].lineno, rf[0].col_offset) < (us[0].lineno, us[0].col_offset)
        R.check(r2, ok, '%s dismisses a forced state on new information' % q, 'resynth|%s|reset' % q, u.loc(),
                '%s does not always call reset_forced_state(%s) before the synthesis' % (q, reset or ''))
    for q in ('ProcessStatus.add_info', 'ProcessStatus.update_info'):
        u = P.unit(q)
        fmq = factmap(u)
        lm = [a for a in own_nodes(u.node) if isinstance(a, ast.Assign) and ast.unparse(a.targets[0]) == "info['local_mtime']"]
        le = [a for a in own_nodes(u.node) if isinstance(a, ast.Assign) and ast.unparse(a.targets[0]) == 'self.last_event_mtime']
        ok = len(lm) == 1 and len(le) == 1 and not fmq.at(lm[0]) and not fmq.at(le[0]) and \
            ast.unparse(le[0].value) == 'time.monotonic()' and ast.unparse(lm[0].value) == 'self.last_event_mtime'
        R.check(r2, ok, '%s stamps the entry with its local reception time, whatever the origin of the report' % q,
                'resynth|%s|local_mtime' % q, u.loc(), '%s does not unconditionally stamp info[local_mtime] with the '
                'reception time: "most recently received" no longer holds for that report (e.g. the FATAL of an '
                'instance loss)' % q)
    u = P.unit('ProcessStatus.update_info')
    ns = [a for a in own_nodes(u.node) if isinstance(a, ast.Assign) and ast.unparse(a.targets[0]) == 'new_state']
    up = [c for c in own_nodes(u.node) if isinstance(c, ast.Call) and call_text(c) == 'info.update']
    idf = [a for a in own_nodes(u.node) if isinstance(a, ast.Assign) and ast.unparse(a.targets[0]) == 'info']
    ok = len(ns) == 1 and ast.unparse(ns[0].value) == "info['state']" and len(up) == 1 and \
        ast.unparse(up[0].args[0]) == 'payload' and len(idf) == 1 and ast.unparse(idf[0].value) == 'self.info_map[identifier]' \
        and (up[0].lineno, up[0].col_offset) < (ns[0].lineno, ns[0].col_offset)
    R.check(r2, ok, 'the report updates the entry of its own instance, then its state is synthesised',
            'resynth|update_info|entry', u.loc(), 'update_info does not merge the payload into info_map[identifier] and '
            'synthesise its state')
    u = P.unit('ProcessStatus.add_info')
    ok = any(isinstance(a, ast.Assign) and 'self.info_map[identifier]' in [ast.unparse(t) for t in a.targets]
             and ast.unparse(a.value) == 'payload' for a in own_nodes(u.node))
    R.check(r2, ok, 'a snapshot replaces the entry of its own instance', 'resynth|add_info|entry', u.loc(),
            'add_info does not store the payload in info_map[identifier]')
    u = P.unit('ProcessStatus.invalidate_identifier')
    c = [x for x in own_nodes(u.node) if isinstance(x, ast.Call) and call_text(x) == 'self.update_info']
    ok = len(c) == 1 and [ast.unparse(a) for a in c[0].args] == ['identifier', 'payload', 'False']
    R.check(r2, ok, 'an instance loss is a report for that instance only', 'resynth|invalidate', u.loc(),
            'invalidate_identifier does not go through update_info(identifier, payload, False)')
    # the synthetic report overwrites what the entry said of the last exit: FATAL, and not an expected exit (the entry
    # is updated key by key, a key left out keeps the value of the last real event)
    dicts = [d for d in own_nodes(u.node) if isinstance(d, ast.Dict)]
    got = {k.value: ast.unparse(v) for d in dicts for k, v in zip(d.keys, d.values) if isinstance(k, ast.Constant)}
    ok = got.get('state') == 'ProcessStates.FATAL' and got.get('expected') == 'False' and 'spawnerr' in got
    R.check(r2, ok, 'the report synthesised for a lost instance is FATAL, unexpected, with a reason',
            'resynth|invalidate|payload', u.loc(), 'invalidate_identifier builds the payload %s: state must be FATAL, '
            'expected False (else the entry keeps the `expected` of the last real event) and spawnerr the reason' % got)
    fw = set()
    for uu in list(PS.methods.values()) + list(PS.setters.values()):
        for a in own_nodes(uu.node):
            if isinstance(a, ast.Attribute) and isinstance(a.ctx, ast.Store) and a.attr in ('forced_state', 'forced_reason'):
                fw.add(uu.name)
    R.check(r2, fw == {'force_state', 'reset_forced_state'}, 'forced state written by force_state/reset_forced_state only',
            'resynth|forced-writers', PS.mod.relpath, 'forced_state / forced_reason are written by %s' % sorted(fw))

    # ---------------------------------------------------------------- R3
    r3 = R.rule('R3', 'classification table', 'in update_status the instance is removed from running_identifiers exactly '
                'for a stopped-like report (STOPPED_STATES), added (or becomes the only entry when the process was '
                'stopped) for STARTING/BACKOFF/RUNNING (RUNNING_STATES), and left untouched for STOPPING', 4)
    u = P.unit('ProcessStatus.update_status')
    fm = factmap(u)
    rem = removal_sites(u, 'self.running_identifiers')
    disc = [c for c, arg, fs in rem]
    ok = len(rem) == 1 and rem[0][2] == {('new_state in STOPPED_STATES', True)} and rem[0][1] == 'identifier'
    R.check(r3, ok, 'a stopped-like report removes the instance', 'classify|stopped', u.loc(),
            'update_status discards the identifier under %s' % [sorted(fs) for c, arg, fs in rem])
    adds = [c for c in own_nodes(u.node) if isinstance(c, ast.Call) and call_text(c) == 'self.running_identifiers.add']
    repl = [a for a in own_nodes(u.node) if isinstance(a, ast.Assign) and ast.unparse(a.targets[0]) == 'self.running_identifiers']
    run_f = {('new_state in STOPPED_STATES', False), ('new_state in RUNNING_STATES', True)}
    ok = len(adds) == 1 and len(repl) == 1 and \
        {tuple(f) for f in fm.at(adds[0])} == run_f | {('self.stopped()', False)} and \
        {tuple(f) for f in fm.at(repl[0])} == run_f | {('self.stopped()', True)} and \
        ast.unparse(repl[0].value) == '{identifier}' and ast.unparse(adds[0].args[0]) == 'identifier'
    # (a process that is stopped has no running identifier left - R3 classify|stopped - so adding is enough)
    ok = ok or (len(adds) == 1 and not repl and {tuple(f) for f in fm.at(adds[0])} == run_f and
                ast.unparse(adds[0].args[0]) == 'identifier')
    R.check(r3, ok, 'a running-like report lists the instance (alone if the process was stopped)', 'classify|running',
            u.loc(), 'update_status adds/replaces the identifier under %s / %s' %
            ([sorted(tuple(f) for f in fm.at(c)) for c in adds], [sorted(tuple(f) for f in fm.at(c)) for c in repl]))
    other = [n for n in own_nodes(u.node) if (isinstance(n, ast.Call) and isinstance(n.func, ast.Attribute) and
                                              ast.unparse(n.func.value) == 'self.running_identifiers' and
                                              n.func.attr in MUTATORS and n not in disc + adds)]
    R.check(r3, not other, 'STOPPING (neither class) leaves the list untouched', 'classify|stopping', u.loc(),
            'update_status also mutates running_identifiers with %s' % [ast.unparse(x) for x in other])
    R.check(r3, sorted(st['STOPPED_STATES']) == ['EXITED', 'FATAL', 'STOPPED', 'UNKNOWN'] and
            sorted(st['RUNNING_STATES']) == ['BACKOFF', 'RUNNING', 'STARTING'],
            'Supervisor state classes are the expected ones', 'classify|supervisor', st['source'],
            'supervisor.states classes changed: %s' % st)
    for q, want in (('ProcessStatus.stopped', 'self.state in STOPPED_STATES'), ('ProcessStatus.running', 'self.state in RUNNING_STATES')):
        pu = P.unit(q)
        rs = [ast.unparse(v) for v, f, n in returns(pu) if v is not None]
        R.check(r3, rs == [want], '%s is `%s`' % (q, want), 'classify|%s' % q, pu.loc(), '%s returns %s' % (q, rs))

    shared.running_definitions(P, R, r3)

    # ---------------------------------------------------------------- R4
    r4 = R.rule('R4', 'decision structure of the synthesis', 'state shown: under conflict the most advanced running state '
                'of the listed instances; with one listed instance, its state; with none, STOPPING if any instance is '
                'stopping, else the state of the most recently received (local_mtime) report with its expected flag', 6)
    sts = [a for a in own_nodes(u.node) if isinstance(a, ast.Assign) and ast.unparse(a.targets[0]) == 'self.state']
    table = sorted((ast.unparse(a.value), tuple(sorted(tuple(f) for f in fm.at(a)))) for a in sts)
    conf = [c for c in own_nodes(u.node) if isinstance(c, ast.Call) and call_text(c) == 'self._evaluate_conflict']
    ok = len(conf) == 1 and {(expand_self(u, f[0]), f[1]) for f in fm.at(conf[0])} == \
        {(expand_self(u, 'self.conflicting()'), True)}
    R.check(r4, ok, 'a conflict is synthesised by _evaluate_conflict', 'synth|conflict', u.loc(),
            'update_status calls _evaluate_conflict under %s' % [sorted(tuple(f) for f in fm.at(c)) for c in conf])
    noc = (expand_self(u, 'self.conflicting()'), False)
    table = sorted((v, tuple(sorted((expand_self(u, t) if 'conflicting' in t else t, pol) for t, pol in fs)))
                   for v, fs in table)
    stopping = ("any((info['state'] == ProcessStates.STOPPING for info in self.info_map.values()))", True)
    want = sorted([
        ("self.info_map[list(self.running_identifiers)[0]]['state']", tuple(sorted([noc, ('self.running_identifiers', True)]))),
        ('ProcessStates.STOPPING', tuple(sorted([noc, ('self.running_identifiers', False), stopping]))),
        ("info['state']", tuple(sorted([noc, ('self.running_identifiers', False), (stopping[0], False)]))),
    ])
    R.check(r4, table == want, 'single instance -> its state; none -> STOPPING priority, else latest report',
            'synth|cases', u.loc(), 'update_status assigns the state as %s' % table)
    idef = [a for a in own_nodes(u.node) if isinstance(a, ast.Assign) and ast.unparse(a.targets[0]) == 'info']
    ok = len(idef) == 1 and ast.unparse(idef[0].value) == "max(self.info_map.values(), key=lambda x: x['local_mtime'])"
    R.check(r4, ok, 'the stopped-like state shown is the most recently received one', 'synth|latest', u.loc(),
            'update_status picks the stopped-like report with %s' % [ast.unparse(a.value) for a in idef])
    ee = sorted((ast.unparse(a.value)) for a in own_nodes(u.node) if isinstance(a, ast.Assign)
                and ast.unparse(a.targets[0]) == 'self.expected_exit')
    R.check(r4, ee == ['True', 'True', "info['expected']"], 'expected_exit follows the report shown', 'synth|expected',
            u.loc(), 'update_status sets expected_exit to %s' % ee)
    ec = P.unit('ProcessStatus._evaluate_conflict')
    ok = any(isinstance(a, ast.Assign) and ast.unparse(a.targets[0]) == 'states' and
             ast.unparse(a.value) == "{self.info_map[identifier]['state'] for identifier in self.running_identifiers}"
             for a in own_nodes(ec.node)) and \
        any(isinstance(a, ast.Assign) and ast.unparse(a.targets[0]) == 'self.state' and
            ast.unparse(a.value) == 'self.running_state(states)' for a in own_nodes(ec.node))
    R.check(r4, ok, 'the conflict state is computed from the states of the listed instances', 'synth|conflict-states',
            ec.loc(), '_evaluate_conflict does not synthesise from the states of running_identifiers')
    rs_ = P.unit('ProcessStatus.running_state')
    rv = [v for v, f, n in returns(rs_) if v is not None]
    from .. import supstates as _ss
    table = _ss.load()

    def sequence(e, depth=0):
        """the ProcessStates names an expression enumerates, in order (None when not understood)."""
        if depth > 4:
            return None
        if isinstance(e, (ast.Tuple, ast.List)):
            out = []
            for x in e.elts:
                s_ = sequence(x.value, depth + 1) if isinstance(x, ast.Starred) else \
                    [x.attr] if isinstance(x, ast.Attribute) and ast.unparse(x.value) == 'ProcessStates' else None
                if s_ is None:
                    return None
                out += s_
            return out
        if isinstance(e, ast.Call) and isinstance(e.func, ast.Name) and e.func.id in ('list', 'tuple') and len(e.args) == 1:
            return sequence(e.args[0], depth + 1)
        if isinstance(e, ast.BinOp) and isinstance(e.op, ast.Add):
            l, r = sequence(e.left, depth + 1), sequence(e.right, depth + 1)
            return None if l is None or r is None else l + r
        if isinstance(e, ast.Name) and e.id == 'RUNNING_STATES':
            return list(table['RUNNING_STATES'])
        if isinstance(e, ast.Attribute) and ast.unparse(e.value) == 'ProcessStates':
            return [e.attr]
        nm = e.attr if isinstance(e, ast.Attribute) else e.id if isinstance(e, ast.Name) else None
        if nm and nm in PS.cattrs and PS.cattrs[nm][1] is not None and \
                (isinstance(e, ast.Name) or ast.unparse(e.value) in ('self', 'ProcessStatus', 'cls')):
            return sequence(PS.cattrs[nm][1], depth + 1)
        return None
    order_ = sequence(rv[0].args[0].generators[0].iter) if len(rv) == 1 and isinstance(rv[0], ast.Call) and \
        call_text(rv[0]) == 'next' and rv[0].args and isinstance(rv[0].args[0], ast.GeneratorExp) else None
    ok = order_ == ['RUNNING', 'BACKOFF', 'STARTING', 'STOPPING'] and \
        [ast.unparse(i) for i in rv[0].args[0].generators[0].ifs] == ['state in states'] and \
        ast.unparse(rv[0].args[0].elt) == 'state'
    R.check(r4, ok, 'most advanced running state first (RUNNING, BACKOFF, STARTING, then STOPPING)', 'synth|running_state',
            rs_.loc(), 'running_state is %s (states enumerated in the order %s)' % ([ast.unparse(v) for v in rv], order_))

    # ---------------------------------------------------------------- R5
    r5 = R.rule('R5', 'forced-state arbitration', 'a forced state is applied unless newer information from the targeted '
                'instance has arrived (event_time of that instance <= forced event time); it is dismissed by the next '
                'report (except a first STOPPED snapshot); the displayed state is the forced one while set', 4)
    fs = P.unit('ProcessStatus.force_state')
    fmf = factmap(fs)
    arb = [a for a in own_nodes(fs.node) if isinstance(a, ast.Assign) and ast.unparse(a.targets[0]) == 'force_state']
    # closed forms (no local names): True by default; with information from the targeted instance, that instance's
    # event_time compared with the time of the forced event
    vals = sorted((closed_text(fs, a.value), tuple(sorted(fmf.closed(a)))) for a in arb)
    ok = vals == sorted([('True', ()), ("self.info_map[event['identifier']]['event_time'] <= event['now_monotonic']",
                                        (("event['identifier'] in self.info_map", True),))])
    defs = {}
    R.check(r5, ok, 'arbitration by the event time of the targeted instance', 'forced|arbitration', fs.loc(),
            'force_state arbitrates with %s / %s' % (vals, defs))
    # what is returned is the arbitration flag itself (returns() lists the assignments of a result local)
    rv = sorted(ast.unparse(v) if isinstance(v, ast.Name) else closed_text(fs, v) for v, f, n in returns(fs) if v is not None)
    R.check(r5, rv in (['force_state'], sorted(t for t, _ in vals)), 'force_state tells whether the forced state was applied', 'forced|result', fs.loc(),
            'force_state returns %s' % rv)
    rf = P.unit('ProcessStatus.reset_forced_state')
    fmr = factmap(rf)
    clr = [a for a in own_nodes(rf.node) if isinstance(a, ast.Assign) and ast.unparse(a.targets[0]) == 'self.forced_state']
    ok = len(clr) == 1 and isinstance(clr[0].value, ast.Constant) and clr[0].value.value is None and \
        {tuple(f) for f in fmr.at(clr[0])} == {('self.forced_state is None', False), ('self.forced_state is None', False),
                                               ('state == ProcessStates.STOPPED', False),
                                               ('state == ProcessStates.STOPPED', False)}
    R.check(r5, ok, 'the forced state is cleared by any report but a first STOPPED snapshot', 'forced|reset', rf.loc(),
            'reset_forced_state clears under %s' % [sorted(tuple(f) for f in fmr.at(a)) for a in clr])
    ds = P.unit('ProcessStatus.displayed_state')
    rv = sorted((ast.unparse(v), tuple(sorted(tuple(x) for x in f))) for v, f, n in returns(ds) if v is not None)
    R.check(r5, rv == [('self.forced_state', (('self.forced_state is None', False),)),
                       ('self.state', (('self.forced_state is None', True),))],
            'the forced state overrides the display while set', 'forced|display', ds.loc(), 'displayed_state returns %s' % rv)
    R.assume('The synthesis as a function over all finite histories is NOT decided; R3-R5 freeze its decision structure '
             '(an edit that changes the structure without changing behaviour is reported as a violation of the frozen '
             'structure and must be re-confirmed by hand).')
