"""C08 - After disturbances the cluster returns to OPERATION; nobody stays parked (structural conditions only)."""
import ast
from ..model import own_nodes, AnalysisError
from ..paths import cf, factmap, must_call, call_text, returns
from ..defuse import closed_text
from ..fsm import Fsm, WORKING, ENDING, rule_decisions_on_table
from . import shared


def calls_named(unit, text):
    return [c for c in own_nodes(unit.node) if isinstance(c, ast.Call) and call_text(c) == text]


def _sources(u, name):
    """closed text of everything that can flow into the local `name` (its assignments, the iterables of the loops
    whose variable is assigned to it), for a local bound several times (selection written as a loop)."""
    from ..defuse import closed_text
    seen, todo, txt = set(), [name], []
    while todo:
        k = todo.pop()
        if k in seen:
            continue
        seen.add(k)
        for n in own_nodes(u.node):
            if isinstance(n, ast.Assign) and any(isinstance(t, ast.Name) and t.id == k for t in n.targets):
                txt.append(closed_text(u, n.value))
                todo += [x.id for x in ast.walk(n.value) if isinstance(x, ast.Name)]
            elif isinstance(n, ast.For) and any(isinstance(t, ast.Name) and t.id == k for t in ast.walk(n.target)):
                txt.append(closed_text(u, n.iter))
    return ' '.join(txt)


def run(P, R):
    fsm = Fsm(P)
    T = fsm.transitions
    floc = fsm.cls.mod.relpath + ':%d' % fsm.trans_node.lineno

    # ---------------------------------------------------------------- R1
    r1 = R.rule('R1', 'abstract decision sets vs table',
                'for each state class S of _StateInstances, every SupvisorsStates value S.next() can return (through '
                'the MRO and super() chains), other than S itself, None and the followed Master state, belongs to '
                '_Transitions[S]; a refused decision is repeated at every evaluation: the instance is parked and, '
                'because next() returned early, lost instances are not propagated to Starter/Stopper/failure handler',
                15)
    rule_decisions_on_table(fsm, R, r1, fsm.members)

    # ---------------------------------------------------------------- R2
    r2 = R.rule('R2', 'graph reachability', 'in _Transitions, OPERATION is reachable from each of SYNCHRONIZATION, '
                'ELECTION, DISTRIBUTION, CONCILIATION, and every non-final state has a successor', 8)
    for s in ('OFF', 'SYNCHRONIZATION', 'ELECTION', 'DISTRIBUTION', 'CONCILIATION'):
        R.check(r2, 'OPERATION' in fsm.reachable(s), 'OPERATION reachable from %s' % s, 'reach|%s' % s, floc,
                'OPERATION is not reachable from %s in _Transitions' % s)
    for s in fsm.members:
        if s != 'FINAL':
            R.check(r2, bool(T.get(s)), '%s has a successor' % s, 'dead-end|%s' % s, floc,
                    '%s has no successor in _Transitions' % s)

    # ---------------------------------------------------------------- R3
    r3 = R.rule('R3', 'must-call / dominance',
                'the FSM is re-evaluated on every local tick and on every Master publication: listener.on_tick -> '
                'fsm.on_timer_event -> next() unconditionally; on_state_event calls next() under the sole fact '
                '"sender is the Master"; next() hands instance.next() to set_state; set_state re-evaluates the new '
                'state in a loop; the base next() evaluates stability before the consistence checks', 7)
    u = P.unit('SupervisorListener.on_tick')
    R.check(r3, any(call_text(c) == 'self.fsm.on_timer_event' for c in own_nodes(u.node) if isinstance(c, ast.Call))
            and _unconditional_in_try(u, 'self.fsm.on_timer_event'),
            'on_tick always calls fsm.on_timer_event', 'hook|on_tick', u.loc(),
            'SupervisorListener.on_tick does not call fsm.on_timer_event on every path of its guarded body')
    u = P.unit('FiniteStateMachine.on_timer_event')
    ex = []
    R.check(r3, must_call(u.node, lambda c: call_text(c) == 'self.next', exits=ex), 'on_timer_event always calls next()',
            'hook|on_timer_event', u.loc(ex[0] if ex else None),
            'FiniteStateMachine.on_timer_event has a path that does not re-evaluate the state machine (next())')
    u = P.unit('FiniteStateMachine.next')
    ok = any(call_text(c) == 'self.set_state' and c.args and isinstance(c.args[0], ast.Call) and
             call_text(c.args[0]) == 'self.instance.next' for c in own_nodes(u.node) if isinstance(c, ast.Call))
    ex = []
    ok = ok and must_call(u.node, lambda c: call_text(c) == 'self.set_state', exits=ex)
    R.check(r3, ok, 'next() always hands instance.next() to set_state', 'hook|FiniteStateMachine.next', u.loc(),
            'FiniteStateMachine.next does not unconditionally evaluate the current state and apply its decision')
    u = P.unit('FiniteStateMachine.on_state_event')
    fm = factmap(u)
    cs = calls_named(u, 'self.next')
    R.require(cs, 'FiniteStateMachine.on_state_event: call to self.next() not found')
    for c in cs:
        facts = [f for f in fm.at(c)]
        ok = len(facts) == 1 and tuple(facts[0]) == cf('status.identifier == self.state_modes.master_identifier', True)
        R.check(r3, ok, 'on_state_event re-evaluates when (and as soon as) the sender is the Master',
                'hook|on_state_event', u.loc(c),
                'on_state_event: next() is called under %s instead of exactly "sender is the Master"' %
                [tuple(f) for f in facts])
    ex = []
    R.check(r3, must_call(u.node, lambda c: call_text(c) == 'self.state_modes.on_instance_state_event', exits=ex),
            'on_state_event always stores the remote state first', 'hook|on_state_event-store', u.loc(),
            'on_state_event has a path that does not store the remote state & modes')
    u = P.unit('FiniteStateMachine.set_state')
    loops = [n for n in own_nodes(u.node) if isinstance(n, ast.While)]
    R.require(len(loops) == 1, 'set_state: expected exactly one while loop')
    w = loops[0]
    arg = u.node.args.args[1].arg
    re_eval = [s for s in w.body if isinstance(s, ast.Assign) and isinstance(s.targets[0], ast.Name) and
               s.targets[0].id == arg and isinstance(s.value, ast.Call) and call_text(s.value) == 'self.instance.next']
    test_txt = fm_text(u, w.test)
    R.check(r3, bool(re_eval) and w.body[-1] is re_eval[-1] and arg in test_txt and 'self.state' in test_txt,
            'set_state loops: the new state is evaluated at once and its decision applied', 'hook|set_state-loop',
            u.loc(w), 'set_state does not re-evaluate the entered state in its loop (multi-step transitions lost)')
    # enter/exit/instance replacement inside the loop, in order
    seq = [ast.unparse(s) for s in w.body if not isinstance(s, ast.If)]
    want = ['self.instance.exit()', None, None, 'self.instance.enter()', None]
    ok = len(seq) == 5 and seq[0] == want[0] and seq[3] == want[3] and seq[1].startswith('self.state_modes.state = ') \
        and seq[2].startswith('self.instance = self._StateInstances[')
    R.check(r3, ok, 'a transition is exit(); assign; instantiate; enter(); re-evaluate, in that order',
            'hook|set_state-sequence', u.loc(w), 'set_state transition body is %s' % seq)
    u = P.unit('_SupvisorsBaseState.next')
    ex = []
    ok = must_call(u.node, lambda c: call_text(c) == 'self._check_instances', exits=ex)
    sc = calls_named(u, 'self.state_modes.evaluate_stability')
    cc = calls_named(u, 'self._check_consistence')
    ok = ok and sc and cc and (sc[0].lineno, sc[0].col_offset) < (cc[0].lineno, cc[0].col_offset)
    R.check(r3, bool(ok), 'base next(): instances checked, stability evaluated, then consistence',
            'hook|_SupvisorsBaseState.next', u.loc(), 'the base next() does not check instances / evaluate stability '
            'before the consistence checks on every path')

    # ---------------------------------------------------------------- R4
    r4 = R.rule('R4', 'must-call', 'jobs are aborted when leaving the working states: enter() of SYNCHRONIZATION and '
                'ELECTION and both halves of the ending states call _abort_jobs, which resets failure handler, '
                'starter and stopper', 5)
    for st, meth in (('SYNCHRONIZATION', 'enter'), ('ELECTION', 'enter'), ('RESTARTING', '_master_enter'),
                     ('RESTARTING', '_slave_enter'), ('SHUTTING_DOWN', '_master_enter'),
                     ('SHUTTING_DOWN', '_slave_enter')):
        c = fsm.instances[st]
        u = P.resolved(c, meth)
        ex = []
        R.check(r4, must_call(u.node, lambda c: call_text(c) == 'self._abort_jobs', exits=ex),
                '%s.%s aborts pending jobs' % (c.name, meth), 'abort|%s|%s' % (c.name, meth), u.loc(),
                '%s.%s (resolved to %s) has a path that does not call _abort_jobs' % (c.name, meth, u.qual))
    u = P.unit('_SupvisorsBaseState._abort_jobs')
    for tgt in ('self.supvisors.failure_handler.abort', 'self.supvisors.starter.abort', 'self.supvisors.stopper.abort'):
        R.check(r4, must_call(u.node, lambda c, t=tgt: call_text(c) == t), '_abort_jobs calls %s' % tgt,
                'abort-target|%s' % tgt, u.loc(), '_abort_jobs does not always call %s' % tgt)

    # ---------------------------------------------------------------- R5
    r5 = R.rule('R5', 'follow window', 'in ElectionState.next the set W of Master states that release a Slave contains '
                'every state the Master can occupy after ELECTION without Slave cooperation: the _Transitions-closure '
                'of DISTRIBUTION inside the working states', 1)
    u = P.unit('ElectionState.next')
    fm = factmap(u)
    W = set()
    slave_returns = []
    for val, facts, node in returns(u):
        if val is not None and fsm.ev.const(val) == 'DISTRIBUTION' and \
                not any(f[0] == 'self.state_modes.is_master()' and f[1] for f in facts):
            slave_returns.append(node)
            for f in facts:
                c = f.node
                if f[1] and isinstance(c, ast.Compare) and fm.norm.text(c.left) == 'self.state_modes.master_state':
                    cs = fsm.ev.const_set(c.comparators[0])
                    if cs and isinstance(c.ops[0], (ast.Eq, ast.In)):
                        W |= cs
    R.require(slave_returns, 'ElectionState.next: no Slave path to DISTRIBUTION found')
    need = ({'DISTRIBUTION'} | fsm.reachable('DISTRIBUTION', within=set(WORKING))) & set(WORKING)
    missing = sorted(need - W)
    for s in sorted(need):
        R.check(r5, s in W, 'a Slave leaves ELECTION when the Master is in %s' % s,
                'follow-window|ElectionState.next|%s' % s, u.loc(slave_returns[0]),
                'ElectionState.next releases a Slave only when the Master state is in %s; a Slave that becomes stable '
                'after the Master moved on to %s waits in ELECTION for ever' % (sorted(W), s))

    # ---------------------------------------------------------------- R6
    r6 = R.rule('R6', 'enum dispatch', '_check_failure_strategy returns SYNCHRONIZATION exactly under RESYNC, '
                'SHUTTING_DOWN exactly under SHUTDOWN and nothing under CONTINUE or without a failure', 3)
    u = P.unit('_SynchronizedState._check_failure_strategy')
    strategies = P.enum_members('SupvisorsFailureStrategies')
    seen = {}
    for val, facts, node in returns(u):
        k = fsm.ev.const(val) if val is not None else None
        if val is not None and k is None and not (isinstance(val, ast.Constant) and val.value is None):
            raise AnalysisError('_check_failure_strategy: return value %s not understood' % ast.unparse(val))
        strat = [f[0].split('SupvisorsFailureStrategies.')[1] for f in facts
                 if f[1] and f[0].startswith('strategy == SupvisorsFailureStrategies.')
                 or f[1] and f[0].startswith('self.supvisors.options.supvisors_failure_strategy == SupvisorsFailureStrategies.')]
        # "a failure": the truthy first non-None result of the four failure checks (closed form: no local names)
        closed = factmap(u).closed(node) if node is not None else set()
        CHECKS = ('self._check_user_failure()', 'self._check_core_failure()', 'self._check_strict_failure()',
                  'self._check_list_failure()')
        failing = any(pol and all(x in t for x in CHECKS) and t.startswith('next(') for t, pol in closed) or \
            any(pol and t.isidentifier() and all(x in _sources(u, t) for x in CHECKS) for t, pol in closed)
        seen[k] = (strat, failing, node)
    want = {'SYNCHRONIZATION': 'RESYNC', 'SHUTTING_DOWN': 'SHUTDOWN'}
    for k, s in want.items():
        ok = k in seen and seen[k][0] == [s] and seen[k][1]
        R.check(r6, ok, '%s decided exactly under %s and a failure' % (k, s), 'failure-strategy|%s' % k,
                u.loc(seen[k][2]) if k in seen and seen[k][2] is not None else u.loc(),
                '_check_failure_strategy: %s is %s' % (k, 'decided under %s' % (seen[k][:2],) if k in seen
                                                      else 'never decided'))
    # precedence of the failure causes: USER > CORE > STRICT > LIST (order of the sequence the first non-None is taken from)
    import re as _re
    order = []
    for n in own_nodes(u.node):
        seqs = []
        # the selection of the FIRST non-None failure: next(<generator>, ..) or a loop left by break
        if isinstance(n, ast.Call) and call_text(n) == 'next' and n.args and isinstance(n.args[0], ast.GeneratorExp) \
                and len(n.args[0].generators) == 1:
            seqs.append(n.args[0].generators[0].iter)
        elif isinstance(n, ast.For) and any(isinstance(x, ast.Break) for x in ast.walk(n)):
            seqs.append(n.iter)
        for it in seqs:
            toks = [m.group(1) or m.group(2) for m in _re.finditer(
                r'_check_(user|core|strict|list)_failure|SynchronizationOptions\.(USER|CORE|STRICT|LIST)',
                closed_text(u, it))]
            toks = [t.upper() for t in toks]
            if len(set(toks)) == 4:
                order = [t for i, t in enumerate(toks) if t not in toks[:i]]
    R.check(r6, order == ['USER', 'CORE', 'STRICT', 'LIST'], 'failure causes are considered in the order USER > CORE > '
            'STRICT > LIST', 'failure-strategy|precedence', u.loc(), '_check_failure_strategy takes the first non-None '
            'failure in the order %s (documented: USER > CORE > STRICT > LIST)' % (order or 'not recognised'))
    from .c18 import rule_check_options
    rule_check_options(P, R, r6)
    extra = sorted(str(k) for k in seen if k not in want and k is not None)
    R.check(r6, not extra, 'no other state decided by the failure strategy', 'failure-strategy|extra', u.loc(),
            '_check_failure_strategy also decides %s' % extra)
    R.require(set(strategies) == {'CONTINUE', 'RESYNC', 'SHUTDOWN'}, 'SupvisorsFailureStrategies members changed: %s'
              % strategies)

    # ---------------------------------------------------------------- R7
    r7 = R.rule('R7', 'return-path facts', 'progress conditions of the forward chain: OFF leaves under local RUNNING; '
                'SYNCHRONIZATION leaves when ANY of its end-of-sync conditions holds (all _check_end_sync_* results '
                'are in the disjunction); the Master leaves ELECTION under stability+agreement and otherwise '
                're-selects; the Master leaves DISTRIBUTION as soon as the Starter is idle; ending states reach FINAL '
                'as soon as the Stopper is idle / the Master left', 8)
    u = P.unit('OffState._check_consistence')
    ok = any(fsm.ev.const(v) == 'SYNCHRONIZATION' and
             [tuple(f) for f in facts] == [('self.context.local_status.state == SupvisorsInstanceStates.RUNNING', True)]
             for v, facts, n in returns(u) if v is not None)
    R.check(r7, ok, 'OFF -> SYNCHRONIZATION exactly when the local instance is RUNNING', 'progress|OffState', u.loc(),
            'OffState._check_consistence does not return SYNCHRONIZATION under the sole fact "local instance RUNNING"')
    u = P.unit('SynchronizationState.next')
    sync_methods = sorted(m for k in P.mro(P.cls('SynchronizationState')) for m in k.methods
                          if m.startswith('_check_end_sync_'))
    R.require(len(sync_methods) >= 5, 'fewer than 5 _check_end_sync_* methods')
    assigned = {}
    for n in own_nodes(u.node):
        if isinstance(n, ast.Assign) and isinstance(n.targets[0], ast.Name) and isinstance(n.value, ast.Call) \
                and call_text(n.value).startswith('self._check_end_sync_'):
            assigned[n.targets[0].id] = call_text(n.value)[5:]
    got = None
    for v, facts, n in returns(u):
        if v is not None and fsm.ev.const(v) == 'ELECTION':
            for f in facts:
                if f[1] and isinstance(f.node, ast.BoolOp) and isinstance(f.node.op, ast.Or):
                    got = sorted(assigned.get(x.id, '?' + x.id) if isinstance(x, ast.Name) else '?' for x in f.node.values)
                elif f[1] and isinstance(f.node, ast.Name) and f.node.id in assigned:
                    got = (got or []) + [assigned[f.node.id]]
    R.check(r7, got is not None and sorted(got) == sync_methods,
            'SYNCHRONIZATION -> ELECTION under the disjunction of all %d end-of-sync conditions' % len(sync_methods),
            'progress|SynchronizationState', u.loc(),
            'SynchronizationState.next leaves under %s, not under the disjunction of all of %s' % (got, sync_methods))
    u = P.unit('SynchronizationState._check_end_sync_timeout')
    ok = any(isinstance(v, ast.Constant) and v.value is True and
             any(f[1] and f[0] == 'SynchronizationOptions.TIMEOUT in self.supvisors.options.synchro_options' for f in facts)
             and any(f[1] and f[0] in ('uptime >= self.supvisors.options.synchro_timeout', 'uptime >= synchro_timeout',
                                       'uptime > self.supvisors.options.synchro_timeout') for f in facts)
             and len(facts) == 2
             for v, facts, n in returns(u) if v is not None)
    R.check(r7, ok, 'TIMEOUT ends the synchronization as soon as uptime >= synchro_timeout', 'progress|sync-timeout',
            u.loc(), '_check_end_sync_timeout does not return True under exactly (TIMEOUT selected, uptime >= '
            'synchro_timeout)')
    u = P.unit('ElectionState.next')
    fm = factmap(u)
    master_ret = [(v, facts, n) for v, facts, n in returns(u) if v is not None and fsm.ev.const(v) == 'DISTRIBUTION'
                  and any(f[0] == 'self.state_modes.is_master()' and f[1] for f in facts)]
    ok = len(master_ret) == 1 and {tuple(f) for f in master_ret[0][1]} == {
        ('next_state', False), ('self.state_modes.is_stable()', True), ('self.state_modes.check_master()', True),
        ('self.state_modes.is_master()', True)}
    R.check(r7, ok, 'the Master leaves ELECTION under exactly (stable, agreed Master, is Master)',
            'progress|ElectionState-master', u.loc(), 'ElectionState.next: Master path to DISTRIBUTION is under %s' %
            [sorted(tuple(f) for f in m[1]) for m in master_ret])
    sel = calls_named(u, 'self.state_modes.select_master')
    ok = len(sel) >= 1 and all({tuple(f) for f in fm.at(c)} <= {('next_state', False),
                                                                 ('self.state_modes.is_stable()', True),
                                                                 ('self.state_modes.check_master()', False)}
                               and ('self.state_modes.is_stable()', True) in {tuple(f) for f in fm.at(c)} for c in sel)
    R.check(r7, ok, 'a stable context without agreed Master re-selects a Master at every evaluation',
            'progress|ElectionState-select', u.loc(), 'ElectionState.next does not call select_master() whenever the '
            'context is stable and no transition is taken')
    u = P.unit('DistributionState._master_next')
    rs = [(fsm.ev.const(v), {tuple(f) for f in facts}) for v, facts, n in returns(u) if v is not None]
    ok = ('DISTRIBUTION', {('self.supvisors.starter.in_progress()', True)}) in rs and \
         ('OPERATION', {('self.supvisors.starter.in_progress()', False)}) in rs and len(rs) == 2
    R.check(r7, ok, 'the Master leaves DISTRIBUTION exactly when the Starter is idle', 'progress|DistributionState',
            u.loc(), 'DistributionState._master_next returns %s' % sorted((k, sorted(f)) for k, f in rs))
    for cname, own in (('RestartingState', 'RESTARTING'), ('ShuttingDownState', 'SHUTTING_DOWN')):
        u = P.unit(cname + '._master_next')
        rs = [(fsm.ev.const(v), {tuple(f) for f in facts}) for v, facts, n in returns(u) if v is not None]
        ok = (own, {('self.supvisors.stopper.in_progress()', True)}) in rs and \
             ('FINAL', {('self.supvisors.stopper.in_progress()', False)}) in rs and len(rs) == 2
        R.check(r7, ok, 'the Master leaves %s exactly when the Stopper is idle' % own, 'progress|%s-master' % cname,
                u.loc(), '%s._master_next returns %s' % (cname, sorted((k, sorted(f)) for k, f in rs)))
        u = P.unit(cname + '._slave_next')
        d, _ = fsm.method_returns(own, '_slave_next')
        stay = [facts for v, facts, n in returns(u) if v is not None and fsm.ev.const(v) == own]
        ok = d == {own, 'FINAL'} and all(any(f[1] and f[0] == 'self.state_modes.master_state == SupvisorsStates.%s' % own
                                             for f in facts) for facts in stay)
        R.check(r7, ok, 'a Slave stays in %s only while its Master does, else FINAL' % own, 'progress|%s-slave' % cname,
                u.loc(), '%s._slave_next returns %s / stays under other facts than "Master in %s"' %
                (cname, sorted(map(str, d)), own))
    from .c05 import rule_conflict_scan
    rule_conflict_scan(P, R, r7)
    # re-election makes progress only if a Master that left RUNNING is forgotten (same obligations as C01.R3), and a
    # peer that comes back is only reachable again if the broken ServerProxy was dropped
    from .c01 import rule_master
    rule_master(P, R, r7)
    shared.proxy_renewed_on_failure(P, R, r7)

    # ---------------------------------------------------------------- R8
    r8 = R.rule('R8', 'must-call under fact', 'no start or stop job stays pending on a lost instance: both _common_next '
                'forward the lost instances to Starter and Stopper, every command targeting a lost instance is removed '
                'and the sequence moves on (same obligations as C10.R4)', 6)
    shared.jobs_dropped_with_instance(P, R, r8)
    R.assume('Liveness of the composed system (bounded return to OPERATION under all fault prefixes and message '
             'interleavings) is NOT decided; these rules decide the structural ways progress is lost.')


def fm_text(u, e):
    return factmap(u).norm.text(e)


def _unconditional_in_try(u, text):
    """the call `text` is evaluated on every normal path of the first try body of the unit."""
    trys = [s for s in u.node.body if isinstance(s, ast.Try)]
    if not trys:
        return False
    fake = ast.FunctionDef(name='_', args=u.node.args, body=trys[0].body, decorator_list=[], returns=None,
                           lineno=u.node.lineno, col_offset=0)
    return must_call(fake, lambda c: call_text(c) == text)
