"""C10 - Every start/stop job terminates in bounded ticks whatever gets lost (structural clauses)."""
import ast
from ..model import own_nodes, AnalysisError
from ..defuse import closed_text
from ..paths import factmap, call_text, returns, must_call, all_paths, atoms
from .. import supstates
from .c16 import iter_mutation


def result_of(ret):
    """ProcessRequestResult member named in the returned tuple of timed_out()."""
    v = ret.value
    if isinstance(v, ast.Tuple) and len(v.elts) == 3:
        t = ast.unparse(v.elts[1])
        if t.startswith('ProcessRequestResult.'):
            return t.split('.')[1]
    return None


def inline_locals(expr, stmts):
    """text of expr with locals replaced by their last assignment among stmts (one level)."""
    defs = {}
    for s in stmts:
        if isinstance(s, ast.Assign) and isinstance(s.targets[0], ast.Name):
            defs[s.targets[0].id] = s.value

    class T(ast.NodeTransformer):
        def visit_Name(self, n):
            if n.id in defs and isinstance(n.ctx, ast.Load):
                return defs[n.id]
            return n
    import copy
    return ast.unparse(T().visit(copy.deepcopy(expr)))


def is_deadline(test, stmts):
    """`instance_status.sequence_counter > request_sequence_counter + (wait_ticks|minimum_ticks)` (either side)."""
    if not (isinstance(test, ast.Compare) and len(test.ops) == 1):
        return None
    l = inline_locals(test.left, stmts)
    r = inline_locals(test.comparators[0], stmts)
    op = type(test.ops[0])
    if op in (ast.Lt, ast.LtE):
        l, r, op = r, l, {ast.Lt: ast.Gt, ast.LtE: ast.GtE}[op]
    if op not in (ast.Gt, ast.GtE):
        return None
    # the same comparison on integers, written on the elapsed ticks: counter - request > margin
    if l == 'self.instance_status.sequence_counter - self.request_sequence_counter' and \
            r in ('self.wait_ticks', 'self.minimum_ticks'):
        return r.split('.')[1], ('>' if op is ast.Gt else '>=')
    if l != 'self.instance_status.sequence_counter':
        return None
    for margin in ('self.wait_ticks', 'self.minimum_ticks'):
        if r in ('self.request_sequence_counter + ' + margin, margin + ' + self.request_sequence_counter'):
            return margin.split('.')[1], ('>' if op is ast.Gt else '>=')
    return None


def run(P, R):
    st = supstates.load()

    # ---------------------------------------------------------------- R1
    r1 = R.rule('R1', 'must-call chain', 'the timeout check is unconditional: FiniteStateMachine.next calls '
                'starter.check() and stopper.check() before evaluating the state; Commander.check visits every current '
                'application job and ends with next(); ApplicationJobs.check calls timed_out() on every current '
                'command, removes it and calls fail_command under TIMED_OUT, removes it under SUCCESS, ends with '
                'next()', 7)
    u = P.unit('FiniteStateMachine.next')
    order = [call_text(c) for c in sorted((c for c in own_nodes(u.node) if isinstance(c, ast.Call)),
                                          key=lambda c: (c.lineno, c.col_offset))]
    for t in ('self.supvisors.starter.check', 'self.supvisors.stopper.check'):
        ok = must_call(u.node, lambda c, t=t: call_text(c) == t) and 'self.set_state' in order and \
            order.index(t) < order.index('self.set_state')
        R.check(r1, ok, 'next() always runs %s first' % t[15:], 'chain|fsm.next|%s' % t.split('.')[-2], u.loc(),
                'FiniteStateMachine.next does not call %s() on every path before evaluating the state' % t)
    u = P.unit('Commander.check')
    loops = [n for n in u.node.body if isinstance(n, ast.For)]
    ok = len(loops) == 1 and ast.unparse(loops[0].iter) in ('list(self.current_jobs.values())',) and \
        any(isinstance(c, ast.Call) and call_text(c) == '%s.check' % loops[0].target.id for c in ast.walk(loops[0])) \
        and not any(isinstance(x, ast.If) for x in loops[0].body)
    R.check(r1, ok, 'every current application job is checked', 'chain|Commander.check', u.loc(),
            'Commander.check does not call check() on every value of a copy of current_jobs')
    R.check(r1, must_call(u.node, lambda c: call_text(c) == 'self.next'), 'Commander.check ends with next()',
            'chain|Commander.check-next', u.loc(), 'Commander.check has a path that does not call next()')
    cn = P.unit('Commander.next')
    R.check(r1, must_call(cn.node, lambda c: call_text(c) == 'self.publish_state_modes'),
            'Commander.next always ends by publishing the progress status', 'chain|Commander.next-publish', cn.loc(),
            'Commander.next has a path that does not call publish_state_modes(): after abort() cleared the jobs, the '
            'starting / stopping flag stays set for ever')
    u = P.unit('ApplicationJobs.check')
    fm = factmap(u)
    loops = [n for n in u.node.body if isinstance(n, ast.For)]
    ok = len(loops) == 1 and ast.unparse(loops[0].iter) == 'list(self.current_jobs)'
    to = [c for c in own_nodes(u.node) if isinstance(c, ast.Call) and call_text(c) == 'command.timed_out']
    ok = ok and len(to) == 1 and not fm.at(to[0])
    R.check(r1, ok, 'timed_out() is evaluated for every current command', 'chain|ApplicationJobs.check', u.loc(),
            'ApplicationJobs.check does not call timed_out() unconditionally on every command of a copy of current_jobs')
    rem = [c for c in own_nodes(u.node) if isinstance(c, ast.Call) and call_text(c) == 'self.current_jobs.remove']
    fc = [c for c in own_nodes(u.node) if isinstance(c, ast.Call) and call_text(c) == 'self.fail_command']
    facts = sorted(sorted(tuple(f) for f in fm.at(c)) for c in rem)
    ok = facts == [[('result == ProcessRequestResult.SUCCESS', True)], [('result == ProcessRequestResult.TIMED_OUT', True)]] \
        and len(fc) == 1 and {tuple(f) for f in fm.at(fc[0])} == {('result == ProcessRequestResult.TIMED_OUT', True)} \
        and [ast.unparse(a) for a in fc[0].args[:2]] == ['command.process', 'command.identifier']
    R.check(r1, ok, 'a timed-out command is removed and its failure forced; a completed one is removed',
            'chain|ApplicationJobs.check-result', u.loc(), 'ApplicationJobs.check removes commands under %s and calls '
            'fail_command under %s' % (facts, [sorted(tuple(f) for f in fm.at(c)) for c in fc]))
    R.check(r1, must_call(u.node, lambda c: call_text(c) == 'self.next'), 'ApplicationJobs.check ends with next()',
            'chain|ApplicationJobs.check-next', u.loc(), 'ApplicationJobs.check has a path that does not call next()')
    un = [a for a in own_nodes(u.node) if isinstance(a, ast.Assign) and isinstance(a.targets[0], ast.Tuple)
          and a.value is to[0]] if to else []
    ok = len(un) == 1 and len(un[0].targets[0].elts) == 3 and ast.unparse(un[0].targets[0].elts[1]) == 'result'
    R.check(r1, ok, 'the verdict tested is the second element returned by timed_out()', 'chain|verdict', u.loc(),
            'ApplicationJobs.check does not unpack (expected_state, result, event_time) from timed_out()')

    # ---------------------------------------------------------------- R2
    r2 = R.rule('R2', 'return-path enumeration', 'every wait has a deadline: on each path of ProcessStartCommand.timed_out '
                'and ProcessStopCommand.timed_out returning IN_PROGRESS, a comparison `instance_status.sequence_counter > '
                'request_sequence_counter + (wait_ticks | minimum_ticks)` was evaluated false and its true branch returns '
                'TIMED_OUT - except the documented path (RUNNING, wait_exit, not ignore_wait_exit); the acknowledgement '
                '(STARTING/STOPPING not yet seen) is bounded by minimum_ticks, the completion by wait_ticks', 5)
    for cname, ack_states, run_states in (('ProcessStartCommand', {'STOPPED', 'EXITED', 'FATAL', 'UNKNOWN', 'STOPPING'},
                                           {'STARTING', 'BACKOFF'}),
                                          ('ProcessStopCommand', {'RUNNING', 'STARTING', 'BACKOFF'}, {'STOPPING'})):
        u = P.unit(cname + '.timed_out')
        R.require(not any(isinstance(n, (ast.For, ast.While)) for n in own_nodes(u.node)),
                  '%s.timed_out contains a loop' % cname)
        paths = all_paths(u.node)
        fmn = factmap(u).norm
        n_wait = 0
        for decs, stmts, ex in paths:
            if not isinstance(ex, ast.Return):
                R.require(ex is not None, '%s.timed_out can fall through without a verdict' % cname)
                continue
            res = result_of(ex)
            R.require(res is not None, '%s.timed_out returns %s' % (cname, ast.unparse(ex)))
            if res != 'IN_PROGRESS':
                continue
            n_wait += 1
            facts = []
            for t, pol in decs:
                facts += atoms(t, pol, fmn)
            states = supstates.refine(facts, 'process_state', st)
            deadline = None
            for t, pol in decs:
                d = is_deadline(t, stmts)
                if d and not pol:
                    # the sibling path (same prefix, test true) must return TIMED_OUT
                    idx = [i for i, (tt, pp) in enumerate(decs) if tt is t][0]
                    sib = [p for p in paths if len(p[0]) > idx and p[0][idx][0] is t and p[0][idx][1]
                           and [x[0] for x in p[0][:idx]] == [x[0] for x in decs[:idx]]
                           and [x[1] for x in p[0][:idx]] == [x[1] for x in decs[:idx]]]
                    if sib and all(isinstance(p[2], ast.Return) and result_of(p[2]) == 'TIMED_OUT' for p in sib):
                        deadline = d
            fs = {tuple(f) for f in facts}
            key_states = ','.join(sorted(states))
            if deadline is None:
                documented = cname == 'ProcessStartCommand' and states == {'RUNNING'} and \
                    ('self.process.rules.wait_exit', True) in fs and ('self.ignore_wait_exit', False) in fs
                R.check(r2, documented, '%s: wait in %s is the documented wait_exit exception' % (cname, key_states),
                        'no-deadline|%s|%s' % (cname, key_states), u.loc(ex),
                        '%s.timed_out can answer IN_PROGRESS for process state(s) %s without any tick deadline having '
                        'been evaluated on that path: such a job waits for ever when the event is lost' %
                        (cname, key_states))
            else:
                margin, op = deadline
                want = 'wait_ticks' if states <= run_states else 'minimum_ticks'
                ok = margin == want and op == '>'
                R.check(r2, ok, '%s: wait in %s bounded by request counter + %s' % (cname, key_states, margin),
                        'deadline|%s|%s' % (cname, key_states), u.loc(ex),
                        '%s.timed_out bounds the wait in state(s) %s by `counter %s request + %s` (expected `> request '
                        '+ %s`)' % (cname, key_states, op, margin, want))
        R.require(n_wait >= 2, '%s.timed_out: fewer than 2 waiting paths' % cname)
    for cname in ('ProcessStartCommand', 'ProcessStopCommand'):
        u = P.unit(cname + '.timed_out')
        sdef = [a for a in own_nodes(u.node) if isinstance(a, ast.Assign) and ast.unparse(a.targets[0]) == 'process_state']
        R.check(r2, len(sdef) == 1 and ast.unparse(sdef[0].value) == "instance_info['state']", '%s tests the state '
                'reported by the targeted instance' % cname, 'deadline|%s|state-source' % cname, u.loc(),
                '%s.timed_out does not read the process state from the targeted instance info' % cname)
    usc = P.unit('ProcessCommand.update_sequence_counter')
    ok = any(isinstance(a, ast.Assign) and ast.unparse(a.targets[0]) == 'self.request_sequence_counter' and
             ast.unparse(a.value) == 'self.instance_status.sequence_counter' for a in own_nodes(usc.node))
    R.check(r2, ok, 'the reference counter is the target counter at request time', 'deadline|reference', usc.loc(),
            'update_sequence_counter does not store instance_status.sequence_counter')
    for q in ('ProcessStartCommand.start', 'ProcessStopCommand.stop'):
        u = P.unit(q)
        R.check(r2, must_call(u.node, lambda c: call_text(c) == 'self.update_sequence_counter'),
                '%s stamps the request' % q, 'deadline|stamp|%s' % q, u.loc(), '%s does not stamp the request with the '
                'current sequence counter' % q)

    # ---------------------------------------------------------------- R3
    r3 = R.rule('R3', 'must-call + payload', 'a job given up is published cluster-wide: fail_command -> '
                'listener.force_process_state, which applies the forced payload locally (fsm.on_process_state_event '
                'with the local status) AND publishes the same payload (send_process_state_event); the payload carries '
                'forced=True, the failure state and the reason; failure_state is FATAL for starts, STOPPED for stops; '
                'a forced event is accepted even if the sender does not know the program', 7)
    u = P.unit('SupervisorListener.force_process_state')
    calls = {call_text(c): c for c in own_nodes(u.node) if isinstance(c, ast.Call)}
    a, b = calls.get('self.fsm.on_process_state_event'), calls.get('self.rpc_handler.send_process_state_event')
    ok = a is not None and b is not None and must_call(u.node, lambda c: c is a) and must_call(u.node, lambda c: c is b) \
        and [ast.unparse(x) for x in a.args] == ['self.local_status', 'payload'] and \
        [ast.unparse(x) for x in b.args] == ['payload']
    R.check(r3, bool(ok), 'the forced state is applied locally and published with the same payload',
            'forced|force_process_state', u.loc(), 'force_process_state does not always call both '
            'fsm.on_process_state_event(local_status, payload) and rpc_handler.send_process_state_event(payload)')
    pl = [d for d in own_nodes(u.node) if isinstance(d, ast.Dict)]
    keys = {}
    for d in pl:
        for k, v in zip(d.keys, d.values):
            if isinstance(k, ast.Constant):
                keys[k.value] = ast.unparse(v)
    ok = keys.get('forced') == 'True' and keys.get('state') == 'forced_state' and keys.get('spawnerr') == 'reason' and \
        keys.get('identifier') == 'identifier' and keys.get('now_monotonic') == 'event_time' and \
        keys.get('group') == 'process.application_name' and keys.get('name') == 'process.process_name'
    R.check(r3, ok, 'the payload is a forced event for that process, state, reason and event time', 'forced|payload',
            u.loc(), 'force_process_state builds the payload %s' % {k: keys.get(k) for k in
                                                                    ('forced', 'state', 'spawnerr', 'identifier',
                                                                     'now_monotonic', 'group', 'name')})
    for cname, want in (('ApplicationStartJobs', 'ProcessStates.FATAL'), ('ApplicationStopJobs', 'ProcessStates.STOPPED')):
        c = P.cls(cname)
        got = None
        for k in P.mro(c):
            init = k.methods.get('__init__')
            if init:
                for asg in own_nodes(init.node):
                    if isinstance(asg, ast.Assign) and ast.unparse(asg.targets[0]) == 'self.failure_state':
                        got = got or ast.unparse(asg.value)
            if got is None and 'failure_state' in k.cattrs:
                got = ast.unparse(k.cattrs['failure_state'][1])
            if got:
                break
        R.check(r3, got == want, '%s gives up with %s' % (cname, want), 'forced|failure_state|%s' % cname,
                c.mod.relpath + ':%d' % c.node.lineno, '%s.failure_state is %s' % (cname, got))
    u = P.unit('Context.on_process_state_event')
    cp = [c for c in own_nodes(u.node) if isinstance(c, ast.Call) and call_text(c) == 'self.check_process']
    fdef = [a for a in own_nodes(u.node) if isinstance(a, ast.Assign) and ast.unparse(a.targets[0]) == 'forced_event']
    ok = len(cp) == 1 and len(cp[0].args) == 3 and ((ast.unparse(cp[0].args[2]) == 'not forced_event' and
                                                     len(fdef) == 1 and ast.unparse(fdef[0].value) == "'forced' in event")
                                                    or ast.unparse(cp[0].args[2]) == "'forced' not in event")
    R.check(r3, ok, 'a forced event does not require the sender to know the program', 'forced|check_source', u.loc(),
            'Context.on_process_state_event checks the source of a forced event (check_process(..., not forced_event) '
            'expected): a give-up issued by an instance that does not have the program is discarded')
    fm = factmap(u)
    fs_ = [c for c in own_nodes(u.node) if isinstance(c, ast.Call) and call_text(c) == 'process.force_state']
    ok = len(fs_) == 1 and fm.has(fs_[0], "'forced' in event", True)
    R.check(r3, ok, 'a forced event goes through ProcessStatus.force_state', 'forced|force_state', u.loc(),
            'Context.on_process_state_event does not call process.force_state(event) under forced_event')
    u = P.unit('ProcessStatus.force_state')
    fm = factmap(u)
    st_ = [a for a in own_nodes(u.node) if isinstance(a, ast.Assign) and ast.unparse(a.targets[0]) == 'self.forced_state']
    ok = len(st_) == 1 and ast.unparse(st_[0].value) == "event['state']" and fm.has(st_[0], 'force_state', True)
    R.check(r3, ok, 'the forced state is stored unless newer information arrived', 'forced|store', u.loc(),
            'ProcessStatus.force_state does not store event[state] under force_state')

    # the arbitration compares with event_time = date of the last EVENT received from that instance: it is written when
    # an event is stored (add_info / update_info), never on the periodic refresh of the times at each TICK
    writers = set()
    for wu in P.all_units():
        if wu.cls is None or wu.cls.name != 'ProcessStatus':
            continue
        for n in own_nodes(wu.node):
            if isinstance(n, ast.Subscript) and isinstance(n.ctx, ast.Store) and isinstance(n.slice, ast.Constant) \
                    and n.slice.value == 'event_time':
                writers.add(wu.name)
    R.check(r3, writers == {'add_info', 'update_info'}, 'event_time is stamped by the storage of an event only',
            'forced|event_time-writers', P.unit('ProcessStatus.update_times').loc(),
            'info[event_time] is written by %s (expected add_info and update_info only): refreshed at each TICK, it '
            'makes force_state dismiss a forced event that crossed a TICK' % sorted(writers))
    from . import shared as _shared
    _shared.forced_payload_copied(P, R, r3)

    # ---------------------------------------------------------------- R4
    r4 = R.rule('R4', 'must-call under fact', 'jobs are dropped with their instance: both _common_next implementations '
                'forward (lost_instances, lost_processes) to Starter and Stopper exactly when lost_instances is not '
                'empty; Commander.on_instances_invalidation reaches every current and planned application job and ends '
                'with next(); ApplicationJobs.on_instances_invalidation removes every command targeting a lost instance '
                '(iterating over a copy) and applies the failure strategy', 7)
    for q in ('_MasterSlaveState._common_next', '_WorkingState._common_next'):
        u = P.unit(q)
        fm = factmap(u)
        for tgt in ('starter', 'stopper'):
            cs = [c for c in own_nodes(u.node) if isinstance(c, ast.Call)
                  and call_text(c) == 'self.supvisors.%s.on_instances_invalidation' % tgt]
            ok = len(cs) == 1 and {tuple(f) for f in fm.at(cs[0])} == {('self.lost_instances', True)} and \
                [ast.unparse(a) for a in cs[0].args] == ['self.lost_instances', 'self.lost_processes']
            R.check(r4, ok, '%s informs the %s of every lost instance' % (q, tgt), 'lost|%s|%s' % (q, tgt), u.loc(),
                    '%s does not call %s.on_instances_invalidation(lost_instances, lost_processes) exactly under '
                    '`self.lost_instances` (found under %s)' % (q, tgt, [sorted(tuple(f) for f in fm.at(c)) for c in cs]))
    u = P.unit('_SupvisorsBaseState._check_instances')
    ok = any(isinstance(a, ast.Assign) and ast.unparse(a.targets[0]) == '(self.lost_instances, self.lost_processes)'
             and ast.unparse(a.value) == 'self.context.invalidate_failed()' for a in own_nodes(u.node))
    R.check(r4, ok, 'the lost instances and processes come from invalidate_failed()', 'lost|source', u.loc(),
            '_check_instances does not store the result of context.invalidate_failed()')
    u = P.unit('Commander.on_instances_invalidation')
    # every current AND every planned application job is informed (closed forms of what the informing loops iterate:
    # two loops, or one loop over a list gathering both), then next()
    calls_ = [c for c in own_nodes(u.node) if isinstance(c, ast.Call) and isinstance(c.func, ast.Attribute)
              and c.func.attr == 'on_instances_invalidation' and not ast.unparse(c.func.value).startswith('self.')]
    recv = ' '.join(closed_text(u, c.func.value) for c in calls_)
    for l in own_nodes(u.node):
        if isinstance(l, ast.For) and any(x is c for c in calls_ for x in ast.walk(l)):
            recv += ' ' + closed_text(u, l.iter)
    srcs = recv + ' ' + ' '.join(ast.unparse(a.value) for a in own_nodes(u.node) if isinstance(a, (ast.Assign, ast.AugAssign)))
    ok = bool(calls_) and 'self.current_jobs.values()' in srcs and 'self.planned_jobs.values()' in srcs and \
        must_call(u.node, lambda c: call_text(c) == 'self.next')
    R.check(r4, ok, 'current and planned application jobs are all informed, then next()', 'lost|Commander', u.loc(),
            'Commander.on_instances_invalidation does not reach every current and planned application job / does not '
            'end with next()')
    u = P.unit('ApplicationJobs.on_instances_invalidation')
    fm = factmap(u)
    rem = [c for c in own_nodes(u.node) if isinstance(c, ast.Call) and call_text(c) == 'self.current_jobs.remove']
    loops = [l for l in u.node.body if isinstance(l, ast.For)]
    ok = len(rem) == 1 and {tuple(f) for f in fm.at(rem[0])} == {('command.identifier in invalidated_identifiers', True)} \
        and loops and ast.unparse(loops[0].iter) in ('list(self.current_jobs)', 'self.current_jobs.copy()',
                                                     'self.current_jobs[:]')
    R.check(r4, ok, 'every current command targeting a lost instance is removed (loop over a copy)',
            'lost|ApplicationJobs', u.loc(), 'ApplicationJobs.on_instances_invalidation does not remove exactly the '
            'commands whose identifier is invalidated while iterating over a copy of current_jobs')

    # what is REPORTED in progress: the starting / stopping jobs declared by a peer are forgotten with the peer
    from . import shared
    shared.modes_forgotten_when_lost(P, R, r4)
    # a command planned on an instance chosen in advance is not requested there once the instance is lost (its deadline
    # would count the ticks of the lost instance and never expire)
    shared.preassigned_target_withdrawn(P, R, r4)

    # ---------------------------------------------------------------- R5
    r5 = R.rule('R5', 'normalised expression', 'wait_ticks = ceil(secs / Tick5Event.period) + minimum_ticks, fed from '
                'startsecs (start) / stopwaitsecs (stop) of the targeted instance; minimum_ticks >= '
                'DEFAULT_TICK_TIMEOUT', 4)
    u = P.unit('ProcessCommand.wait_ticks[set]')
    arg = u.node.args.args[1].arg
    asg = [a for a in own_nodes(u.node) if isinstance(a, ast.Assign) and ast.unparse(a.targets[0]) == 'self._wait_ticks']
    ok = len(asg) == 1 and ast.unparse(asg[0].value) in (
        'math.ceil(%s / Tick5Event.period) + self.minimum_ticks' % arg,
        'self.minimum_ticks + math.ceil(%s / Tick5Event.period)' % arg)
    R.check(r5, ok, 'the program duration is converted to ticks, rounded up, plus the margin', 'ticks|setter', u.loc(),
            'wait_ticks setter stores %s' % [ast.unparse(a.value) for a in asg])
    for cname, key in (('ProcessStartCommand', 'startsecs'), ('ProcessStopCommand', 'stopwaitsecs')):
        u = P.unit(cname + '.update_identifier')
        asg = [a for a in own_nodes(u.node) if isinstance(a, ast.Assign) and ast.unparse(a.targets[0]) == 'self.wait_ticks']
        ok = len(asg) == 1 and ast.unparse(asg[0].value) == "self.get_instance_info()['%s']" % key
        R.check(r5, ok, '%s waits for %s of the targeted instance' % (cname, key), 'ticks|%s' % cname, u.loc(),
                '%s.update_identifier sets wait_ticks from %s' % (cname, [ast.unparse(a.value) for a in asg]))
    u = P.unit('ProcessCommand.__init__')
    asg = [a for a in own_nodes(u.node) if isinstance(a, ast.Assign) and ast.unparse(a.targets[0]) == 'self.minimum_ticks']
    ok = len(asg) == 1 and isinstance(asg[0].value, ast.Call) and call_text(asg[0].value) == 'max' and \
        'ProcessCommand.DEFAULT_TICK_TIMEOUT' in [ast.unparse(x) for x in asg[0].value.args]
    R.check(r5, ok, 'the margin is at least DEFAULT_TICK_TIMEOUT', 'ticks|minimum', u.loc(),
            'ProcessCommand.__init__ sets minimum_ticks to %s' % [ast.unparse(a.value) for a in asg])
    R.assume('The numeric bound in ticks under event loss is NOT decided. A deadline counts the ticks of the TARGET '
             'instance: on a dead target it is R4 (jobs dropped with their instance), not R2, that ends the job.')
