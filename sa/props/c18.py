"""C18 - Rules and options resolve totally, in-domain, with documented precedence (structural clauses)."""
import ast
import re
from ..model import own_nodes, AnalysisError
from ..paths import ctext, factmap, call_text, returns, must_call, cf
from ..defuse import closed_text
from ..escape import Escape

DOC_INTERVAL = re.compile(r'\[``(-?\d+(?:\.\d+)?)``\s*;\s*``(-?\d+(?:\.\d+)?)``\]')


def documented_intervals(P):
    """{option: (lo, hi)} from docs/configuration.rst: 'Value(s) in [``a`` ; ``b``]' under the ``option`` heading."""
    f = P.root / 'docs' / 'configuration.rst'
    if not f.exists():
        return None
    out, cur = {}, None
    for line in f.read_text().splitlines():
        m = re.match(r'^``([a-z_]+)``\s*$', line)
        if m:
            cur = m.group(1)
            continue
        if cur:
            m = DOC_INTERVAL.search(line)
            if m and cur not in out:
                out[cur] = (float(m.group(1)), float(m.group(2)))
    return out


def const_num(P, mod, cls, e):
    if isinstance(e, ast.Constant) and isinstance(e.value, (int, float)):
        return float(e.value)
    if isinstance(e, ast.Attribute) and isinstance(e.value, ast.Name):
        c = P.classes.get(e.value.id)
        if c and e.attr in c.cattrs and isinstance(c.cattrs[e.attr][1], ast.Constant):
            return float(c.cattrs[e.attr][1].value)
    if isinstance(e, ast.Subscript) and isinstance(e.slice, ast.Constant):
        return None
    return None


def converter_interval(P, u, limits=None):
    """(lo, hi, nan_safe, var) accepted by a converter whose range guard raises ValueError; None if no guard.
    The guard may be one test (`lo > v or v > hi`, `not lo <= v <= hi`) or one raising `if` per bound."""
    def num(e, which):
        if limits and ast.unparse(e) == 'limits[%d]' % which:
            return limits[which]
        return const_num(P, u.mod, u.cls, e)
    lo = hi = var = None
    seen = False
    for n in own_nodes(u.node):
        if not isinstance(n, ast.If) or not any(isinstance(x, ast.Raise) for x in n.body):
            continue
        t = n.test
        # form B: not lo <= v <= hi
        if isinstance(t, ast.UnaryOp) and isinstance(t.op, ast.Not) and isinstance(t.operand, ast.Compare) and \
                len(t.operand.ops) == 2 and all(isinstance(o, ast.LtE) for o in t.operand.ops):
            c = t.operand
            return (num(c.left, 0), num(c.comparators[1], 1), True, ast.unparse(c.comparators[0]))
        # form A: lo > v or v > hi  /  v < lo or v > hi, in one test or in successive raising tests
        parts = t.values if isinstance(t, ast.BoolOp) and isinstance(t.op, ast.Or) else [t]
        if not any(isinstance(x, ast.Compare) and len(x.ops) == 1 and isinstance(x.ops[0], (ast.Lt, ast.Gt, ast.LtE, ast.GtE))
                   and (num(x.left, 0) is not None or num(x.comparators[0], 0) is not None or
                        num(x.left, 1) is not None or num(x.comparators[0], 1) is not None) and
                   not (isinstance(x.left, ast.Call) and call_text(x.left) == 'len') for x in parts):
            continue        # a refusal that is not a range guard on the value (number of elements, ...)
        if not all(isinstance(x, ast.Compare) and len(x.ops) == 1 for x in parts):
            return ('?', ast.unparse(t))
        for c in parts:
            l, op, r = c.left, c.ops[0], c.comparators[0]
            lv, rv = num(l, 0), num(r, 1)
            lv0, rv0 = num(l, 1), num(r, 0)
            if lv is not None and isinstance(op, ast.Gt):          # lo > v
                lo, var = lv, ast.unparse(r)
            elif rv0 is not None and isinstance(op, ast.Lt):       # v < lo
                lo, var = rv0, ast.unparse(l)
            elif rv is not None and isinstance(op, ast.Gt):        # v > hi
                hi, var = rv, ast.unparse(l)
            elif lv0 is not None and isinstance(op, ast.Lt):       # hi < v
                hi, var = lv0, ast.unparse(r)
            else:
                return ('?', ast.unparse(t))
            seen = True
    if not seen:
        # the guard may sit in a helper of the same class that the converter applies to its value(s)
        if u.cls is not None and not limits:
            for c in own_nodes(u.node):
                if isinstance(c, ast.Call) and isinstance(c.func, ast.Attribute) and isinstance(c.func.value, ast.Name) and \
                        c.func.value.id in ('self', u.cls.name) and c.func.attr in u.cls.methods and \
                        u.cls.methods[c.func.attr] is not u and c.func.attr != 'to_integer':
                    iv = converter_interval(P, u.cls.methods[c.func.attr])
                    if iv is not None:
                        return iv
        return None
    return (lo, hi, False, var)


def running_maximum(u):
    """get_best_pattern written as a running maximum: `for p in patterns: m = re.search(f'({p})', name)`;
    `if m and (perf is None or len(m.group()) > len(perf)): best, perf = p, m.group()`; `return best` - strict comparison,
    so the first pattern wins a tie as with max()."""
    fm = factmap(u)
    for l in own_nodes(u.node):
        if not (isinstance(l, ast.For) and ast.unparse(l.iter) == 'patterns' and isinstance(l.target, ast.Name)):
            continue
        p = l.target.id
        srch = "re.search(f'({%s})', name)" % p
        for a in ast.walk(l):
            if not (isinstance(a, ast.Assign) and isinstance(a.targets[0], ast.Tuple) and isinstance(a.value, ast.Tuple)
                    and len(a.targets[0].elts) == 2 == len(a.value.elts) and
                    all(isinstance(x, ast.Name) for x in a.targets[0].elts)):
                continue
            best, perf = (x.id for x in a.targets[0].elts)
            if ast.unparse(a.value.elts[0]) != p:
                continue
            cap_closed = closed_text(u, a.value.elts[1])
            cap = ast.unparse(a.value.elts[1])
            if cap_closed.replace('each(patterns)', p) != srch + '.group()':
                continue
            facts = {(f[0], f[1]) for f in fm.at(a)}
            m_var = cap[:-len('.group()')]
            strict = {cf(t)[0] for t in ('len(%s) > len(%s)' % (cap, perf), '%s is None or len(%s) > len(%s)' % (perf, cap, perf),
                                        'not %s or len(%s) > len(%s)' % (perf, cap, perf))}
            if (m_var, True) not in facts or not any(f[1] and cf(f[0])[0] in strict for f in facts):
                continue
            # the search may stop early only once the whole name is captured (nothing can be longer)
            whole = {cf(t)[0] for t in ('len(%s) == len(name)' % perf, 'len(%s) >= len(name)' % perf,
                                        'len(%s) == len(name)' % cap, '%s == name' % perf)}
            if not all(any(f[1] and cf(f[0])[0] in whole for f in fm.at(b)) for b in ast.walk(l) if isinstance(b, ast.Break)):
                continue
            rets = [v for v, f, n in returns(u) if v is not None and not (isinstance(v, ast.Constant) and v.value is None)]
            if len(rets) == 1 and isinstance(rets[0], ast.Name) and rets[0].id == best:
                return True
    return False


def rule_check_options(P, R, r6):
    """consistency of the synchronisation options (shared with C08: CONTINUE is forced under TIMEOUT, otherwise RESYNC and
    the synchro timeout loop for ever between SYNCHRONIZATION and ELECTION)."""
    u = P.unit('SupvisorsOptions.check_options')
    fm = factmap(u)
    rm = {ast.unparse(c.args[0]).split('.')[-1]: {tuple(f) for f in fm.at(c)} for c in own_nodes(u.node)
          if isinstance(c, ast.Call) and call_text(c) == 'self.synchro_options.remove'}
    ok = rm.get('CORE') == {('self.core_identifiers', False), ('SynchronizationOptions.CORE in self.synchro_options', True)}
    R.check(r6, ok, 'CORE is dropped exactly when core_identifiers is empty', 'consistency|CORE', u.loc(),
            'check_options removes CORE under %s' % sorted(rm.get('CORE', ())))
    ok = rm.get('STRICT') == {('self.supvisors_list', False), ('SynchronizationOptions.STRICT in self.synchro_options', True)}
    R.check(r6, ok, 'STRICT is dropped exactly when supvisors_list is empty (None or empty list)',
            'consistency|STRICT', u.loc(), 'check_options removes STRICT under %s' % sorted(rm.get('STRICT', ())))
    rz = [(n, {tuple(f) for f in fm.at(n)}) for n in own_nodes(u.node) if isinstance(n, ast.Raise)]
    ok = len(rz) == 1 and rz[0][1] == {('self.synchro_options', False)} and \
        (rz[0][0].lineno, rz[0][0].col_offset) > max([(c.lineno, c.col_offset) for c in own_nodes(u.node) if isinstance(c, ast.Call)
                               and call_text(c) == 'self.synchro_options.remove'] or [(0, 0)])
    R.check(r6, ok, 'only an empty resulting synchro_options is refused', 'consistency|empty', u.loc(),
            'check_options raises under %s' % [sorted(x[1]) for x in rz])
    asg = [a for a in own_nodes(u.node) if isinstance(a, ast.Assign)
           and ast.unparse(a.targets[0]) == 'self.supvisors_failure_strategy']
    ok = len(asg) == 1 and ast.unparse(asg[0].value) == 'SupvisorsFailureStrategies.CONTINUE' and \
        ('SynchronizationOptions.TIMEOUT in self.synchro_options', True) in {tuple(f) for f in fm.at(asg[0])}
    R.check(r6, ok, 'TIMEOUT forces supvisors_failure_strategy to CONTINUE', 'consistency|TIMEOUT', u.loc(),
            'check_options does not force CONTINUE under TIMEOUT')


def int_interval(facts, var):
    """(lo, hi) that a set of facts imposes on the INTEGER variable var (None = unbounded)."""
    lo = hi = None

    def bound(op, c, pol):
        nonlocal lo, hi
        # var <op> c   with polarity pol
        if not pol:
            op = {ast.Lt: ast.GtE, ast.LtE: ast.Gt, ast.Gt: ast.LtE, ast.GtE: ast.Lt}[op]
        if op is ast.GtE:
            lo = c if lo is None else max(lo, c)
        elif op is ast.Gt:
            lo = c + 1 if lo is None else max(lo, c + 1)
        elif op is ast.LtE:
            hi = c if hi is None else min(hi, c)
        elif op is ast.Lt:
            hi = c - 1 if hi is None else min(hi, c - 1)
    MIR = {ast.Lt: ast.Gt, ast.LtE: ast.GtE, ast.Gt: ast.Lt, ast.GtE: ast.LtE}
    for f in facts:
        n = getattr(f, 'node', None)
        if not isinstance(n, ast.Compare):
            continue
        terms = [n.left] + list(n.comparators)
        for (l, op, r) in zip(terms, n.ops, terms[1:]):
            if type(op) not in MIR:
                continue
            if len(n.ops) > 1 and not f[1]:
                continue        # the negation of a chained comparison is a disjunction: says nothing on its own
            if isinstance(l, ast.Name) and l.id == var and isinstance(r, ast.Constant) and isinstance(r.value, int):
                bound(type(op), r.value, f[1])
            elif isinstance(r, ast.Name) and r.id == var and isinstance(l, ast.Constant) and isinstance(l.value, int):
                bound(MIR[type(op)], l.value, f[1])
    return lo, hi


def run(P, R):
    PR = P.cls('Parser')

    # ---------------------------------------------------------------- R1
    r1 = R.rule('R1', 'domain guards at the store', 'every value stored by the rule loaders is in its domain: sequences '
                'under value >= 0 (int() inside try/except (TypeError, ValueError)); expected_load under 0 <= value <= '
                '100; booleans through strtobool inside try/except ValueError; enumerations through klass[value] inside '
                'try/except KeyError, with the enum class that the rules attribute is annotated with', 12)
    spec = {'load_sequence': ('value >= 0', {'TypeError', 'ValueError'}, 'int(str_value)'),
            'load_expected_loading': ('0 <= value <= 100', {'TypeError', 'ValueError'}, 'int(str_value)'),
            'load_boolean': (None, {'ValueError'}, 'bool(strtobool(str_value))'),
            'load_enum': (None, {'KeyError'}, None)}
    for nm, (guard, excs, conv) in spec.items():
        u = P.unit('Parser.' + nm)
        fm = factmap(u)
        # the store site: setattr(rules, <attr>, value) or the plain assignment rules.<attr> = value
        rules_arg = u.node.args.args[-1].arg
        sets = [c for c in own_nodes(u.node) if isinstance(c, ast.Call) and call_text(c) == 'setattr']
        plain = [a for a in own_nodes(u.node) if isinstance(a, ast.Assign) and isinstance(a.targets[0], ast.Attribute)
                 and ast.unparse(a.targets[0].value) == rules_arg]
        R.require(len(sets) + len(plain) == 1, 'Parser.%s: expected one store into the rules (setattr or assignment)' % nm)
        stored_node = sets[0].args[2] if sets else plain[0].value
        if not sets:
            sets = plain            # (facts and positions are taken at the store statement)
        # what is stored, in closed form (no local names), and the handlers around the expression that converts: the
        # store itself may sit in the try body after the conversion or in the `else:` clause of that try
        stored = closed_text(u, stored_node)
        want = closed_text(u, ast.parse(conv or 'klass[value]', mode='eval').body)
        cnodes = [x for x in own_nodes(u.node) if isinstance(x, (ast.Call, ast.Subscript)) and isinstance(x.ctx if
                  isinstance(x, ast.Subscript) else ast.Load(), ast.Load) and closed_text(u, x) == want]
        caught = set()
        for x in cnodes:
            hs = fm.handlers.get(id(x), ()) or fm.handlers.get(id(fm.stmt_of.get(id(x), x)), ())
            caught |= set(hs[-1][0]) if hs else set()
        ok = bool(cnodes) and caught == excs
        R.check(r1, ok, '%s converts inside try/except %s' % (nm, sorted(excs)), 'domain|%s|except' % nm, u.loc(),
                'Parser.%s converts the value inside try/except %s (expected %s): a malformed value escapes instead of '
                'leaving the default' % (nm, sorted(caught), sorted(excs)))
        facts = {tuple(f) for f in fm.at(sets[0])}
        if guard:
            # the value is an int (conversion checked below): the order facts on it define an integer interval, however
            # they are written (`value >= 0`, `not value < 0`, `0 <= value <= 100`, `not (value < 0 or value > 100)`)
            want_iv = (0, None) if guard == 'value >= 0' else (0, 100)
            R.check(r1, int_interval(fm.at(sets[0]), 'value') == want_iv, '%s stores only under %s' % (nm, guard), 'domain|%s|guard' % nm,
                    u.loc(), 'Parser.%s stores the value under %s instead of `%s`: an out-of-domain value replaces the '
                    'default' % (nm, sorted(f for f in facts if f[0] != 'str_value'), guard))
        R.check(r1, stored == want, '%s stores %s' % (nm, want), 'domain|%s|conversion' % nm, u.loc(),
                'Parser.%s stores %s' % (nm, stored))
    # enum class vs attribute annotation
    AR, PRu = P.cls('ApplicationRules'), P.cls('ProcessRules')
    n_enum = 0
    for q, rules_cls in (('Parser.load_application_rules', [AR]), ('Parser.load_model_rules', [PRu])):
        u = P.unit(q)
        for c in own_nodes(u.node):
            if isinstance(c, ast.Call) and call_text(c) == 'self.load_enum':
                n_enum += 1
                attr, klass = c.args[1].value, ast.unparse(c.args[2])
                anns = set()
                for rc in rules_cls:
                    m = P.member(rc, attr)
                    if m and m[0] == 'cattr' and m[2][0] is not None:
                        anns.add(ast.unparse(m[2][0]))
                R.check(r1, anns == {klass}, '%s: <%s> parsed with %s' % (q.split('.')[1], attr, klass),
                        'domain|enum-class|%s|%s' % (q.split('.')[1], attr), u.loc(c),
                        '%s parses <%s> with the enum %s but the rules attribute is declared %s: valid values are '
                        'rejected (or foreign members stored)' % (q, attr, klass, sorted(anns)))
            if isinstance(c, ast.Call) and call_text(c) in ('self.load_sequence', 'self.load_boolean'):
                attr = c.args[1].value
                for rc in rules_cls:
                    R.check(r1, P.member(rc, attr) is not None, '%s: <%s> is an attribute of %s' % (q.split('.')[1], attr,
                                                                                                 rc.name),
                            'domain|attr|%s|%s' % (q.split('.')[1], attr), u.loc(c),
                            '%s stores <%s> which is not an attribute of %s' % (q, attr, rc.name))
    R.require(n_enum >= 6, 'only %d load_enum calls found' % n_enum)

    # ---------------------------------------------------------------- R2
    r2 = R.rule('R2', 'dominance', 'an exact name beats any pattern (the pattern lookup is under the fact "direct find '
                'returned None") and among patterns the longest match wins (max over the length of the captured text); '
                'an invalid pattern is skipped', 5)
    for q, var in (('Parser.get_application_element', 'application_elt'), ('Parser.get_program_element', 'program_elt')):
        u = P.unit(q)
        fm = factmap(u)
        bp = [c for c in own_nodes(u.node) if isinstance(c, ast.Call) and call_text(c) == 'self.get_best_pattern']
        ok = len(bp) == 1 and fm.has(bp[0], '%s is None' % var, True)
        R.check(r2, ok, '%s tries patterns only when the exact name is absent' % q, 'exact-first|%s' % q, u.loc(),
                '%s calls get_best_pattern without the fact `%s is None`: a pattern can supersede an exact name' %
                (q, var))
    u = P.unit('Parser.get_application_element')
    ok = any(isinstance(l, ast.For) and ast.unparse(l.iter) == 'self.roots' and
             any(isinstance(b, ast.Break) for b in ast.walk(l)) for l in own_nodes(u.node))
    R.check(r2, ok, 'the exact search stops at the first rules file defining the name', 'exact-first|roots', u.loc(),
            'get_application_element does not stop at the first element found over self.roots')
    u = P.unit('Parser.get_best_pattern')
    mx = [c for c in own_nodes(u.node) if isinstance(c, ast.Call) and call_text(c) == 'max']
    ok = len(mx) == 1 and ast.unparse(mx[0].args[0]) == 'matching_patterns' and any(
        k.arg == 'key' and isinstance(k.value, ast.Lambda) and
        ast.unparse(k.value.body) == 'len(%s[1])' % k.value.args.args[0].arg for k in mx[0].keywords)
    ap = [c for c in own_nodes(u.node) if isinstance(c, ast.Call) and call_text(c) == 'matching_patterns.append']
    # name-independent (closed forms): the entry is (pattern, <match of the pattern>.group()) under a truthy match, and
    # the value returned is element 0 of the maximum
    ok = ok and len(ap) == 1 and isinstance(ap[0].args[0], ast.Tuple) and len(ap[0].args[0].elts) == 2
    if ok:
        srch = "re.search(f'({%s})', name)" % closed_text(u, ap[0].args[0].elts[0])
        ok = closed_text(u, ap[0].args[0].elts[1]) == srch + '.group()' and (srch, True) in factmap(u).closed(ap[0]) \
            and any(isinstance(l, ast.For) and ast.unparse(l.iter) == 'patterns' and
                    closed_text(u, l.target) == closed_text(u, ap[0].args[0].elts[0]) for l in own_nodes(u.node))
    rets = [v for v, f, n in returns(u) if v is not None and not (isinstance(v, ast.Constant) and v.value is None)]
    best = [a.targets[0].elts[0].id for a in own_nodes(u.node) if isinstance(a, ast.Assign) and mx and a.value is mx[0]
            and isinstance(a.targets[0], ast.Tuple) and isinstance(a.targets[0].elts[0], ast.Name)]
    ok = ok and len(rets) == 1 and (closed_text(u, rets[0]) == closed_text(u, mx[0]) + '[0]' or
                                    isinstance(rets[0], ast.Name) and best == [rets[0].id])
    if not ok:
        ok = running_maximum(u)
    R.check(r2, ok, 'the best pattern is the one with the longest captured text', 'best-pattern|max-len', u.loc(),
            'get_best_pattern does not select max(matching_patterns, key=len(captured text)) (nor keeps a running maximum '
            'with a strict comparison of the captured lengths)')
    fm = factmap(u)
    rs = [c for c in own_nodes(u.node) if isinstance(c, ast.Call) and call_text(c) == 're.search']
    ok = len(rs) == 1 and any('error' in h for hs in fm.handlers.get(id(rs[0]), ()) for h in hs)
    R.check(r2, ok, 'an invalid regular expression does not abort the lookup', 'best-pattern|re.error', u.loc(),
            'get_best_pattern evaluates re.search on a pattern read from the rules file outside try/except re.error: an '
            'XSD-valid file with an invalid pattern makes every lookup raise')

    # ---------------------------------------------------------------- R3
    r3 = R.rule('R3', 'ranking argument', 'model references are followed to depth 3 at most: load_model_rules returns '
                'under loop_check == 0, its only recursive call passes loop_check - 1, the initial value is '
                'Parser.LOOP_CHECK == 3; the referenced model is loaded BEFORE the element\'s own values (which '
                'therefore supersede it); no other recursion in sparser.py', 5)
    u = P.unit('Parser.load_model_rules')
    fm = factmap(u)
    rec = [c for c in own_nodes(u.node) if isinstance(c, ast.Call) and call_text(c) == 'self.load_model_rules']
    ok = len(rec) == 1 and ast.unparse(rec[0].args[2]) == 'loop_check - 1' and fm.has(rec[0], 'loop_check == 0', False)
    R.check(r3, ok, 'the recursion decreases loop_check and stops at 0', 'recursion|decrease', u.loc(),
            'load_model_rules recurses with `%s` / without the early return under loop_check == 0' %
            [ast.unparse(c.args[2]) for c in rec])
    first = [s for s in u.node.body if not (isinstance(s, ast.Expr) and isinstance(s.value, ast.Constant))][0]
    ok = isinstance(first, ast.If) and ctext(first.test) == ctext('loop_check == 0') and \
        any(isinstance(x, ast.Return) for x in first.body)
    R.check(r3, ok, 'the depth test is the first statement', 'recursion|first', u.loc(),
            'load_model_rules does not start with `if loop_check == 0: return`')
    m = P.member(PR, 'LOOP_CHECK')
    R.check(r3, bool(m) and isinstance(m[2][1], ast.Constant) and m[2][1].value == 3, 'LOOP_CHECK == 3',
            'recursion|constant', PR.mod.relpath, 'Parser.LOOP_CHECK is %s' % (ast.unparse(m[2][1]) if m else '?'))
    lp = P.unit('Parser.load_program_rules')
    c0 = [c for c in own_nodes(lp.node) if isinstance(c, ast.Call) and call_text(c) == 'self.load_model_rules']
    R.check(r3, len(c0) == 1 and ast.unparse(c0[0].args[2]) == 'Parser.LOOP_CHECK', 'the lookup starts with LOOP_CHECK',
            'recursion|initial', lp.loc(), 'load_program_rules starts the model chain with %s' %
            [ast.unparse(c.args[2]) for c in c0])
    loads = [c for c in own_nodes(u.node) if isinstance(c, ast.Call) and call_text(c).startswith('self.load_')
             and call_text(c) != 'self.load_model_rules']
    ok = bool(rec) and bool(loads) and all((rec[0].lineno, rec[0].col_offset) < (c.lineno, c.col_offset) for c in loads) and \
        all(ast.unparse(c.args[0]) == 'program_elt' for c in loads) and ast.unparse(rec[0].args[0]) == 'model_elt'
    R.check(r3, ok, 'the referenced model is loaded first, the element\'s own values supersede it', 'recursion|order',
            u.loc(), 'load_model_rules does not load the referenced model before the values of the element itself')
    others = []
    for nm, uu in PR.methods.items():
        if nm == 'load_model_rules':
            continue
        for c in own_nodes(uu.node):
            if isinstance(c, ast.Call) and call_text(c) == 'self.' + nm:
                others.append(nm)
    R.check(r3, not others, 'no other recursion in the parser', 'recursion|other', PR.mod.relpath,
            'recursive method(s) in Parser: %s' % others)

    # ---------------------------------------------------------------- R4
    r4 = R.rule('R4', 'must-call + reset facts', 'the dependency checks always run after a lookup (found or not); '
                'ProcessRules.check_dependencies runs its six checks; `required` without start_sequence is dropped; '
                'stop_sequence defaults to start_sequence exactly when unset (< 0) at both levels; "#"/"@" assignment '
                'walks the processes by process_index', 12)
    for q, call in (('Parser.load_program_rules', 'rules.check_dependencies'),
                    ('Parser.load_application_rules', 'rules.check_dependencies')):
        u = P.unit(q)
        R.check(r4, must_call(u.node, lambda c: call_text(c) == call), '%s always checks the dependencies' % q,
                'deps|%s' % q, u.loc(), '%s has a path that skips rules.check_dependencies()' % q)
    u = P.unit('ProcessRules.check_dependencies')
    names = [call_text(c)[5:] for c in sorted((c for c in own_nodes(u.node) if isinstance(c, ast.Call)),
                                              key=lambda c: c.lineno)]
    want = ['check_at_identifiers', 'check_hash_identifiers', 'check_sign_identifiers', 'check_start_sequence',
            'check_stop_sequence', 'check_autorestart']
    R.check(r4, names == want and not any(isinstance(n, ast.If) for n in own_nodes(u.node)),
            'ProcessRules.check_dependencies runs the six checks unconditionally', 'deps|process-checks', u.loc(),
            'ProcessRules.check_dependencies runs %s' % names)
    u = P.unit('ApplicationRules.check_dependencies')
    R.check(r4, must_call(u.node, lambda c: call_text(c) == 'self.check_stop_sequence'),
            'ApplicationRules.check_dependencies always defaults the stop sequence', 'deps|application-checks', u.loc(),
            'ApplicationRules.check_dependencies does not always call check_stop_sequence')
    u = P.unit('ProcessRules.check_start_sequence')
    fm = factmap(u)
    asg = [a for a in own_nodes(u.node) if isinstance(a, ast.Assign) and ast.unparse(a.targets[0]) == 'self.required']
    ok = len(asg) == 1 and ast.unparse(asg[0].value) == 'False' and \
        {tuple(f) for f in fm.at(asg[0])} == {('self.required', True), ('self.start_sequence == 0', True)}
    R.check(r4, ok, 'required is dropped exactly when start_sequence is 0', 'deps|required', u.loc(),
            'check_start_sequence resets required under %s' % [sorted(tuple(f) for f in fm.at(a)) for a in asg])
    for cname in ('ProcessRules', 'ApplicationRules'):
        u = P.unit(cname + '.check_stop_sequence')
        fm = factmap(u)
        asg = [a for a in own_nodes(u.node) if isinstance(a, ast.Assign) and ast.unparse(a.targets[0]) == 'self.stop_sequence']
        ok = len(asg) == 1 and ast.unparse(asg[0].value) == 'self.start_sequence' and \
            {tuple(f) for f in fm.at(asg[0])} == {('self.stop_sequence < 0', True)}
        R.check(r4, ok, '%s: stop_sequence defaults to start_sequence only when unset (< 0)' % cname,
                'deps|stop_sequence|%s' % cname, u.loc(), '%s.check_stop_sequence assigns under %s: an explicit '
                'stop_sequence 0 must be kept' % (cname, [sorted(tuple(f) for f in fm.at(a)) for a in asg]))
        m = P.member(P.cls(cname), 'stop_sequence')
        R.check(r4, bool(m) and ast.unparse(m[2][1]) == '-1', '%s.stop_sequence is unset (-1) by default' % cname,
                'deps|stop_sequence-default|%s' % cname, P.cls(cname).mod.relpath, '%s.stop_sequence default is %s' %
                (cname, ast.unparse(m[2][1]) if m else '?'))
    for nm, fld in (('assign_at_identifiers', 'at_identifiers'), ('assign_hash_identifiers', 'hash_identifiers')):
        u = P.unit('HomogeneousGroup.' + nm)
        defs = {a.targets[0].id: a.value for a in own_nodes(u.node) if isinstance(a, ast.Assign)
                and isinstance(a.targets[0], ast.Name)}
        pl = defs.get('process_list')
        un = defs.get('unassigned_processes')
        ok = pl is not None and ast.unparse(pl) == 'sorted(self.processes, key=lambda x: x.process_index)' and \
            isinstance(un, ast.ListComp) and ast.unparse(un.generators[0].iter) == 'process_list' and \
            [ast.unparse(i) for i in un.generators[0].ifs] == ['process.rules.%s' % fld]
        R.check(r4, ok, '%s spreads the unassigned processes in process_index order' % nm, 'signs|%s' % nm, u.loc(),
                'HomogeneousGroup.%s does not take the unassigned processes from the list sorted by process_index' % nm)
    li = P.unit('Parser.check_identifier_list')
    ok = any(isinstance(l, ast.For) and ast.unparse(l.iter) == 'self.aliases.items()' for l in own_nodes(li.node)) and \
        any(isinstance(a, ast.Assign) and ast.unparse(a.targets[0]) == 'identifiers[pos:pos + 1]' and
            ast.unparse(a.value) == 'alias' for a in own_nodes(li.node))
    R.check(r4, ok, 'aliases expand in place, in declaration order (single pass)', 'signs|aliases', li.loc(),
            'check_identifier_list does not expand the aliases in place over self.aliases.items()')

    # ---------------------------------------------------------------- R5
    r5 = R.rule('R5', 'escape analysis + table agreement', 'every [supvisors] option is read through _get_value, which '
                'turns a ValueError of the converter into the default; ValueError is the only explicit exception a '
                'converter lets out (KeyError of enum lookups is converted); each numeric range guard equals the '
                'interval documented in docs/configuration.rst and rejects NaN for float options', 30)
    init = P.unit('SupvisorsOptions.__init__')
    reads = {}
    for a in own_nodes(init.node):
        if isinstance(a, ast.Assign) and isinstance(a.value, ast.Call) and call_text(a.value) == 'self._get_value':
            c = a.value
            reads[c.args[1].value] = (ast.unparse(c.args[3]) if len(c.args) > 3 else None, ast.unparse(c.args[2]), a)
    R.require(len(reads) >= 25, 'only %d _get_value reads found in SupvisorsOptions.__init__' % len(reads))
    raw = [a for a in own_nodes(init.node) if isinstance(a, ast.Subscript) and ast.unparse(a.value) == 'config']
    R.check(r5, not raw, 'no option is read from config outside _get_value', 'options|raw-read', init.loc(),
            'SupvisorsOptions.__init__ reads config[%s] directly' % [ast.unparse(a.slice) for a in raw])
    gv = P.unit('SupvisorsOptions._get_value')
    fm = factmap(gv)
    fc = [c for c in own_nodes(gv.node) if isinstance(c, ast.Call) and call_text(c) == 'fct']
    ok = len(fc) == 1 and any('ValueError' in h for hs in fm.handlers.get(id(fc[0]), ()) for h in hs)
    rets = {ast.unparse(v) for v, f, n in returns(gv) if v is not None}
    R.check(r5, ok and 'default_value' in rets, '_get_value falls back to the default on ValueError',
            'options|fallback', gv.loc(), '_get_value does not return the default when the converter raises ValueError')
    E = Escape(P)
    SO = P.cls('SupvisorsOptions')
    n_conv = 0
    for opt, (fct, default, node) in sorted(reads.items()):
        if not fct or not fct.startswith('self.'):
            R.ok(r5, 'option %s: %s' % (opt, 'no conversion' if not fct else 'Supervisor datatype ' + fct), init.loc(node))
            continue
        nm = fct[5:]
        u = SO.methods.get(nm)
        R.require(u is not None, 'converter %s of option %s not found' % (nm, opt))
        n_conv += 1
        e = E.esc((SO, u))
        bad = sorted({en.replace('(re-raised)', '') for en, org, fs in e} - {'ValueError'})
        R.check(r5, not bad, 'option %s: converter %s lets only ValueError out' % (opt, nm), 'options|escape|%s' % opt,
                u.loc(), 'converter %s of option %s can raise %s, which _get_value does not turn into the default' %
                (nm, opt, bad))
    R.require(n_conv >= 14, 'only %d Supvisors converters analysed' % n_conv)
    for nm, u in SO.methods.items():
        if not nm.startswith('to_'):
            continue
        fmu = factmap(u)
        for s in own_nodes(u.node):
            if isinstance(s, ast.Subscript) and isinstance(s.ctx, ast.Load) and isinstance(s.value, ast.Name):
                r = P.lookup(u.mod, s.value.id)
                if r and r[0] == 'class' and P.is_enum(r[1]):
                    ok = any('KeyError' in h for hs in fmu.handlers.get(id(s), ()) for h in hs)
                    R.check(r5, ok, '%s: lookup %s[...] converts KeyError' % (nm, s.value.id),
                            'options|enum-lookup|%s' % nm, u.loc(s), 'SupvisorsOptions.%s looks up %s[...] outside '
                            'try/except KeyError: an unknown value raises KeyError instead of falling back' %
                            (nm, s.value.id))
    docs = documented_intervals(P)
    if docs is None:
        R.note(r5, 'docs/configuration.rst not found under the analysed root: documented intervals not compared')
    else:
        conv_of = {'synchro_timeout': 'to_timeout', 'inactivity_ticks': 'to_ticks',
                   'stats_collecting_period': 'to_period', 'stats_periods': 'to_periods', 'stats_histo': 'to_histo'}
        for opt, nm in conv_of.items():
            R.require(opt in docs, 'no documented interval found for %s' % opt)
            R.require(reads.get(opt, (None,))[0] == 'self.' + nm, 'option %s is converted by %s' % (opt, reads.get(opt)))
            u = P.unit('SupvisorsOptions.' + nm)
            iv = converter_interval(P, u)
            R.require(iv is not None and iv[0] != '?', 'range guard of %s not understood: %s' % (nm, iv))
            lo, hi, nan_safe, var = iv
            R.check(r5, (lo, hi) == docs[opt], 'option %s accepted in [%g ; %g] as documented' % (opt, lo, hi),
                    'options|interval|%s' % opt, u.loc(), 'converter %s accepts [%s ; %s] but docs/configuration.rst '
                    'documents [%g ; %g] for %s' % (nm, lo, hi, docs[opt][0], docs[opt][1], opt))
            helpers = [u] + [u.cls.methods[c.func.attr] for c in own_nodes(u.node)
                             if isinstance(c, ast.Call) and isinstance(c.func, ast.Attribute) and
                             isinstance(c.func.value, ast.Name) and c.func.value.id in ('self', u.cls.name)
                             and c.func.attr in u.cls.methods]
            is_float = any(isinstance(c, ast.Call) and call_text(c) == 'float' for h in helpers for c in own_nodes(h.node))
            if is_float:
                R.check(r5, nan_safe, 'option %s rejects NaN' % opt, 'options|nan|%s' % opt, u.loc(),
                        'converter %s tests the range with `lo > v or v > hi` on a float: NaN passes and is accepted '
                        'instead of falling back to the default' % nm)
        R.extra['documented_intervals'] = {k: list(v) for k, v in docs.items()}
    for nm, lim in (('to_ttl', (0, 255)), ('to_port_num', (1, 65535))):
        u = P.unit('SupvisorsOptions.' + nm)
        c = [x for x in own_nodes(u.node) if isinstance(x, ast.Call) and call_text(x) == 'SupvisorsOptions.to_integer']
        ok = len(c) == 1 and ast.unparse(c[0].args[2]) == '(%d, %d)' % lim
        R.check(r5, ok, '%s bounds the value to %s' % (nm, lim), 'options|interval|%s' % nm, u.loc(),
                '%s bounds the value to %s' % (nm, [ast.unparse(x.args[2]) for x in c]))
    iv = converter_interval(P, P.unit('SupvisorsOptions.to_integer'), limits=(0.0, 1.0))
    R.check(r5, iv is not None and iv[:2] == (0.0, 1.0), 'to_integer enforces both inclusive limits',
            'options|interval|to_integer', P.unit('SupvisorsOptions.to_integer').loc(),
            'to_integer range guard is %s' % (iv,))

    # ---------------------------------------------------------------- R6
    r6 = R.rule('R6', 'consistency rules', 'check_options drops CORE when core_identifiers is empty, STRICT when '
                'supvisors_list is empty, refuses only an empty resulting synchro_options, and forces '
                'supvisors_failure_strategy to CONTINUE under TIMEOUT', 4)
    rule_check_options(P, R, r6)
    # the index of a '#' application is the WHOLE trailing number of its name: group 1 of the regular expression captures
    # one or more digits (regex syntax tree: a repetition of digits INSIDE the group)
    import re as _re
    ch = P.unit('ApplicationRules.check_hash_identifiers')
    pats = []
    for n in ast.walk(ch.node):
        if isinstance(n, ast.Call) and call_text(n).startswith('re.') and n.args and isinstance(n.args[0], ast.Constant):
            pats.append(n.args[0].value)
    for k, (ann, v) in ch.cls.cattrs.items():
        if isinstance(v, ast.Call) and call_text(v) == 're.compile' and v.args and isinstance(v.args[0], ast.Constant) \
                and any(isinstance(x, ast.Attribute) and x.attr == k for x in ast.walk(ch.node)):
            pats.append(v.args[0].value)

    def group1_is_digits_plus(pat):
        try:
            tree = _re._parser.parse(pat)
        except Exception:
            return False
        for op, av in tree:
            if str(op) == 'SUBPATTERN' and av[0] == 1:
                inner = list(av[3])
                return len(inner) == 1 and str(inner[0][0]) == 'MAX_REPEAT' and inner[0][1][0] >= 1 and \
                    inner[0][1][1] > 1 and 'CATEGORY_DIGIT' in str(list(inner[0][1][2]))
        return False
    ok = len(pats) == 1 and group1_is_digits_plus(pats[0]) and pats[0].endswith('$')
    R.check(r4, ok, "the application index of '#' is the whole trailing number of the name", 'hash|index-regex', ch.loc(),
            'check_hash_identifiers extracts the index with %s: group 1 does not capture the whole trailing number '
            '(app_12 is placed like app_2)' % pats)
    # a multicast group is in 224.0.0.0 - 239.255.255.255: first byte bounded on BOTH sides
    mc = P.unit('SupvisorsOptions._check_multicast_address')
    first = [c for c in own_nodes(mc.node) if isinstance(c, ast.Call) and call_text(c).endswith('to_integer')
             and c.args and closed_text(mc, c.args[0]) == "value.split('.')[0]"]
    ok = len(first) == 1 and len(first[0].args) >= 3 and ast.unparse(first[0].args[2]) == '(224, 239)'
    R.check(r5, ok, 'the first byte of a multicast group is in [224 ; 239]', 'options|interval|multicast-first-byte',
            mc.loc(), '_check_multicast_address bounds the first byte with %s (expected to_integer(.., (224, 239))): an '
            'address above 239.255.255.255 is accepted and discovery mode is switched on' %
            [ast.unparse(c)[:80] for c in first])
    R.assume('XSD semantics, longest-match on real overlapping patterns beyond R2, and the "#"/"@" arithmetic are NOT '
             'decided. Documented *defaults* are not used as an oracle (docs say stats_collecting_period defaults to 10, '
             'the code to 5: a documentation slip, listed here as context).')
