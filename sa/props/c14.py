"""C14 - Placement obeys the starting strategy and the distribution rule.

Loads are touched only through sorted(..., key=...), index 0/-1 and one `<=`: a finite set of orderings, which is
what is decided (not optimality over numeric load tables)."""
import ast
from ..model import own_nodes, AnalysisError
from ..paths import factmap, call_text, returns
from ..defuse import defuse, closed_text, comp_view
from ..absval import EnumEval
from .c04 import who_calls
from . import shared

# frozen from the statement: strategy -> (class, selection spec)
SPEC = {
    'CONFIG': ('ConfigStrategy', ('candidate-order', 'first')),
    'LESS_LOADED': ('LessLoadedStrategy', (('instance', 'node'), 'first')),
    'MOST_LOADED': ('MostLoadedStrategy', (('instance', 'node'), 'last')),
    'LESS_LOADED_NODE': ('LessLoadedNodeStrategy', (('node', 'instance'), 'first')),
    'MOST_LOADED_NODE': ('MostLoadedNodeStrategy', (('node', 'instance'), 'last')),
    'LOCAL': ('LocalStrategy', ('local', 'only')),
}


def sorter_key(P, name):
    """(field order) of a shared sorter: sorted([(identifier, node_load, instance_load) ... if validity], key=lambda).
    Works on the closed form of the returned value (sa.defuse): no dependency on the names of locals and binders."""
    u = P.unit('AbstractStartingStrategy.' + name)
    rets = [v for v, f, n in returns(u) if v is not None]
    if len(rets) != 1:
        raise AnalysisError('%s: %d return expressions' % (u.qual, len(rets)))
    v = defuse(u).closed(rets[0])
    if not (isinstance(v, ast.Call) and call_text(v) == 'sorted' and v.args and isinstance(v.args[0], ast.ListComp)):
        raise AnalysisError('%s: unrecognised sorter shape' % u.qual)
    comp = v.args[0]
    if not isinstance(comp.elt, ast.Tuple):
        raise AnalysisError('%s: sorted element is not a tuple' % u.qual)
    if len(comp.generators) != 1 or ast.unparse(comp.generators[0].iter) != 'loading_validity_map.items()':
        raise AnalysisError('%s: does not iterate loading_validity_map.items()' % u.qual)
    E = 'each(loading_validity_map.items())'
    role = {E + '[0]': 'identifier', E + '[1][1]': 'node', E + '[1][2]': 'instance'}   # positions in LoadingValidity
    fields = [role.get(ast.unparse(x), '?') for x in comp.elt.elts]
    key = next((k.value for k in v.keywords if k.arg == 'key'), None)
    rev = next((k.value for k in v.keywords if k.arg == 'reverse'), None)
    if not isinstance(key, ast.Lambda) or rev is not None:
        raise AnalysisError('%s: sorted() key is not a lambda (or reverse= used)' % u.qual)
    arg = key.args.args[0].arg
    body = key.body.elts if isinstance(key.body, ast.Tuple) else [key.body]
    order = []
    for b in body:
        if not (isinstance(b, ast.Subscript) and isinstance(b.value, ast.Name) and b.value.id == arg and
                isinstance(b.slice, ast.Constant) and isinstance(b.slice.value, int) and b.slice.value < len(fields)):
            raise AnalysisError('%s: key element %s not understood' % (u.qual, ast.unparse(b)))
        order.append(fields[b.slice.value])
    return tuple(order), fields[0], u


LV = 'self.get_loading_and_validity(identifiers, expected_load, load_details)'


def selection(P, cname):
    """selection spec of one strategy class, from the closed form of the value it returns and the facts of that return
    (sa.normalise writes `return A if c else None` as `if c: return A` + `return None`)."""
    u = P.unit(cname + '.get_supvisors_instance')
    rets = [(v, {tuple(f) for f in factmap(u).closed(n)}) for v, f, n in returns(u)
            if v is not None and not (isinstance(v, ast.Constant) and v.value is None)]
    if len(rets) != 1:
        raise AnalysisError('%s: %d non-None return expressions' % (u.qual, len(rets)))
    rets_nodes = [rets[0][0]]
    v, facts = defuse(u).closed(rets[0][0]), rets[0][1]
    # CONFIG shape: next((identifier for identifier, (validity, _, _) in loading_validity_map.items() if validity), None)
    if isinstance(v, ast.Call) and call_text(v) == 'next' and isinstance(v.args[0], ast.GeneratorExp):
        cv = comp_view(u, v.args[0])
        E = 'each(%s.items())' % LV
        ok = cv['iters'] == [LV + '.items()'] and cv['conds'] == {(E + '[1][0]', True)} and cv['elt'] == E + '[0]' and \
            len(v.args) == 2 and isinstance(v.args[1], ast.Constant) and v.args[1].value is None
        if not ok:
            raise AnalysisError('%s: unrecognised next(...) shape' % u.qual)
        return ('candidate-order', 'first'), u
    # sorted shapes: sorted_identifiers[0|-1][0], returned under the fact `sorted_identifiers` (not empty)
    if isinstance(v, ast.Subscript) and isinstance(v.value, ast.Subscript) and isinstance(v.value.value, ast.Call) and \
            call_text(v.value.value).startswith('self.sort_valid_by_') and \
            [ast.unparse(a) for a in v.value.value.args] == [LV] and (ast.unparse(v.value.value), True) in facts:
        idx = ast.unparse(v.value.slice)
        fld = ast.unparse(v.slice)
        if idx in ('0', '-1'):
            order, first_field, su = sorter_key(P, call_text(v.value.value)[5:])
            if fld != '0' or first_field != 'identifier':
                raise AnalysisError('%s: returned field %s is not the identifier' % (u.qual, fld))
            return (order, 'first' if idx == '0' else 'last'), u
    # LOCAL shape: local_identifier, returned under the fact `validity of the local identifier`
    loc = 'self.supvisors.mapper.local_identifier'
    if ast.unparse(v) == loc and (('%s[%s][0]' % (LV, loc), True) in facts or
                                  ('self.is_loading_valid(%s, expected_load, load_details)[0]' % loc, True) in facts):
        return ('local', 'only'), u
    # CONFIG as a loop: `for identifier in identifiers: if <validity of identifier>: return identifier`
    if ast.unparse(v) == 'each(identifiers)' and \
            ('self.is_loading_valid(each(identifiers), expected_load, load_details)[0]', True) in facts or \
            ('%s[each(identifiers)][0]' % LV, True) in facts and ast.unparse(v) == 'each(identifiers)':
        n = [n for vv, f, n in returns(u) if vv is rets_nodes[0]][0]
        loops = [l for l in own_nodes(u.node) if isinstance(l, ast.For) and ast.unparse(l.iter) == 'identifiers'
                 and any(x is n for x in ast.walk(l))]
        first = False
        if len(loops) == 1:
            if isinstance(n, ast.Return):
                first = True
            else:
                from .c20 import block_of
                blk = block_of(u.node, n) or []
                k = [i for i, x in enumerate(blk) if x is n]
                first = bool(k) and k[0] + 1 < len(blk) and isinstance(blk[k[0] + 1], ast.Break)
        if first:
            return ('candidate-order', 'first'), u
        if len(loops) == 1 and isinstance(n, ast.Assign) and not any(isinstance(x, ast.Break) for x in ast.walk(loops[0])):
            return ('candidate-order', 'last'), u
        raise AnalysisError('%s: the candidate kept by the loop over identifiers is not provably the first valid one' % u.qual)
    if isinstance(v, ast.Call) and call_text(v) in ('min', 'max'):
        raise AnalysisError('%s: min/max selection shape not summarised' % u.qual)
    raise AnalysisError('%s: unrecognised selection shape `%s`' % (u.qual, ast.unparse(v)))


def run(P, R):
    ev = EnumEval(P, 'StartingStrategies')
    members = P.enum_members('StartingStrategies')
    R.require(sorted(members) == sorted(SPEC), 'StartingStrategies members changed: %s' % members)

    # ---------------------------------------------------------------- R1
    r1 = R.rule('R1', 'dispatch table', 'create_strategy maps each of the 6 StartingStrategies to the class of the same '
                'intent (a missing member would return None)', 6)
    cs = P.unit('strategy:create_strategy')
    fm = factmap(cs)
    got = {}
    for v, facts, node in returns(cs):
        if v is None or not isinstance(v, ast.Call):
            continue
        strat = [f.node for f in facts if f[1] and isinstance(f.node, ast.Compare) and
                 ast.unparse(f.node.left) == 'strategy' and ast.unparse(f.node) == f[0]]
        if len(strat) == 1:
            k = ev.const(strat[0].comparators[0])
            got[k] = call_text(v)
    for m in members:
        R.check(r1, got.get(m) == SPEC[m][0], '%s -> %s' % (m, SPEC[m][0]), 'dispatch|%s' % m, cs.loc(),
                'create_strategy maps %s to %s instead of %s' % (m, got.get(m), SPEC[m][0]))

    # ---------------------------------------------------------------- R2
    r2 = R.rule('R2', 'selection spec (tolerant extraction)', 'each strategy class is summarised as (order key, end): '
                'CONFIG = first valid in candidate order; LESS/MOST_LOADED = sorted by (instance load, node load), '
                'first/last; LESS/MOST_LOADED_NODE = sorted by (node load, instance load), first/last; LOCAL = the local '
                'identifier when valid, nothing when it is not a candidate. Unrecognised shape = ANALYSIS-ERROR', 8)
    for m in members:
        cname, want = SPEC[m]
        got_sel, u = selection(P, cname)
        R.check(r2, got_sel == want, '%s selects %s' % (cname, want), 'selection|%s' % cname, u.loc(),
                '%s.get_supvisors_instance selects %s; the %s strategy requires %s' % (cname, got_sel, m, want))
    u = P.unit('LocalStrategy.get_supvisors_instance')
    # the only non-None result is returned under the fact "the local identifier is a candidate"
    some = [n for v, facts, n in returns(u) if v is not None and not (isinstance(v, ast.Constant) and v.value is None)]
    ok = len(some) == 1 and ('self.supvisors.mapper.local_identifier in identifiers', True) in factmap(u).closed(some[0])
    R.check(r2, ok, 'LOCAL places nothing when the local instance is not a candidate', 'selection|LocalStrategy|candidate',
            u.loc(), 'LocalStrategy does not return None when the local identifier is not among the candidates')
    u = P.unit('AbstractStartingStrategy.is_loading_valid')
    val, node, inst = shared.loading_terms(P)
    mid = 'self.supvisors.context.instances[identifier].supvisors_id.local_view.machine_id'
    ok = node == sorted(['load_details[1].get(%s, 0)' % mid, 'load_details[2].get(%s, 0)' % mid]) and \
        any('get_load()' in t for t in inst)
    R.check(r2, ok, 'the loading tuple is (validity, node load, instance load)', 'selection|tuple-order', u.loc(),
            'is_loading_valid returns (.., %s, %s): the sorters read node load at index 1 and instance load at index 2' %
            (' + '.join(node), ' + '.join(inst)))
    ok = inst == sorted(['self.supvisors.context.instances[identifier].get_load()', 'load_details[0].get(identifier, 0)'])
    R.check(r2, ok, 'the instance load includes the starts already requested there', 'selection|instance-load', u.loc(),
            'is_loading_valid computes instance_loading as %s' % ' + '.join(inst))

    shared.running_filter(P, R, r2)
    shared.pending_per_node(P, R, r2)
    shared.pending_load_definition(P, R, r2)

    # ---------------------------------------------------------------- R3
    r3 = R.rule('R3', 'argument provenance', 'every placement passes a load-request map obtained from a '
                'get_load_requests() (pending starts are part of the load); the strategy used is the one requested for '
                'the command (distributed) or for the application job (non-distributed)', 6)
    n = 0
    for u, c in who_calls(P, 'get_supvisors_instance') + who_calls(P, 'get_node'):
        if u.mod.short not in ('commander', 'rpcinterface') or isinstance(c.func, ast.Attribute):
            continue
        n += 1
        arg = c.args[4]
        src = None
        if isinstance(arg, ast.Name):
            src = sorted({ast.unparse(a.value) for a in own_nodes(u.node) if isinstance(a, ast.Assign)
                          and isinstance(a.targets[0], ast.Name) and a.targets[0].id == arg.id})
        elif isinstance(arg, ast.Call):
            src = [ast.unparse(arg)]
        ok = bool(src) and all(s.endswith('get_load_requests()') for s in src)
        R.check(r3, ok, '%s passes the pending requests' % u.qual, 'pending|%s' % u.qual, u.loc(c),
                '%s calls %s with load requests `%s` not obtained from get_load_requests()' %
                (u.qual, call_text(c), src))
        if u.mod.short == 'commander':
            strat = ast.unparse(c.args[1])
            want = 'command.strategy' if u.name == 'process_job' else 'self.starting_strategy'
            R.check(r3, strat == want, '%s places with %s' % (u.qual, want), 'strategy-arg|%s' % u.qual, u.loc(c),
                    '%s places with strategy `%s` instead of `%s`' % (u.qual, strat, want))
    R.require(n >= 6, 'only %d placement sites found' % n)
    sa = P.unit('Starter.store_application')
    jc = [c for c in own_nodes(sa.node) if isinstance(c, ast.Call) and call_text(c) == 'self.job_class']
    cc = [c for c in own_nodes(sa.node) if isinstance(c, ast.Call) and call_text(c) == 'self.command_class']
    sdefs = [(ast.unparse(a.value), {tuple(f) for f in factmap(sa).at(a)}) for a in own_nodes(sa.node)
             if isinstance(a, ast.Assign) and ast.unparse(a.targets[0]) == 'strategy']
    ok = len(jc) == 1 and len(jc[0].args) == 4 and ast.unparse(jc[0].args[2]) == 'strategy' and \
        len(cc) == 1 and ast.unparse(cc[0].args[1]) == 'strategy' and \
        sdefs == [('application.rules.starting_strategy', {('strategy is None', True)})]
    R.check(r3, ok, 'the requested strategy (application default only when none is given) reaches the job and its '
            'commands', 'strategy-arg|store_application', sa.loc(), 'Starter.store_application does not hand the '
            'requested strategy to both the application job and the commands (job: %s, commands: %s, default: %s)' %
            ([ast.unparse(c.args[2]) for c in jc if len(c.args) > 2], [ast.unparse(c.args[1]) for c in cc], sdefs))
    sp = P.unit('Starter.start_process')
    jc = [c for c in own_nodes(sp.node) if isinstance(c, ast.Call) and call_text(c) == 'self.job_class']
    cc = [c for c in own_nodes(sp.node) if isinstance(c, ast.Call) and call_text(c) == 'self.command_class']
    ok = len(jc) == 1 and ast.unparse(jc[0].args[2]) == 'strategy' and len(cc) == 1 and \
        ast.unparse(cc[0].args[1]) == 'strategy'
    R.check(r3, ok, 'start_process hands the requested strategy to the job and the command', 'strategy-arg|start_process',
            sp.loc(), 'Starter.start_process does not use the requested strategy')
    ji = P.unit('ApplicationStartJobs.__init__')
    ok = any(isinstance(a, (ast.Assign, ast.AnnAssign)) and
             ast.unparse(a.targets[0] if isinstance(a, ast.Assign) else a.target) == 'self.starting_strategy'
             and ast.unparse(a.value) == 'starting_strategy' for a in own_nodes(ji.node))
    R.check(r3, ok, 'the application job stores the strategy it is given', 'strategy-arg|job-init', ji.loc(),
            'ApplicationStartJobs.__init__ does not store the starting_strategy parameter')

    # ---------------------------------------------------------------- R4
    r4 = R.rule('R4', 'distribution dispatch', 'before() is exhaustive over DistributionRules; the per-process rule '
                '(process.possible_identifiers()) is consulted only under ALL_INSTANCES; SINGLE_INSTANCE gives every '
                'command the single chosen identifier, chosen among application.possible_identifiers() for the whole '
                'start-sequence load; SINGLE_NODE restricts the selection to the instances of one node chosen for the '
                'whole load', 7)
    dm = P.enum_members('DistributionRules')
    R.require(sorted(dm) == ['ALL_INSTANCES', 'SINGLE_INSTANCE', 'SINGLE_NODE'], 'DistributionRules changed: %s' % dm)
    bf = P.unit('ApplicationStartJobs.before')
    fm = factmap(bf)
    disp = {}
    for c in own_nodes(bf.node):
        if isinstance(c, ast.Call) and call_text(c).startswith('self.distribute_to_'):
            ds = [f[0].split('.')[-1] for f in fm.at(c) if f[1] and f[0].startswith('self.distribution == DistributionRules.')]
            if len(ds) == 1:
                disp[ds[0]] = call_text(c)[5:]
    ok = disp == {'SINGLE_NODE': 'distribute_to_single_node', 'SINGLE_INSTANCE': 'distribute_to_single_instance'}
    R.check(r4, ok, 'before() dispatches the two non-distributed rules', 'distribution|before', bf.loc(),
            'ApplicationStartJobs.before dispatches %s' % disp)
    ji = P.unit('ApplicationStartJobs.__init__')
    ok = any(ast.unparse(a.value) == 'self.application.rules.distribution' for a in own_nodes(ji.node)
             if isinstance(a, (ast.Assign, ast.AnnAssign)) and a.value is not None and
             ast.unparse(a.targets[0] if isinstance(a, ast.Assign) else a.target) == 'self.distribution')
    R.check(r4, ok, 'the distribution rule is the one of the application', 'distribution|source', ji.loc(),
            'ApplicationStartJobs.__init__ does not read application.rules.distribution')
    cn = P.unit('Commander.next')
    order = [call_text(c) for c in sorted((c for c in own_nodes(cn.node) if isinstance(c, ast.Call)),
                                          key=lambda c: (c.lineno, c.col_offset))]
    ok = 'application_job.before' in order and 'application_job.next' in order and \
        order.index('application_job.before') < order.index('application_job.next')
    R.check(r4, ok, 'before() runs ahead of the first group of the application', 'distribution|before-next', cn.loc(),
            'Commander.next does not call application_job.before() before application_job.next()')
    pj = P.unit('ApplicationStartJobs.process_job')
    fm = factmap(pj)
    pi = [c for c in own_nodes(pj.node) if isinstance(c, ast.Call) and isinstance(c.func, ast.Attribute)
          and c.func.attr == 'possible_identifiers' and closed_text(pj, c.func.value) == 'command.process']
    ok = len(pi) == 1 and fm.has(pi[0], 'self.distribution == DistributionRules.ALL_INSTANCES', True)
    R.check(r4, ok, 'the program rule applies only to distributed applications', 'distribution|process-rule', pj.loc(),
            'process_job consults process.possible_identifiers() outside `distribution == ALL_INSTANCES`')
    oc = P.unit('ApplicationStartJobs.on_command_added')
    fm = factmap(oc)
    gi = [c for c in own_nodes(oc.node) if isinstance(c, ast.Call) and call_text(c) == 'get_supvisors_instance']
    # ... among the instances already chosen for the application (get_process_identifiers: self.identifiers that know
    # the program and have it enabled), not among the program's own candidates
    ok = len(gi) == 1 and fm.has(gi[0], 'self.distribution == DistributionRules.ALL_INSTANCES', False) and \
        len(gi[0].args) >= 3 and closed_text(oc, gi[0].args[2]) == 'self.get_process_identifiers(command.process)' and \
        closed_text(oc, gi[0].args[1]) == 'self.starting_strategy'
    R.check(r4, ok, 'a command added later follows the application selection when not distributed',
            'distribution|on_command_added', oc.loc(), 'on_command_added does not place under `distribution != '
            'ALL_INSTANCES` with the job strategy among self.get_process_identifiers(command.process) (the instances '
            'already chosen for the application)')
    shared.distribution_candidates(P, R, r4)
    shared.command_added_hook(P, R, r4)
    shared.application_candidates(P, R, r4)
    shared.enum_classes(P, R, r4, only=('starting_strategy', 'distribution'))
    R.assume('Optimality over numeric load tables is NOT decided; only the ordering structure of each strategy.')
