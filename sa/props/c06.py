"""C06 - Running failure strategies are applied once, by the Master, with precedence (structural clauses)."""
import ast
from ..model import own_nodes, AnalysisError
from ..paths import returned_values, factmap, call_text, returns, must_call
from ..callgraph import CallGraph
from ..absval import EnumEval
from .c01 import listener_entries, IS_MASTER
from . import shared

ORDER = ['stop_application_jobs', 'restart_application_jobs', 'restart_process_jobs', 'continue_process_jobs']
ADDERS = {'stop_application_jobs': 'add_stop_application_job', 'restart_application_jobs': 'add_restart_application_job',
          'restart_process_jobs': 'add_restart_process_job', 'continue_process_jobs': 'add_continue_process_job'}
STRATEGY_OF = {'STOP_APPLICATION': 'add_stop_application_job', 'RESTART_APPLICATION': 'add_restart_application_job',
               'RESTART_PROCESS': 'add_restart_process_job', 'CONTINUE': 'add_continue_process_job'}
FAILURE_SINKS = {'RunningFailureHandler.add_default_job', 'RunningFailureHandler.add_job',
                 'FiniteStateMachine.on_restart', 'FiniteStateMachine.on_shutdown'}


def run(P, R):
    G = CallGraph(P)
    RFH = P.cls('RunningFailureHandler')
    ev = EnumEval(P, 'RunningFailureStrategies')
    members = P.enum_members('RunningFailureStrategies')
    R.require(sorted(members) == ['CONTINUE', 'RESTART', 'RESTART_APPLICATION', 'RESTART_PROCESS', 'SHUTDOWN',
                                  'STOP_APPLICATION'], 'RunningFailureStrategies members changed: %s' % members)

    # ---------------------------------------------------------------- R1
    r1 = R.rule('R1', 'guarded reachability (call graph)', 'only the Master repairs: from the Supervisor event callbacks, '
                'add_default_job / add_job / on_restart / on_shutdown are not reachable along call edges none of which '
                'is under the fact is_master() (same analysis as C01.R1, restricted to the failure sinks)', 4)
    entries, names = listener_entries(P)
    all_seen = G.reach(entries)
    seen = G.reach(entries, edge_ok=lambda e: not e.has(IS_MASTER, True))
    for q in sorted(FAILURE_SINKS):
        R.require(any(n[1].qual == q for n in all_seen), '%s is not reachable at all from the listener callbacks' % q)
        hits = [n for n in seen if n[1].qual == q]
        if not hits:
            R.ok(r1, '%s only reachable through an is_master() guarded call' % q, q)
        for n in hits:
            parent = seen[n]
            caller = parent[0][1].qual if parent else '?'
            R.fail(r1, 'unguarded|%s|%s' % (q, caller), parent[0][1].loc(parent[1].node) if parent else n[1].loc(),
                   '%s is reachable from a Supervisor event callback without any is_master() guard: %s' %
                   (q, G.path_text(seen, n)))

    # ---------------------------------------------------------------- R2
    r2 = R.rule('R2', 'exhaustive strategy handling', 'the 6 RunningFailureStrategies are all handled: add_job dispatches '
                'CONTINUE, RESTART_PROCESS, STOP_APPLICATION, RESTART_APPLICATION to the adder of the same name; a crash '
                'event dispatches RESTART -> on_restart, SHUTDOWN -> on_shutdown, STOP/RESTART_APPLICATION -> '
                'add_default_job (not for a forced state); a lost instance hands every lost process to add_default_job',
                9)
    aj = P.unit('RunningFailureHandler.add_job')
    fm = factmap(aj)
    got = {}
    for c in own_nodes(aj.node):
        if isinstance(c, ast.Call) and call_text(c).startswith('self.add_') and call_text(c) != 'self.add_job':
            ks = [ev.const(f.node.comparators[0]) for f in fm.at(c) if f[1] and isinstance(f.node, ast.Compare)
                  and ast.unparse(f.node.left) == 'strategy' and ast.unparse(f.node) == f[0]]
            if len(ks) == 1:
                got[ks[0]] = call_text(c)[5:]
    for m, want in STRATEGY_OF.items():
        R.check(r2, got.get(m) == want, 'add_job: %s -> %s' % (m, want), 'dispatch|add_job|%s' % m, aj.loc(),
                'RunningFailureHandler.add_job maps %s to %s instead of %s' % (m, got.get(m), want))
    adef = [a for a in own_nodes(aj.node) if isinstance(a, ast.Assign) and ast.unparse(a.targets[0]) == 'application']
    R.check(r2, len(adef) == 1 and ast.unparse(adef[0].value) == 'self.supvisors.context.applications[process.application_name]',
            'the application is the one of the failed process', 'dispatch|add_job|application', aj.loc(),
            'add_job resolves the application with %s' % [ast.unparse(a.value) for a in adef])
    pe = P.unit('FiniteStateMachine.on_process_state_event')
    fm = factmap(pe)
    crash = ('process.crashed()', True)
    for tgt, strat in (('self.on_restart', 'RESTART'), ('self.on_shutdown', 'SHUTDOWN')):
        cs = [c for c in own_nodes(pe.node) if isinstance(c, ast.Call) and call_text(c) == tgt]
        ok = len(cs) == 1 and {(IS_MASTER, True), crash, ('process.rules.running_failure_strategy == RunningFailureStrategies.%s' % strat, True)} <= \
            {tuple(f) for f in fm.at(cs[0])}
        R.check(r2, ok, 'crash with %s -> %s()' % (strat, tgt[5:]), 'dispatch|crash|%s' % strat, pe.loc(),
                'on_process_state_event does not call %s() exactly for a crashed process with strategy %s on the '
                'Master' % (tgt[5:], strat))
    ad = [c for c in own_nodes(pe.node) if isinstance(c, ast.Call)
          and call_text(c) == 'self.supvisors.failure_handler.add_default_job']
    src = 'process.rules.running_failure_strategy'
    ok = len(ad) == 1 and {(IS_MASTER, True), crash, ('process.forced_state is None', True)} <= \
        {tuple(f) for f in fm.at(ad[0])} and \
        any(f[1] and f[0] in (src + ' in [RunningFailureStrategies.STOP_APPLICATION, '
                              'RunningFailureStrategies.RESTART_APPLICATION]',
                              src + ' in [RunningFailureStrategies.RESTART_APPLICATION, '
                              'RunningFailureStrategies.STOP_APPLICATION]') for f in fm.at(ad[0]))
    R.check(r2, ok, 'crash with an application-level strategy -> add_default_job (not for a forced state)',
            'dispatch|crash|application', pe.loc(), 'on_process_state_event does not call add_default_job exactly for a '
            'crashed, non-forced process with STOP_APPLICATION / RESTART_APPLICATION on the Master')
    tj = [c for c in own_nodes(pe.node) if isinstance(c, ast.Call)
          and call_text(c) == 'self.supvisors.failure_handler.trigger_jobs']
    R.check(r2, len(tj) == 1 and ad and {tuple(f) for f in fm.at(tj[0])} == {tuple(f) for f in fm.at(ad[0])},
            'the job is triggered at once', 'dispatch|crash|trigger', pe.loc(),
            'on_process_state_event does not trigger the failure jobs after adding one')
    cr = P.unit('ProcessStatus.is_crashed_event')
    rs = [ast.unparse(v) for v, f, n in returns(cr) if v is not None]
    R.check(r2, rs == ["info['state'] == ProcessStates.FATAL or (info['state'] == ProcessStates.EXITED and "
                       "(not info['expected']))"], 'a crash is FATAL or an unexpected EXITED', 'dispatch|crash|definition',
            cr.loc(), 'ProcessStatus.is_crashed_event returns %s' % rs)
    mn = P.unit('_WorkingState._master_next')
    fm = factmap(mn)
    ad = [c for c in own_nodes(mn.node) if isinstance(c, ast.Call)
          and call_text(c) == 'self.supvisors.failure_handler.add_default_job']
    loops = [l for l in own_nodes(mn.node) if isinstance(l, ast.For)]
    ok = len(ad) == 1 and len(loops) == 1 and ast.unparse(loops[0].iter) == 'self.lost_processes' and \
        ast.unparse(ad[0].args[0]) == loops[0].target.id and \
        any(isinstance(c, ast.Call) and call_text(c) == 'self.supvisors.failure_handler.trigger_jobs'
            for c in own_nodes(mn.node))
    R.check(r2, ok, 'every process lost with an instance is handed to add_default_job, then jobs are triggered',
            'dispatch|lost', mn.loc(), '_WorkingState._master_next does not add a default job for every lost process')

    # the working states that hand lost processes over (DISTRIBUTION, OPERATION) do it whatever else is going on: the
    # call of the inherited _master_next comes first, on every path (not behind the "jobs in progress" return)
    for cname in ('DistributionState', 'OperationState'):
        ov = P.cls(cname).methods.get('_master_next')
        if ov is None:
            R.check(r2, True, '%s inherits _WorkingState._master_next' % cname, 'dispatch|lost|' + cname, mn.loc(), '')
            continue
        fmo = factmap(ov)
        sup = [c for c in own_nodes(ov.node) if isinstance(c, ast.Call) and call_text(c) in (
            'super()._master_next', '_WorkingState._master_next', 'super(%s, self)._master_next' % cname)]
        ok = len(sup) >= 1 and must_call(ov.node, lambda k: any(k is c for c in sup)) and \
            any(not fmo.at(c) for c in sup)
        R.check(r2, ok, '%s._master_next hands the lost processes over on every path' % cname, 'dispatch|lost|' + cname,
                ov.loc(), '%s._master_next does not call the inherited _master_next() (running failure handling of the '
                'processes lost with an instance) unconditionally before it returns: a process lost while other jobs are '
                'in progress is never repaired' % cname)

    shared.enum_classes(P, R, r2, only=('running_failure_strategy',))
    shared.strategy_defaults(P, R, r2, 'running_failure_strategy')

    # ---------------------------------------------------------------- R3
    r3 = R.rule('R3', 'precedence matrix', 'with STOP_APPLICATION > RESTART_APPLICATION > RESTART_PROCESS > CONTINUE: each '
                'add_<level>_job exits early when the entity is in ANY higher set before adding, and evicts the entity '
                'from EVERY lower set after adding (matrix read from the AST); a RESTART_PROCESS job is promoted to '
                'RESTART_APPLICATION when the application is left stopped and the process is in its start sequence', 14)
    for i, setname in enumerate(ORDER):
        u = P.unit('RunningFailureHandler.' + ADDERS[setname])
        fm = factmap(u)
        adds = [c for c in own_nodes(u.node) if isinstance(c, ast.Call) and call_text(c) == 'self.%s.add' % setname]
        R.require(len(adds) == 1, '%s: expected one self.%s.add call' % (u.qual, setname))
        facts = {tuple(f) for f in fm.at(adds[0])}
        for higher in ORDER[:i]:
            tested = any(f[0].endswith(' in self.%s' % higher) and not f[1] for f in facts) or \
                _guarded_by_nested_return(u, higher, fm.at(adds[0]))
            R.check(r3, tested, '%s yields to %s' % (ADDERS[setname], higher), 'precedence|%s|yield|%s' % (setname, higher),
                    u.loc(), '%s adds to %s without first returning when the entity is already in the higher-priority '
                    '%s: two actions are taken for one application' % (u.qual, setname, higher))
        after = [n for n in own_nodes(u.node) if getattr(n, 'lineno', 0) > adds[0].lineno]
        evicted = set()
        for n in after:
            if isinstance(n, ast.Call) and isinstance(n.func, ast.Attribute) and n.func.attr in ('discard', 'remove'):
                base = ast.unparse(n.func.value)
                if base.startswith('self.'):
                    evicted.add(base[5:])
                elif base == 'job_set':
                    for l in own_nodes(u.node):
                        if isinstance(l, ast.For) and ast.unparse(l.target) == 'job_set' and isinstance(l.iter, ast.List):
                            evicted |= {ast.unparse(x)[5:] for x in l.iter.elts}
        for lower in ORDER[i + 1:]:
            R.check(r3, lower in evicted, '%s supersedes %s' % (ADDERS[setname], lower),
                    'precedence|%s|evict|%s' % (setname, lower), u.loc(), '%s does not evict the entity from the '
                    'lower-priority %s after adding to %s' % (u.qual, lower, setname))
    dj = P.unit('RunningFailureHandler.add_default_job')
    fm = factmap(dj)
    promo = [c for c in own_nodes(dj.node) if isinstance(c, ast.Call) and call_text(c) == 'self.add_job'
             and c.args and ast.unparse(c.args[0]) == 'RunningFailureStrategies.RESTART_APPLICATION']
    ok = len(promo) == 1 and {tuple(f) for f in fm.at(promo[0])} == {
        ('process.rules.running_failure_strategy == RunningFailureStrategies.RESTART_PROCESS', True),
        ('application.stopped()', True), ('process in application.get_start_sequenced_processes()', True)}
    R.check(r3, ok, 'RESTART_PROCESS is promoted exactly when the application is stopped and the process sequenced',
            'precedence|promotion', dj.loc(), 'add_default_job promotes to RESTART_APPLICATION under %s' %
            [sorted(tuple(f) for f in fm.at(c)) for c in promo])
    first = [c for c in own_nodes(dj.node) if isinstance(c, ast.Call) and call_text(c) == 'self.add_job'
             and c not in promo]
    ok = len(first) == 1 and not fm.at(first[0]) and \
        [ast.unparse(a) for a in first[0].args] == ['process.rules.running_failure_strategy', 'process']
    R.check(r3, ok, 'the strategy applied is the one of the process rules', 'precedence|default', dj.loc(),
            'add_default_job does not unconditionally add a job for process.rules.running_failure_strategy')

    # ---------------------------------------------------------------- R4
    r4 = R.rule('R4', 'single owners', 'the four job sets are written (assigned or mutated) only by methods of '
                'RunningFailureHandler', 4)
    counts = {s: 0 for s in ORDER}
    for u in P.all_units():
        for n in own_nodes(u.node):
            if isinstance(n, ast.Attribute) and n.attr in ORDER:
                par_store = isinstance(n.ctx, ast.Store)
                mut = False
                if not par_store:
                    for c in own_nodes(u.node):
                        if isinstance(c, ast.Call) and isinstance(c.func, ast.Attribute) and c.func.value is n and \
                                c.func.attr in ('add', 'remove', 'discard', 'clear', 'update', 'pop'):
                            mut = True
                if par_store or mut:
                    counts[n.attr] += 1
                    if u.cls is not RFH:
                        R.fail(r4, 'foreign-writer|%s|%s' % (u.qual, n.attr), u.loc(n),
                               '%s writes RunningFailureHandler.%s from outside the handler' % (u.qual, n.attr))
    for s in ORDER:
        R.check(r4, counts[s] >= 3, '%s is written by the handler only (%d sites)' % (s, counts[s]), 'owner|%s' % s,
                RFH.mod.relpath, 'fewer than 3 write sites of %s found' % s)

    # ---------------------------------------------------------------- R5
    r5 = R.rule('R5', 'deferral + periodic trigger + effects', 'each trigger_* acts only for entities whose application '
                'has no start/stop job (negated `application_name in job_applications`), removes the job and performs '
                'the matching action (stop_application / default_restart_application / default_restart_process, '
                'trigger deferred); CONTINUE starts and stops nothing; trigger_jobs computes the busy applications from '
                'Starter and Stopper, runs the four triggers in precedence order and FiniteStateMachine.next calls it '
                'at every evaluation', 9)
    eff = {'trigger_stop_application_jobs': ('stop_application_jobs', 'self.supvisors.stopper.stop_application',
                                             'application'),
           'trigger_restart_application_jobs': ('restart_application_jobs',
                                                'self.supvisors.stopper.default_restart_application', 'application'),
           'trigger_restart_process_jobs': ('restart_process_jobs', 'self.supvisors.stopper.default_restart_process',
                                            'process')}
    for nm, (setname, action, var) in eff.items():
        u = P.unit('RunningFailureHandler.' + nm)
        fm = factmap(u)
        acts = [c for c in own_nodes(u.node) if isinstance(c, ast.Call) and call_text(c) == action]
        rem = [c for c in own_nodes(u.node) if isinstance(c, ast.Call) and call_text(c) == 'self.%s.remove' % setname]
        loops = [l for l in u.node.body if isinstance(l, ast.For)]
        busy = ('%s.application_name in job_applications' % var, False)
        ok = len(acts) == 1 and len(rem) == 1 and len(loops) == 1 and \
            ast.unparse(loops[0].iter) == 'list(self.%s)' % setname and \
            {tuple(f) for f in fm.at(acts[0])} == {busy} and {tuple(f) for f in fm.at(rem[0])} == {busy} and \
            [ast.unparse(a) for a in acts[0].args] == [var, 'False'] and ast.unparse(rem[0].args[0]) == var
        R.check(r5, ok, '%s: deferred while the application has jobs, else removed and %s' % (nm, action.split('.')[-1]),
                'trigger|%s' % nm, u.loc(), '%s does not (remove the job and call %s(%s, False)) exactly when the '
                'application has no job in progress' % (nm, action, var))
    u = P.unit('RunningFailureHandler.trigger_continue_process_jobs')
    seen_c = G.reach([(RFH, u)])
    bad = [n for n in seen_c if n[0] is not None and n[0].name in ('Starter', 'Stopper')]
    R.check(r5, not bad, 'CONTINUE starts and stops nothing', 'trigger|continue', u.loc(),
            'trigger_continue_process_jobs reaches %s' % [n[1].qual for n in bad][:3])
    u = P.unit('RunningFailureHandler.trigger_jobs')
    order = [call_text(c) for c in sorted((c for c in own_nodes(u.node) if isinstance(c, ast.Call)),
                                          key=lambda c: (c.lineno, c.col_offset))]
    want = ['self.get_application_job_names', 'self.trigger_stop_application_jobs',
            'self.trigger_restart_application_jobs', 'self.trigger_restart_process_jobs',
            'self.trigger_continue_process_jobs', 'self.supvisors.stopper.next', 'self.supvisors.starter.next']
    R.check(r5, [o for o in order if o in want] == want and not any(isinstance(n, ast.If) for n in own_nodes(u.node)),
            'trigger_jobs runs the triggers in precedence order, then Stopper and Starter', 'trigger|order', u.loc(),
            'trigger_jobs calls %s' % order)
    args_ok = all(ast.unparse(c.args[0]) == 'application_job_names' for c in own_nodes(u.node)
                  if isinstance(c, ast.Call) and call_text(c) in want[1:4])
    R.check(r5, args_ok, 'the triggers receive the busy application names', 'trigger|busy-arg', u.loc(),
            'trigger_jobs does not pass the busy application names to the triggers')
    u = P.unit('RunningFailureHandler.get_application_job_names')
    rs = [ast.unparse(v) for v, f, n in returns(u) if v is not None]
    ok = rs in (['self.supvisors.starter.get_application_job_names() | self.supvisors.stopper.get_application_job_names()'],
                ['self.supvisors.stopper.get_application_job_names() | self.supvisors.starter.get_application_job_names()'])
    R.check(r5, ok, 'busy applications = those with Starter or Stopper jobs', 'trigger|busy', u.loc(),
            'get_application_job_names returns %s' % rs)
    u = P.unit('Commander.get_application_job_names')
    txt = ast.unparse(u.node)
    ok = 'self.planned_jobs.values()' in txt and 'self.current_jobs.keys()' in txt
    R.check(r5, ok, 'planned and current jobs both count as busy', 'trigger|busy-commander', u.loc(),
            'Commander.get_application_job_names does not cover planned and current jobs')
    u = P.unit('FiniteStateMachine.next')
    R.check(r5, must_call(u.node, lambda c: call_text(c) == 'self.supvisors.failure_handler.trigger_jobs'),
            'pending failure jobs are re-triggered at every evaluation', 'trigger|periodic', u.loc(),
            'FiniteStateMachine.next does not always call failure_handler.trigger_jobs()')

    # ---------------------------------------------------------------- R6
    r6 = R.rule('R6', 'must-precede + accumulation', 'planned jobs win: _common_next (which hands the SAME lost_processes '
                'set to Starter and Stopper) precedes _master_next; on_instances_invalidation removes from it the '
                'processes of current commands on lost instances and of every planned command; '
                'Context.invalidate_failed accumulates the lost processes of ALL failed instances and only those '
                'no longer running anywhere', 6)
    u = P.unit('_MasterSlaveState.next')
    order = [call_text(c) for c in sorted((c for c in own_nodes(u.node) if isinstance(c, ast.Call)),
                                          key=lambda c: (c.lineno, c.col_offset))]
    ok = 'self._common_next' in order and 'self._master_next' in order and \
        order.index('self._common_next') < order.index('self._master_next') and \
        not factmap(u).at([c for c in own_nodes(u.node) if isinstance(c, ast.Call)
                           and call_text(c) == 'self._common_next'][0])[1:]
    R.check(r6, ok, '_common_next runs before the Master half', 'planned-win|order', u.loc(),
            '_MasterSlaveState.next does not call _common_next() before _master_next()')
    u = P.unit('ApplicationJobs.on_instances_invalidation')
    fm = factmap(u)
    rm = [c for c in own_nodes(u.node) if isinstance(c, ast.Call) and call_text(c) == 'failed_processes.remove']
    facts = sorted(sorted(tuple(f) for f in fm.at(c)) for c in rm)
    ok = len(rm) == 2 and [('command.identifier in invalidated_identifiers', True),
                           ('command.process in failed_processes', True)] in facts and \
        [('command.process in failed_processes', True)] in facts and \
        any(isinstance(l, ast.For) and ast.unparse(l.iter) == 'sum(self.planned_jobs.values(), [])'
            for l in own_nodes(u.node))
    R.check(r6, ok, 'processes with a pending or planned command are withdrawn from the running failures',
            'planned-win|withdraw', u.loc(), 'on_instances_invalidation does not remove from failed_processes the '
            'processes of current commands on lost instances and of all planned commands (found %s)' % facts)
    u = P.unit('Context.invalidate_failed')
    loops = [l for l in u.node.body if isinstance(l, ast.For)]
    R.require(len(loops) == 1, 'Context.invalidate_failed: expected one loop')
    for acc, init in (('failed_processes', 'set()'), ('invalidated_identifiers', '[]')):
        inits = [a for a in u.node.body if isinstance(a, (ast.Assign, ast.AnnAssign)) and
                 ast.unparse(a.targets[0] if isinstance(a, ast.Assign) else a.target) == acc]
        re_ = [a for a in ast.walk(loops[0]) if isinstance(a, (ast.Assign, ast.AnnAssign, ast.AugAssign)) and
               ast.unparse(a.targets[0] if isinstance(a, ast.Assign) else a.target) == acc]
        grows = [c for c in ast.walk(loops[0]) if isinstance(c, ast.Call) and isinstance(c.func, ast.Attribute)
                 and ast.unparse(c.func.value) == acc and c.func.attr in ('update', 'add', 'append', 'extend')]
        ok = len(inits) == 1 and ast.unparse(inits[0].value) == init and not re_ and len(grows) == 1
        R.check(r6, ok, '%s accumulates over all FAILED instances' % acc, 'accumulate|%s' % acc, u.loc(),
                'Context.invalidate_failed re-assigns `%s` inside its loop (or does not grow it): only the last failed '
                'instance is reported and the processes lost with the others are never repaired' % acc)
    rs = [ast.unparse(v) for v, f, n in returns(u) if v is not None]
    R.check(r6, rs == ['(invalidated_identifiers, failed_processes)'], 'both accumulators are returned',
            'accumulate|return', u.loc(), 'invalidate_failed returns %s' % rs)
    ii = P.unit('ProcessStatus.invalidate_identifier')
    # the value returned, whether through a flag local or by direct returns (paths.returned_values)
    rv = [(ast.unparse(v) if v is not None else 'None', {tuple(f) for f in fs}) for v, fs in returned_values(ii)]
    truthy = [(t, fs) for t, fs in rv if t not in ('False', 'None')]
    ok = len(truthy) == 1 and truthy[0][0] in ('self.running_identifiers == set()', 'not self.running_identifiers') and \
        ('identifier in self.running_identifiers', True) in truthy[0][1] and \
        all(t == 'False' for t, fs in rv if (t, fs) != truthy[0])
    R.check(r6, ok, 'a lost process is a running failure only when it runs nowhere any more', 'accumulate|failure',
            ii.loc(), 'invalidate_identifier returns %s' % sorted((t, sorted(fs)) for t, fs in rv))
    R.assume('The end-to-end effect (exactly one copy running again) and the dependence on the crash instant are NOT '
             'decided.')


def _guarded_by_nested_return(u, higher, facts=()):
    """`if application in self.<higher> and <cond>: return` - a conditional yield (restart_application vs processes not
    in the start sequence): accepted as the documented refinement. After sa.normalise (merged-if) the fact reaching the
    add is the true disjunction `not application in self.<higher> or not <cond>`."""
    for f in facts:
        n = getattr(f, 'node', None)
        if f[1] and isinstance(n, ast.BoolOp) and isinstance(n.op, ast.Or):
            for v in n.values:
                if isinstance(v, ast.UnaryOp) and isinstance(v.op, ast.Not) and \
                        ast.unparse(v.operand).endswith(' in self.%s' % higher):
                    return True
    return False
