"""C16 - No event sequence makes an instance fail internally (error classes whose absence is visible in the code)."""
import ast
from ..model import own_nodes, closures, AnalysisError
from ..paths import factmap, call_text, returns, statements
from ..callgraph import CallGraph
from ..escape import Escape
from ..typestate import InstanceTypestate
from .c01 import listener_entries
from .c07 import rule_typestate
from . import shared

IGNORED = {'InvalidTransition'}      # decided site by site by R2 (typestate)


def guarded_body(unit):
    """(try statement, statements outside it that are not docstring/logging) of a listener callback."""
    trys = [s for s in unit.node.body if isinstance(s, ast.Try)]
    outside = []
    for s in unit.node.body:
        if isinstance(s, ast.Try):
            continue
        if isinstance(s, ast.Expr) and isinstance(s.value, ast.Constant):
            continue
        if isinstance(s, ast.Expr) and isinstance(s.value, ast.Call) and 'logger' in call_text(s.value).split('.'):
            continue
        outside.append(s)
    return trys, outside


def public_rpc_methods(P):
    R = P.cls('RPCInterface')
    return [(n, u) for n, u in sorted(R.methods.items()) if not n.startswith('_')]


def rule_rpc_escape(P, R, rid, E=None):
    """only RPCError leaves a public RPCInterface method (explicit raises)."""
    E = E or Escape(P)
    RC = P.cls('RPCInterface')
    meths = public_rpc_methods(P)
    R.require(len(meths) >= 40, 'only %d public RPCInterface methods found' % len(meths))
    for name, u in meths:
        e = E.esc_with_closures((RC, u))
        bad = sorted({(en.replace('(re-raised)', ''), org) for en, org, fs in e
                      if en.replace('(re-raised)', '') not in ('RPCError',) and
                      en.replace('(re-raised)', '') not in IGNORED})
        if not bad:
            R.ok(rid, 'RPCInterface.%s lets only RPCError out' % name, u.loc())
        for en, org in bad:
            R.fail(rid, 'rpc-escape|%s|%s|%s' % (name, en, org.split(':')[0]), u.loc(),
                   'RPCInterface.%s can let a non-RPCError exception out to the XML-RPC caller: %s raised at %s' %
                   (name, en, org), 'RPCInterface.%s lets only RPCError out' % name)
    return E


def run(P, R):
    G = CallGraph(P)
    E = Escape(P)
    entries, names = listener_entries(P)
    L = P.cls('SupervisorListener')

    # ---------------------------------------------------------------- R0
    r0 = R.rule('R0', 'structure', 'every function subscribed to a Supervisor event has its whole effective body inside '
                '`try: ... except Exception` (docstring and logging excepted)', 10)
    for ctx, u in entries:
        trys, outside = guarded_body(u)
        ok = len(trys) == 1 and not outside and any(
            h.type is not None and ast.unparse(h.type) in ('Exception', 'BaseException') or h.type is None
            for h in trys[0].handlers)
        R.check(r0, ok, '%s is under the last-resort guard' % u.qual, 'guard|%s' % u.qual, u.loc(),
                '%s has statements outside its try/except Exception guard (or no guard)' % u.qual)

    # ---------------------------------------------------------------- R1
    r1 = R.rule('R1', 'interprocedural exception flow',
                'explicitly raised exception classes (raise, assert; handler matching on the builtin and repository '
                'hierarchies; bare re-raise; facts propagated along self-calls) that can (a) reach the last-resort '
                'guard of a Supervisor callback: none; (b) leave a public RPCInterface method: only RPCError. '
                'InvalidTransition is decided site by site by R2; NotImplementedError of never-instantiated abstract '
                'classes is excluded', 50)
    for ctx, u in entries:
        trys, outside = guarded_body(u)
        if not trys:
            continue
        e = E.esc_of_statements(L, u, trys[0].body, 'try-body')
        bad = sorted({(en.replace('(re-raised)', ''), org) for en, org, fs in e
                      if en.replace('(re-raised)', '') not in IGNORED})
        if not bad:
            R.ok(r1, 'no explicit raise reaches the guard of %s' % u.qual, u.loc())
        for en, org in bad:
            R.fail(r1, 'guard-reached|%s|%s|%s' % (u.name, en, org.split(':')[0]), u.loc(),
                   'an explicit `raise %s` at %s can propagate up to the last-resort guard of %s (critical traceback '
                   'instead of handling)' % (en, org, u.qual), 'no explicit raise reaches the guard of %s' % u.qual)
    rule_rpc_escape(P, R, r1, E)
    R.stats['escape'] = {'nodes_analysed': len(E.memo)}

    # ---------------------------------------------------------------- R2
    r2 = R.rule('R2', 'typestate with guard refinement',
                'InvalidTransition is dead: for each assignment site `x.state = SupvisorsInstanceStates.K` (x a '
                'SupvisorsInstanceStatus), for every state c that x may be in there - from the dominating facts (==, '
                'in, predicate summaries, early exits) and, for a parameter, from the facts at all callers (depth 5; '
                'values returned by Context.is_valid are not ISOLATED) - K == c or K in _Transitions[c]', 9)
    ts = InstanceTypestate(P, G)
    rule_typestate(P, R, r2, ts)

    # ---------------------------------------------------------------- R3
    r3 = R.rule('R3', 'producer/consumer nullability over the notification bus',
                'for each NotificationHeaders member, if a producer can post None as data (literal None, or a result of '
                'SupervisorProxy.xml_rpc - which has a `return None` path - not protected by a truthiness fact at the '
                'push), the consumer chain tests the data before subscripting / iterating it', 4)
    nullable = notification_producers(P, R, r3)
    consumers = notification_consumers(P)
    for header in P.enum_members('NotificationHeaders'):
        if header not in consumers:
            R.note(r3, '%s: no consumer branch passes data on' % header)
            continue
        cons_unit, param, call = consumers[header]
        if not nullable.get(header):
            R.ok(r3, '%s: no producer posts None' % header, '')
            continue
        uses = unguarded_uses(P, cons_unit, param, 0)
        prod = nullable[header][0]
        if not uses:
            R.ok(r3, '%s: consumer tests the nullable data before use' % header, cons_unit.loc())
        for u, node in uses:
            R.fail(r3, 'nullable|%s|%s' % (header, u.qual), u.loc(node),
                   '%s data can be None (posted by %s) but %s uses `%s` without testing it: TypeError reaches the '
                   'last-resort guard of on_remote_event' % (header, prod, u.qual, ast.unparse(node)),
                   '%s: consumer tests the nullable data before use' % header)

    # ---------------------------------------------------------------- R4
    r4 = R.rule('R4', 'optional results used without test',
                'a result of the nullable sources strategy.get_supvisors_instance, strategy.get_node, '
                'SupervisorProxy.xml_rpc that is subscripted, used as a dict key or handed to update_identifier has a '
                'dominating non-None/truthiness fact (ProcessCommand.get_instance_info is not in the table: its '
                'non-None-ness follows from the provenance of the command identifier, C04.R2)', 5)
    optional_uses(P, R, r4)

    empty_literal_flow(P, R, r4)
    # the parsed status formula is user data too: an access that no type fact justifies raises AttributeError /
    # IndexError out of ApplicationStatus.update, i.e. out of every handler that updates an application (same
    # obligations as C15.R1)
    from .c15 import rule_ast_access
    rule_ast_access(P, R, r4)
    from . import shared as _sh
    _sh.process_of_namespec_tested(P, R, r4)

    # ---------------------------------------------------------------- R5
    r5 = R.rule('R5', 'dispatch totality', 'enum-dispatched constructors never yield None: create_strategy and '
                'conciliate_conflicts cover every member of their enum; every SupvisorsStates member has a class in '
                '_StateInstances', 3)
    dispatch_total(P, R, r5, 'strategy:get_supvisors_instance', None)

    # ---------------------------------------------------------------- R7
    r7 = R.rule('R7', 'resolved vs raw parameter', 'an RPC parameter that is resolved through mapper.filter() is not '
                'used raw as a dictionary key afterwards (nick names and stereotypes are not keys)', 4)
    RC = P.cls('RPCInterface')
    n = 0
    for name, u in public_rpc_methods(P):
        params = [a.arg for a in u.node.args.args[1:]]
        filt = [c for c in own_nodes(u.node) if isinstance(c, ast.Call) and call_text(c) == 'self.supvisors.mapper.filter'
                and c.args and isinstance(c.args[0], ast.List) and len(c.args[0].elts) == 1 and
                isinstance(c.args[0].elts[0], ast.Name) and c.args[0].elts[0].id in params]
        for c in filt:
            n += 1
            p = c.args[0].elts[0].id
            raw = []
            for x in own_nodes(u.node):
                if isinstance(x, ast.Subscript) and isinstance(x.slice, ast.Name) and x.slice.id == p \
                        and (x.lineno, x.col_offset) > (c.lineno, c.col_offset) and not _rebound_in_comprehension(u, x, p) \
                        and not _reassigned_between(u, p, c, x):
                    raw.append(x)
            # ... nor handed raw to the state machine / context / commanders (they index their tables with it)
            for x in own_nodes(u.node):
                if isinstance(x, ast.Call) and (x.lineno, x.col_offset) > (c.lineno, c.col_offset) and x is not c and \
                        any(isinstance(a, ast.Name) and a.id == p for a in x.args) and \
                        call_text(x).startswith('self.supvisors.') and 'logger' not in call_text(x) and \
                        'mapper.filter' not in call_text(x) and not _reassigned_between(u, p, c, x):
                    R.fail(r7, 'raw-arg|%s|%s' % (name, call_text(x)), u.loc(x),
                           'RPCInterface.%s resolves `%s` through mapper.filter() (nick names / stereotypes accepted) but '
                           'then passes the raw parameter to %s: an unknown identifier is recorded / KeyError' %
                           (name, p, call_text(x)), 'RPCInterface.%s passes only resolved identifiers on' % name)
            if not raw:
                R.ok(r7, 'RPCInterface.%s indexes only with resolved identifiers' % name, u.loc(c))
            for x in raw:
                R.fail(r7, 'raw-key|%s|%s' % (name, ast.unparse(x.value)), u.loc(x),
                       'RPCInterface.%s resolves `%s` through mapper.filter() (nick names / stereotypes accepted) but '
                       'then indexes %s with the raw parameter: KeyError for a nick identifier' %
                       (name, p, ast.unparse(x.value)), 'RPCInterface.%s indexes only with resolved identifiers' % name)
    R.require(n >= 4, 'fewer than 4 mapper.filter([param]) resolutions found in RPCInterface')

    # ---------------------------------------------------------------- R8
    r8 = R.rule('R8', 'container mutated while iterated', 'no loop removes elements from (or inserts into) the very '
                'container expression it iterates (skipped elements / RuntimeError); iteration over a copy '
                '(list(x), x.copy(), sorted(x), x[:]) is the accepted idiom', 5)
    iter_mutation(P, R, r8)
    shared.reentrant_iterations(P, R, r8)
    # ---------------------------------------------------------------- R9
    r9 = R.rule('R9', 'remove() needs membership', 'every X.remove(y) on a collection received as a parameter (core '
                'modules) is dominated by the fact `y in X`, or y iterates (a copy of) X, or the call is inside '
                'try/except KeyError/ValueError', 2)
    shared.unguarded_removes(P, R, r9)
    R.assume('Absence of every KeyError/TypeError/AttributeError in general is NOT decided; only the error classes '
             'listed per rule.')
    R.assume('Threads: proxy threads only post notifications; notification order across senders is taken as '
             'arbitrary in R2 (no assumption that a notification is still current when read).')


# ------------------------------------------------------------------------------------------------ R3 helpers
def notification_producers(P, R, rid):
    """{header: [producer descriptions]} for the producers that can post None data."""
    out = {}
    n_prod = 0
    for u in P.all_units():
        if u.mod.short not in ('supervisorproxy', 'multicast', 'rpchandler', 'listener'):
            continue
        fm = factmap(u)
        for tup in own_nodes(u.node):
            # a notification is the pair (NotificationHeaders.X.value, data), wherever it is built (assigned or passed)
            if not (isinstance(tup, ast.Tuple) and len(tup.elts) == 2 and isinstance(tup.ctx, ast.Load)):
                continue
            h = tup.elts[0]
            txt = ast.unparse(h)
            if not (txt.startswith('NotificationHeaders.') and txt.endswith('.value')):
                continue
            st = fm.stmt_of.get(id(tup), tup)
            header = txt.split('.')[1]
            n_prod += 1
            data = tup.elts[1]
            null = False
            if isinstance(data, ast.Constant) and data.value is None:
                null = True
            elif isinstance(data, ast.Name):
                src = [a for a in own_nodes(u.node) if isinstance(a, ast.Assign) and isinstance(a.targets[0], ast.Name)
                       and a.targets[0].id == data.id]
                from_rpc = any(isinstance(a.value, ast.Call) and call_text(a.value) == 'self.xml_rpc' for a in src)
                if from_rpc:
                    guarded = any(f[0] == data.id and f[1] for f in fm.at(st)) or \
                        any(f[0] == '%s is None' % data.id and not f[1] for f in fm.at(st))
                    null = not guarded
            if null:
                out.setdefault(header, []).append('%s:%d' % (u.qual, st.lineno))
    R.require(n_prod >= 5, 'only %d notification producers found' % n_prod)
    xr = P.unit('SupervisorProxy.xml_rpc')
    has_none = any(v is None or (isinstance(v, ast.Constant) and v.value is None) for v, f, n in returns(xr))
    R.require(has_none, 'SupervisorProxy.xml_rpc no longer has a None return path: R3 source table is stale')
    return out


def notification_consumers(P):
    """{header: (context handler unit, parameter receiving the data, call node)} via listener -> fsm -> context."""
    rn = P.unit('SupervisorListener.read_notification')
    fm = factmap(rn)
    env = P.env(rn, rn.cls)
    out = {}
    for c in own_nodes(rn.node):
        if isinstance(c, ast.Call) and call_text(c).startswith('self.fsm.'):
            hdr = [f[0].split('.')[-1] for f in fm.at(c) if f[1] and f[0].startswith('header == NotificationHeaders.')]
            if not hdr:
                continue
            idx = [i for i, a in enumerate(c.args) if isinstance(a, ast.Name) and a.id == 'event_data']
            if not idx:
                continue
            tg = env.targets(c)
            if not tg:
                raise AnalysisError('read_notification: %s not resolved' % call_text(c))
            u = tg[0][1]
            params = [a.arg for a in u.node.args.args[1:]]
            out[hdr[0]] = (u, params[idx[0]], c)
    return out


def unguarded_uses(P, unit, param, depth):
    """uses of `param` (subscript, iteration, attribute) not dominated by a truthiness / non-None fact, following the
    parameter into resolved callees (depth 3)."""
    fm = factmap(unit)
    env = P.env(unit, unit.cls)
    out = []

    def guarded(node):
        fs = fm.at(node)
        return any((f[0] == param and f[1]) or (f[0] == '%s is None' % param and not f[1]) for f in fs)
    for n in own_nodes(unit.node):
        if isinstance(n, ast.Subscript) and isinstance(n.value, ast.Name) and n.value.id == param:
            if not guarded(n):
                out.append((unit, n))
        elif isinstance(n, (ast.For, ast.comprehension)) and isinstance(n.iter, ast.Name) and n.iter.id == param:
            if not guarded(n.iter):
                out.append((unit, n.iter))
        elif isinstance(n, ast.Attribute) and isinstance(n.value, ast.Name) and n.value.id == param:
            if not guarded(n):
                out.append((unit, n))
        elif isinstance(n, ast.Call) and depth < 3 and not ('logger' in call_text(n).split('.')):
            for i, a in enumerate(n.args):
                if isinstance(a, ast.Name) and a.id == param and not guarded(n):
                    for ctx, cu in env.targets(n) or []:
                        ps = [x.arg for x in cu.node.args.args]
                        if ps and ps[0] == 'self':
                            ps = ps[1:]
                        if i < len(ps):
                            out += unguarded_uses(P, cu, ps[i], depth + 1)
    return out


# ------------------------------------------------------------------------------------------------ R4 helpers
NULLABLE_CALLS = {'get_supvisors_instance', 'get_node', 'xml_rpc'}


def optional_uses(P, R, rid):
    n = 0
    for u in P.all_units():
        if u.mod.short not in ('commander', 'strategy', 'supervisorproxy', 'rpcinterface'):
            continue
        fm = factmap(u)
        assigned = {}
        for a in own_nodes(u.node):
            if isinstance(a, ast.Assign) and isinstance(a.targets[0], ast.Name) and isinstance(a.value, ast.Call):
                f = a.value.func
                nm = f.attr if isinstance(f, ast.Attribute) else (f.id if isinstance(f, ast.Name) else None)
                if nm in NULLABLE_CALLS:
                    assigned.setdefault(a.targets[0].id, []).append(a)
        for var, asgs in assigned.items():
            others = [a for a in own_nodes(u.node) if isinstance(a, ast.Assign) and isinstance(a.targets[0], ast.Name)
                      and a.targets[0].id == var and a not in asgs]
            for x in own_nodes(u.node):
                use = None
                if isinstance(x, ast.Subscript) and isinstance(x.value, ast.Name) and x.value.id == var \
                        and isinstance(x.ctx, ast.Load):
                    use = 'subscripted'
                elif isinstance(x, ast.Subscript) and isinstance(x.slice, ast.Name) and x.slice.id == var:
                    use = 'used as a key'
                elif isinstance(x, ast.Call) and isinstance(x.func, ast.Attribute) and \
                        x.func.attr == 'update_identifier' and any(isinstance(a, ast.Name) and a.id == var for a in x.args):
                    use = 'handed to update_identifier'
                if not use or (x.lineno, x.col_offset) < min((a.lineno, a.col_offset) for a in asgs):
                    continue
                n += 1
                fs = fm.at(x)
                ok = any((f[0] == var and f[1]) or (f[0] == '%s is None' % var and not f[1]) for f in fs)
                src = call_text(asgs[0].value)
                R.check(rid, ok, '%s: `%s` (from %s) tested before being %s' % (u.qual, var, src, use),
                        'optional|%s|%s|%s' % (u.qual, src.split('.')[-1], use.split()[0]), u.loc(x),
                        '%s: `%s` is the result of %s (None when nothing fits) and is %s without a non-None test' %
                        (u.qual, var, src, use))
    R.require(n >= 5, 'only %d uses of nullable results found' % n)


def empty_literal_flow(P, R, rid):
    """a parameter that receives the literal '' at some call site (e.g. fail_command(process, '', ...) when no
    instance was found) must not be used as a dictionary key without a truthiness fact, in the callee or in the
    functions it is handed on to (depth 3)."""
    work = []
    for u in P.all_units():
        if u.mod.short in ('supvisorsctl',) or u.mod.name.startswith('supvisors.web') or \
                u.mod.name.startswith('supvisors.tools') or u.mod.name.startswith('supvisors.client'):
            continue
        env = None
        for c in own_nodes(u.node):
            if isinstance(c, ast.Call) and any(isinstance(a, ast.Constant) and a.value == '' for a in c.args) \
                    and 'logger' not in call_text(c).split('.'):
                env = env or P.env(u, u.cls)
                for ctx, tu in env.targets(c) or []:
                    ps = [x.arg for x in tu.node.args.args]
                    if ps and ps[0] == 'self':
                        ps = ps[1:]
                    for i, a in enumerate(c.args):
                        if isinstance(a, ast.Constant) and a.value == '' and i < len(ps):
                            work.append((ctx, tu, ps[i], '%s:%d' % (u.qual, c.lineno), 0))
    seen = set()
    n = 0
    while work:
        ctx, tu, param, origin, depth = work.pop()
        if (tu, param) in seen:
            continue
        seen.add((tu, param))
        n += 1
        fm = factmap(tu)
        env = P.env(tu, ctx)
        bad = []
        for x in own_nodes(tu.node):
            guarded = any(f[0] == param and f[1] for f in fm.at(x))
            if isinstance(x, ast.Subscript) and isinstance(x.ctx, ast.Load) and isinstance(x.slice, ast.Name) \
                    and x.slice.id == param and not guarded:
                bad.append(x)
            if isinstance(x, ast.Call) and depth < 3 and not guarded and 'logger' not in call_text(x).split('.'):
                for i, a in enumerate(x.args):
                    if isinstance(a, ast.Name) and a.id == param:
                        for c2, t2 in env.targets(x) or []:
                            ps = [y.arg for y in t2.node.args.args]
                            if ps and ps[0] == 'self':
                                ps = ps[1:]
                            if i < len(ps):
                                work.append((c2, t2, ps[i], origin, depth + 1))
        R.check(rid, not bad, '%s: `%s` (may be the empty string, from %s) is not used as an unguarded key' %
                (tu.qual, param, origin), 'empty-key|%s|%s' % (tu.qual, param), tu.loc(bad[0]) if bad else tu.loc(),
                '%s uses `%s` as a key (`%s`) without a truthiness test, but %s passes the empty string: KeyError' %
                (tu.qual, param, ast.unparse(bad[0])[:60] if bad else '', origin))
    R.require(n >= 2, 'only %d parameters receiving an empty-string literal found' % n)


def dispatch_total(P, R, rid, *_):
    from ..absval import EnumEval
    for qual, enum, arg in (('strategy:create_strategy', 'StartingStrategies', None),
                            ('strategy:conciliate_conflicts', 'ConciliationStrategies', None)):
        u = P.unit(qual)
        ev = EnumEval(P, enum)
        covered = set()
        for n in own_nodes(u.node):
            if isinstance(n, ast.Compare) and len(n.ops) == 1 and isinstance(n.ops[0], (ast.Eq, ast.In, ast.Is)):
                cs = ev.const_set(n.comparators[0]) or (not isinstance(n.ops[0], ast.In) and ev.const_set(n.left))
                if cs:
                    covered |= cs
            if isinstance(n, ast.Dict):
                for k in n.keys:
                    c = ev.const(k)
                    if c:
                        covered.add(c)
        missing = sorted(set(P.enum_members(enum)) - covered)
        has_else = _chain_has_else(u)
        R.check(rid, not missing or has_else, '%s covers every %s member' % (qual, enum),
                'dispatch|%s|%s' % (qual, ','.join(missing)), u.loc(),
                '%s has no branch for %s member(s) %s and no default: the result is None and its caller dereferences '
                'it' % (qual, enum, missing))
    from ..fsm import Fsm
    f = Fsm(P)
    R.check(rid, set(f.instances) == set(f.members), '_StateInstances covers every SupvisorsStates member',
            'dispatch|_StateInstances', f.cls.mod.relpath + ':%d' % f.inst_node.lineno,
            '_StateInstances lacks %s' % sorted(set(f.members) - set(f.instances)))


def _chain_has_else(u):
    for st in u.node.body:
        if isinstance(st, ast.If):
            cur = st
            while cur.orelse and len(cur.orelse) == 1 and isinstance(cur.orelse[0], ast.If):
                cur = cur.orelse[0]
            if cur.orelse:
                return True
    return False


def _rebound_in_comprehension(u, node, name):
    """node sits inside a comprehension that re-binds `name` as its loop variable."""
    for c in own_nodes(u.node):
        if isinstance(c, (ast.ListComp, ast.SetComp, ast.DictComp, ast.GeneratorExp)):
            if any(x is node for x in ast.walk(c)):
                for g in c.generators:
                    if any(isinstance(t, ast.Name) and t.id == name for t in ast.walk(g.target)):
                        return True
    return False


def _pos(n, low):
    """source position of a node (statements folded from a helper share the line of the call: the column orders them)."""
    if isinstance(n, int):
        return (n, -1 if low else 10 ** 9)
    return (n.lineno, n.col_offset)


def _reassigned_between(u, name, l1, l2):
    """is `name` re-bound between the positions l1 and l2 (nodes, or line numbers)?"""
    p1, p2 = _pos(l1, False), _pos(l2, True)
    for a in own_nodes(u.node):
        if isinstance(a, ast.Assign) and p1 < (a.lineno, a.col_offset) < p2 and any(
                isinstance(t, ast.Name) and t.id == name for tg in a.targets for t in ast.walk(tg)):
            return True
    return False


# ------------------------------------------------------------------------------------------------ R8 helper
MUTATORS = {'remove', 'pop', 'discard', 'append', 'add', 'insert', 'clear', 'popitem', 'extend', 'update',
            'setdefault'}
COPIES = {'list', 'sorted', 'set', 'tuple', 'dict', 'reversed', 'frozenset'}


def iter_mutation(P, R, rid):
    n = 0
    for u in P.all_units():
        for loop in own_nodes(u.node):
            if not isinstance(loop, (ast.For, ast.AsyncFor)):
                continue
            it = loop.iter
            # iterated container expression: x, x.values(), x.items(), x.keys()
            base = it
            if isinstance(it, ast.Call) and isinstance(it.func, ast.Attribute) and it.func.attr in ('values', 'items', 'keys') \
                    and not it.args:
                base = it.func.value
            if isinstance(base, ast.Call):
                continue        # list(x), sorted(x), x.copy(), function result: a fresh object
            if not isinstance(base, (ast.Name, ast.Attribute)):
                continue
            btxt = ast.unparse(base)
            if isinstance(base, ast.Name) and not _is_shared_name(u, base.id):
                pass
            n += 1
            bad = None
            for st in loop.body:
                for x in ast.walk(st):
                    if isinstance(x, ast.Call) and isinstance(x.func, ast.Attribute) and x.func.attr in MUTATORS \
                            and ast.unparse(x.func.value) == btxt:
                        if x.func.attr in ('update', 'setdefault', 'append', 'add', 'extend', 'insert') and \
                                isinstance(it, ast.Call):
                            pass
                        if _followed_by_exit(loop, x):
                            continue
                        bad = x
                    elif isinstance(x, ast.Delete) and any(isinstance(t, ast.Subscript) and ast.unparse(t.value) == btxt
                                                           for t in x.targets):
                        if _followed_by_exit(loop, x):
                            continue
                        bad = x
            key = 'iter-mutation|%s|%s' % (u.qual, btxt)
            R.check(rid, bad is None, '%s: loop over %s does not mutate it' % (u.qual, btxt), key,
                    u.loc(bad or loop), '%s iterates `%s` and calls `%s` on the same container inside the loop: '
                    'elements are skipped (list) or RuntimeError is raised (dict/set)' %
                    (u.qual, ast.unparse(it), ast.unparse(bad)[:80] if bad is not None else ''))
    R.require(n >= 20, 'only %d loops over named containers found' % n)


def _is_shared_name(u, name):
    return True


def _followed_by_exit(loop, node):
    """the mutation is immediately followed by break/return in its block (the loop does not continue)."""
    def find(stmts):
        for i, st in enumerate(stmts):
            if any(x is node for x in ast.walk(st)):
                if isinstance(st, (ast.Expr, ast.Delete, ast.Assign)):
                    rest = stmts[i + 1:]
                    return any(isinstance(r, (ast.Break, ast.Return)) for r in rest)
                for fld in ('body', 'orelse', 'finalbody'):
                    v = getattr(st, fld, None)
                    if isinstance(v, list) and any(x is node for s in v if isinstance(s, ast.AST) for x in ast.walk(s)):
                        return find(v)
                for h in getattr(st, 'handlers', []):
                    if any(x is node for s in h.body for x in ast.walk(s)):
                        return find(h.body)
        return False
    return find(loop.body)
