"""Obligations that are necessary conditions of several properties: each is written once here and reported by every
property it conditions (so that a change breaking property X is reported by the check of X, not only by a sibling)."""
import ast
from ..model import own_nodes
from ..paths import factmap, call_text, returns, must_call


def enum_classes(P, R, rid, only=None):
    """each load_enum(elt, '<attr>', <Enum>, rules) parses with the enum the rules attribute is annotated with."""
    AR, PRu = P.cls('ApplicationRules'), P.cls('ProcessRules')
    n = 0
    for q, rules_cls in (('Parser.load_application_rules', AR), ('Parser.load_model_rules', PRu)):
        u = P.unit(q)
        for c in own_nodes(u.node):
            if isinstance(c, ast.Call) and call_text(c) == 'self.load_enum':
                attr, klass = c.args[1].value, ast.unparse(c.args[2])
                if only and attr not in only:
                    continue
                n += 1
                m = P.member(rules_cls, attr)
                ann = ast.unparse(m[2][0]) if m and m[0] == 'cattr' and m[2][0] is not None else None
                R.check(rid, ann == klass, '%s: <%s> parsed with %s' % (q.split('.')[1], attr, klass),
                        'enum-class|%s|%s' % (q.split('.')[1], attr), u.loc(c),
                        '%s parses <%s> with the enum %s but %s.%s is declared %s: valid values are rejected and the '
                        'rule silently keeps its default' % (q, attr, klass, rules_cls.name, attr, ann))
    R.require(n >= 1, 'no load_enum call found for %s' % (only,))


def stop_sequence_default(P, R, rid):
    """stop_sequence defaults to start_sequence exactly when unset (< 0), at both levels."""
    for cname in ('ProcessRules', 'ApplicationRules'):
        u = P.unit(cname + '.check_stop_sequence')
        fm = factmap(u)
        asg = [a for a in own_nodes(u.node) if isinstance(a, ast.Assign) and ast.unparse(a.targets[0]) == 'self.stop_sequence']
        ok = len(asg) == 1 and ast.unparse(asg[0].value) == 'self.start_sequence' and \
            {tuple(f) for f in fm.at(asg[0])} == {('self.stop_sequence < 0', True)}
        R.check(rid, ok, '%s: stop_sequence defaults to start_sequence only when unset (< 0)' % cname,
                'stop_sequence-default|%s' % cname, u.loc(), '%s.check_stop_sequence assigns under %s: an explicit '
                'stop_sequence 0 is overwritten and the process stops in the wrong group' %
                (cname, [sorted(tuple(f) for f in fm.at(a)) for a in asg]))


def request_stamp(P, R, rid):
    """the timeout reference is the target counter at the time the request is SENT (start()/stop())."""
    usc = P.unit('ProcessCommand.update_sequence_counter')
    ok = any(isinstance(a, ast.Assign) and ast.unparse(a.targets[0]) == 'self.request_sequence_counter' and
             ast.unparse(a.value) == 'self.instance_status.sequence_counter' for a in own_nodes(usc.node))
    R.check(rid, ok, 'the reference counter is the target counter', 'stamp|reference', usc.loc(),
            'update_sequence_counter does not store instance_status.sequence_counter')
    for q in ('ProcessStartCommand.start', 'ProcessStopCommand.stop'):
        u = P.unit(q)
        R.check(rid, must_call(u.node, lambda c: call_text(c) == 'self.update_sequence_counter'),
                '%s stamps the request when it is sent' % q, 'stamp|%s' % q, u.loc(),
                '%s does not stamp the request with the current sequence counter: the deadline runs from a stale '
                'counter and the job is given up (and the next group requested) too early' % q)


def jobs_dropped_with_instance(P, R, rid):
    """both _common_next forward the lost instances; every command targeting a lost instance is removed."""
    for q in ('_MasterSlaveState._common_next', '_WorkingState._common_next'):
        u = P.unit(q)
        fm = factmap(u)
        for tgt in ('starter', 'stopper'):
            cs = [c for c in own_nodes(u.node) if isinstance(c, ast.Call)
                  and call_text(c) == 'self.supvisors.%s.on_instances_invalidation' % tgt]
            ok = len(cs) == 1 and {tuple(f) for f in fm.at(cs[0])} == {('self.lost_instances', True)} and \
                [ast.unparse(a) for a in cs[0].args] == ['self.lost_instances', 'self.lost_processes']
            R.check(rid, ok, '%s informs the %s of every lost instance' % (q, tgt), 'lost|%s|%s' % (q, tgt), u.loc(),
                    '%s does not call %s.on_instances_invalidation(lost_instances, lost_processes) exactly under '
                    '`self.lost_instances`' % (q, tgt))
    u = P.unit('ApplicationJobs.on_instances_invalidation')
    fm = factmap(u)
    rem = [c for c in own_nodes(u.node) if isinstance(c, ast.Call) and call_text(c) == 'self.current_jobs.remove']
    loops = [l for l in u.node.body if isinstance(l, ast.For)]
    ok = len(rem) == 1 and {tuple(f) for f in fm.at(rem[0])} == {('command.identifier in invalidated_identifiers', True)} \
        and loops and ast.unparse(loops[0].iter) in ('list(self.current_jobs)', 'self.current_jobs.copy()',
                                                     'self.current_jobs[:]')
    R.check(rid, ok, 'every current command targeting a lost instance is removed (loop over a copy)',
            'lost|ApplicationJobs', u.loc(), 'ApplicationJobs.on_instances_invalidation does not remove exactly the '
            'commands whose identifier is invalidated (found under %s) while iterating over a copy of current_jobs: the '
            'job stays pending for ever (its deadline counts the ticks of the dead instance)' %
            [sorted(tuple(f) for f in fm.at(c)) for c in rem])
    u = P.unit('Commander.on_instances_invalidation')
    R.check(rid, must_call(u.node, lambda c: call_text(c) == 'self.next'), 'the sequence moves on after the clean-up',
            'lost|Commander-next', u.loc(), 'Commander.on_instances_invalidation does not end with next()')


def reception_stamp(P, R, rid):
    """every report, whatever its origin (instance loss included), is stamped with its local reception time."""
    for q in ('ProcessStatus.add_info', 'ProcessStatus.update_info'):
        u = P.unit(q)
        fmq = factmap(u)
        lm = [a for a in own_nodes(u.node) if isinstance(a, ast.Assign) and ast.unparse(a.targets[0]) == "info['local_mtime']"]
        le = [a for a in own_nodes(u.node) if isinstance(a, ast.Assign) and ast.unparse(a.targets[0]) == 'self.last_event_mtime']
        ok = len(lm) == 1 and len(le) == 1 and not fmq.at(lm[0]) and not fmq.at(le[0]) and \
            ast.unparse(le[0].value) == 'time.monotonic()' and ast.unparse(lm[0].value) == 'self.last_event_mtime'
        R.check(rid, ok, '%s stamps the entry with its local reception time, whatever the origin of the report' % q,
                'reception-stamp|%s' % q, u.loc(), '%s does not unconditionally stamp info[local_mtime]: the FATAL report '
                'of an instance loss is not the most recent one and another stopped-like state is shown' % q)


def pending_per_node(P, R, rid):
    """pending requests are summed per node and added to the current node load in the cap."""
    nr = P.unit('strategy:get_node_load_request_map')
    ok = node_requests_summed(nr)
    R.check(rid, ok, 'pending requests of all instances of a node are summed', 'pending|node-requests', nr.loc(),
            'get_node_load_request_map does not accumulate (+=) the pending loads of the instances of a node: requests '
            'on sibling instances overwrite each other')
    lv = P.unit('AbstractStartingStrategy.is_loading_valid')
    val, node, inst = loading_terms(P)
    mid = 'self.supvisors.context.instances[identifier].supvisors_id.local_view.machine_id'
    ok = node == sorted(['load_details[1].get(%s, 0)' % mid, 'load_details[2].get(%s, 0)' % mid])
    R.check(rid, ok, 'node load = current load + pending requests on that node', 'pending|node_loading', lv.loc(),
            'is_loading_valid computes node_loading as `%s`' % ' + '.join(node))


def node_requests_summed(nr):
    """get_node_load_request_map: <map>[node of the instance] += load of the instance, for every pending request."""
    from ..defuse import closed_text
    aug = [a for a in own_nodes(nr.node) if isinstance(a, ast.AugAssign)]
    E = 'each(load_request_map.items())'
    return len(aug) == 1 and isinstance(aug[0].op, ast.Add) and isinstance(aug[0].target, ast.Subscript) and \
        closed_text(nr, aug[0].target.slice) == 'mapper.instances[%s[0]].local_view.machine_id' % E and \
        closed_text(nr, aug[0].value) == E + '[1]'


def loading_terms(P):
    """closed forms of what is_loading_valid returns: (validity Compare or None, node-load terms, instance-load terms)."""
    from ..defuse import defuse, sum_terms
    lv = P.unit('AbstractStartingStrategy.is_loading_valid')
    rs = [v for v, f, n in returns(lv) if v is not None]
    if len(rs) != 1 or not isinstance(rs[0], ast.Tuple) or len(rs[0].elts) != 3:
        return None, [], []
    return defuse(lv).closed(rs[0].elts[0]), sum_terms(lv, rs[0].elts[1]), sum_terms(lv, rs[0].elts[2])


def application_candidates(P, R, rid):
    """the application-level candidates: application rule + known/enabled everywhere (NOT the program rules)."""
    for nm in ('possible_identifiers', 'possible_node_identifiers'):
        u = P.unit('ApplicationStatus.' + nm)
        comps = [c for c in own_nodes(u.node) if isinstance(c, ast.SetComp)]
        ok = any([ast.unparse(i) for i in c.generators[0].ifs] == ["not info['disabled']"] and
                 ast.unparse(c.generators[0].iter) == 'process.info_map.items()' for c in comps)
        rs = [v for v, f, n in returns(u) if v is not None]
        ok = ok and len(rs) == 1 and isinstance(rs[0], ast.ListComp) and \
            ast.unparse(rs[0].generators[0].iter) == 'filtered_identifiers'
        uses_prog_rule = any(isinstance(c, ast.Call) and call_text(c).endswith('process.possible_identifiers')
                             for c in own_nodes(u.node))
        R.check(rid, ok and not uses_prog_rule, 'ApplicationStatus.%s: application rule x (known and enabled), program '
                'rules not consulted' % nm, 'application-candidates|%s' % nm, u.loc(),
                'ApplicationStatus.%s does not build its candidates from the application rule and the per-instance '
                'known/enabled information only (the program identifiers rule must be REPLACED by the application\'s)' % nm)
    u = P.unit('ApplicationStatus.possible_identifiers')
    ok = any(isinstance(c, ast.Call) and isinstance(c.func, ast.Attribute) and c.func.attr == 'intersection'
             for c in own_nodes(u.node))
    R.check(rid, ok, 'SINGLE_INSTANCE candidates know every program of the application (intersection)',
            'application-candidates|intersection', u.loc(), 'ApplicationStatus.possible_identifiers no longer intersects '
            'the per-process sets')


def disability_accepted(P, R, rid):
    """enable/disable events are taken from CHECKED and RUNNING peers and update the entry of their sender."""
    u = P.unit('Context.on_process_disability_event')
    # the state condition under which the flag is updated is exactly "CHECKED or RUNNING" (not narrower)
    from ..paths import factmap, cf
    fm = factmap(u)
    upd = [x for x in own_nodes(u.node) if isinstance(x, ast.Call) and isinstance(x.func, ast.Attribute)
           and x.func.attr == 'update_disability']
    want = cf('status.state in [SupvisorsInstanceStates.CHECKED, SupvisorsInstanceStates.RUNNING]', True)
    ok = len(upd) == 1 and {tuple(f) for f in fm.at(upd[0]) if 'status.state' in f[0]} == {want}
    R.check(rid, ok, 'disability events are accepted from CHECKED and RUNNING peers', 'disability|accept', u.loc(),
            'Context.on_process_disability_event is not under `status.state in [CHECKED, RUNNING]`: an event dropped '
            'leaves a stale enabled flag and a start is sent where the program is disabled')
    c = [x for x in own_nodes(u.node) if isinstance(x, ast.Call) and call_text(x) == 'process.update_disability']
    ok = len(c) == 1 and [ast.unparse(a) for a in c[0].args] == ['status.identifier', "event['disabled']"]
    R.check(rid, ok, 'the flag of the sending instance is updated', 'disability|target', u.loc(),
            'on_process_disability_event calls update_disability(%s)' % [', '.join(ast.unparse(a) for a in x.args) for x in c])
    ud = P.unit('ProcessStatus.update_disability')
    ok = any(isinstance(a, ast.Assign) and ast.unparse(a.targets[0]) == "self.info_map[identifier]['disabled']"
             and ast.unparse(a.value) == 'disabled' for a in own_nodes(ud.node))
    R.check(rid, ok, 'update_disability stores the flag per instance', 'disability|store', ud.loc(),
            'ProcessStatus.update_disability does not store info_map[identifier][disabled]')


def unguarded_removes(P, R, rid, modules=('commander', 'strategy', 'context', 'process', 'application', 'statemachine',
                                          'instancestatus', 'statemodes', 'listener')):
    """X.remove(y) on a collection X received as a PARAMETER (not owned by the function) raises when y is absent: each
    call is dominated by `y in X`, or y iterates (a copy of) X, or the call is inside try/except KeyError/ValueError."""
    n = 0
    for u in P.all_units():
        if u.mod.short not in modules:
            continue
        fm = factmap(u)
        for c in own_nodes(u.node):
            if not (isinstance(c, ast.Call) and isinstance(c.func, ast.Attribute) and c.func.attr == 'remove' and
                    len(c.args) == 1):
                continue
            X, y = ast.unparse(c.func.value), ast.unparse(c.args[0])
            params = {a.arg for a in u.node.args.args}
            if X not in params:
                continue        # a collection the object owns: its invariants are not decided here
            n += 1
            member = any(f[1] and f[0] == '%s in %s' % (y, X) for f in fm.at(c))
            caught = any(h in ('KeyError', 'ValueError', 'Exception') for hs in fm.handlers.get(id(c), ()) for hh in hs
                         for h in hh)
            iterated = False
            for l in own_nodes(u.node):
                if isinstance(l, (ast.For, ast.comprehension)) and ast.unparse(l.target) == y:
                    it = ast.unparse(l.iter)
                    if it in (X, 'list(%s)' % X, '%s.copy()' % X, 'sorted(%s)' % X, '%s[:]' % X):
                        iterated = True
            derived = False
            for a in own_nodes(u.node):      # y = min/max/next(...X...) : an element of X
                if isinstance(a, ast.Assign) and ast.unparse(a.targets[0]) == y and isinstance(a.value, ast.Call) and \
                        call_text(a.value) in ('min', 'max') and a.value.args and ast.unparse(a.value.args[0]).startswith(X.split('.copy')[0][:6]):
                    derived = True
            # X is a fresh copy of a set y was taken from: `X = S.copy(); X.remove(min(S))`
            for a in own_nodes(u.node):
                if isinstance(a, ast.Assign) and ast.unparse(a.targets[0]) == X and ast.unparse(a.value).endswith('.copy()'):
                    src = ast.unparse(a.value)[:-7]
                    for b in own_nodes(u.node):
                        if isinstance(b, ast.Assign) and ast.unparse(b.targets[0]) == y and src in ast.unparse(b.value):
                            derived = True
            ok = member or caught or iterated or derived
            R.check(rid, ok, '%s: %s.remove(%s) cannot miss' % (u.qual, X, y), 'remove|%s|%s|%s' % (u.qual, X, y),
                    u.loc(c), '%s calls %s.remove(%s) without the fact `%s in %s` (nor a try/except, nor an iteration '
                    'over %s): KeyError / ValueError when the element is absent' % (u.qual, X, y, y, X, X))
    R.require(n >= 2, 'only %d remove() calls on parameter collections found' % n)


def pending_load_definition(P, R, rid):
    """what counts as "starts already requested there": every command of the application job - CURRENT and PLANNED -
    that has a target identifier and whose process is still stopped, with the expected_load of its process."""
    from ..paths import factmap, statements
    from ..defuse import closed_text
    u = P.unit('ApplicationStartJobs.get_load_requests')
    fm = factmap(u)
    loops = [l for l in own_nodes(u.node) if isinstance(l, ast.For)]
    iters = ' '.join(closed_text(u, l.iter) for l in loops)
    ok = 'self.current_jobs' in iters and 'self.planned_jobs' in iters
    R.check(rid, ok, 'the pending load covers the current AND the planned commands of the job', 'pending|scope', u.loc(),
            'ApplicationStartJobs.get_load_requests iterates %s: the commands of %s are not counted, so a start already '
            'assigned to an instance is ignored by the next placement' %
            (iters or 'nothing', 'self.planned_jobs' if 'self.planned_jobs' not in iters else 'self.current_jobs'))
    acc = []
    for l in loops:
        for st in statements(l):
            if st is l or isinstance(st, (ast.If, ast.For)):
                continue
            if 'expected_load' in ast.unparse(st) or 'expected_load' in closed_text(u, getattr(st, 'value', st)):
                acc.append((st, l))
    good = 0
    for st, l in acc:
        E = 'each(%s)' % closed_text(u, l.iter)
        if fm.closed(st) == {(E + '.process.stopped()', True), (E + '.identifier', True)}:
            good += 1
    R.check(rid, bool(acc) and good == len(acc), 'a pending start counts when it has a target and its process is still '
            'stopped', 'pending|filter', u.loc(), 'ApplicationStartJobs.get_load_requests accumulates expected_load under '
            '%s (needs exactly: process stopped and identifier set)' % [sorted(fm.closed(st)) for st, l in acc])


def distribution_candidates(P, R, r4):
    """SINGLE_INSTANCE / SINGLE_NODE: the selection is made once among the APPLICATION candidates (closed forms)."""
    from ..paths import factmap, call_text
    from ..defuse import closed_text
    si = P.unit('ApplicationStartJobs.distribute_to_single_instance')
    fm = factmap(si)
    gi = [c for c in own_nodes(si.node) if isinstance(c, ast.Call) and call_text(c) == 'get_supvisors_instance']
    # closed forms (sa.defuse): what is compared does not depend on the names of locals and comprehension binders
    PJ = 'self.planned_jobs.values()'
    ALL_CMDS = '[each(each(%s)) for _ in %s for _ in each(%s)]' % (PJ, PJ, PJ)
    upd = [c for c in own_nodes(si.node) if isinstance(c, ast.Call) and isinstance(c.func, ast.Attribute)
           and c.func.attr == 'update_identifier']
    sel = closed_text(si, gi[0]) if len(gi) == 1 else '?'
    ok = len(gi) == 1 and closed_text(si, gi[0].args[2]) == 'self.application.possible_identifiers()' and \
        closed_text(si, gi[0].args[3]) == 'self.application.get_start_sequence_expected_load()' and \
        len(upd) == 1 and closed_text(si, upd[0].args[0]) == sel and \
        closed_text(si, upd[0].func.value) == 'each(%s)' % ALL_CMDS and \
        any(isinstance(a, ast.Assign) and ast.unparse(a.targets[0]) == 'self.identifiers' and
            closed_text(si, a.value) == '[%s]' % sel for a in own_nodes(si.node))
    R.check(r4, ok, 'SINGLE_INSTANCE: one instance able to carry the whole sequence, given to all commands',
            'distribution|single-instance', si.loc(), 'distribute_to_single_instance does not choose one identifier '
            'among application.possible_identifiers() for the whole start-sequence load and give it to every command')
    sn = P.unit('ApplicationStartJobs.distribute_to_single_node')
    gn = [c for c in own_nodes(sn.node) if isinstance(c, ast.Call) and call_text(c) == 'get_node']
    asg = [closed_text(sn, a.value) for a in own_nodes(sn.node) if isinstance(a, ast.Assign)
           and ast.unparse(a.targets[0]) == 'self.identifiers']
    node = closed_text(sn, gn[0]) if len(gn) == 1 else '?'
    CAND = 'self.application.possible_node_identifiers()'
    ok = len(gn) == 1 and closed_text(sn, gn[0].args[2]) == CAND and \
        closed_text(sn, gn[0].args[3]) == 'self.application.get_start_sequence_expected_load()' and \
        asg == ['[each(%s) for _ in %s if each(%s) in list(self.supvisors.mapper.nodes.get(%s, []))]' %
                (CAND, CAND, CAND, node)]
    defs = {'self.identifiers': asg}
    R.check(r4, ok, 'SINGLE_NODE: the selection is the application candidates that belong to the chosen node',
            'distribution|single-node', sn.loc(), 'distribute_to_single_node does not restrict self.identifiers to the '
            'application node candidates of the node chosen by get_node for the whole load (%s)' %
            {k: defs.get(k) for k in ('self.identifiers',)})


def running_definitions(P, R, rid):
    """"still running" means STARTING, BACKOFF or RUNNING: an application has running processes when ANY of its
    processes is in RUNNING_STATES (not only in the RUNNING state); the stop plan is built from that."""
    from ..paths import returns, ctext
    from ..defuse import comp_view, cond_atoms
    from .. import supstates
    u = P.unit('ApplicationStatus.has_running_processes')
    rs = [v for v, f, n in returns(u) if v is not None]
    ok = False
    if len(rs) == 1 and isinstance(rs[0], ast.Call) and ast.unparse(rs[0].func) == 'any' and len(rs[0].args) == 1:
        cv = comp_view(u, rs[0].args[0])
        if cv and cv['iters'] == ['self.processes.values()'] and isinstance(cv['elt'], str):
            E = 'each(self.processes.values())'
            at = cond_atoms([ast.parse(cv['elt'], mode='eval').body]) | cv['conds']
            ok = at in ({(E + '.running()', True)}, {(E + '.state in RUNNING_STATES', True)})
    R.check(rid, ok, 'an application has running processes when any process is STARTING, BACKOFF or RUNNING',
            'running|application', u.loc(), 'ApplicationStatus.has_running_processes is %s: an application whose '
            'processes are all STARTING or BACKOFF is considered stopped and is left out of the stop plan' %
            [ast.unparse(v) for v in rs])
    ro = P.unit('ProcessStatus.running_on')
    from ..paths import expand_self
    rv = [expand_self(ro, v) for v, f, n in returns(ro) if v is not None]
    ok = rv == [expand_self(ro, 'self.running() and identifier in self.running_identifiers')]
    R.check(rid, ok, 'running_on(i) is "the process is running and i is one of the instances where it runs"',
            'running|running_on', ro.loc(), 'ProcessStatus.running_on returns %s: the per-instance payload can say '
            'STOPPING/RUNNING while the instance is no longer listed (or the reverse), so a copy is not invalidated / not '
            'stopped' % rv)
    # what runs on an instance is every process for which running_on(that instance) - whatever the state of the instance:
    # the processes of a FAILED / ISOLATED instance are precisely those that invalidate_failed must declare lost
    rp = P.unit('SupvisorsInstanceStatus.running_processes')
    from ..defuse import comp_view
    rs = [v for v, f, n in returns(rp) if v is not None]
    cv = comp_view(rp, rs[0]) if len(rs) == 1 else None
    E = 'each(self.processes.values())'
    ok = cv is not None and cv['kind'] == 'list' and cv['iters'] == ['self.processes.values()'] and cv['elt'] == E and \
        cv['conds'] == {(E + '.running_on(self.identifier)', True)}
    R.check(rid, ok, 'running_processes() lists every process running on the instance, unconditionally',
            'running|instance', rp.loc(), 'SupvisorsInstanceStatus.running_processes returns %s: the processes of an '
            'instance that has just been isolated are no longer invalidated' % [ast.unparse(v)[:100] for v in rs])
    pr = P.unit('ProcessStatus.running')
    rv = [ctext(v) for v, f, n in returns(pr) if v is not None]
    st = supstates.load()
    ok = rv == ['self.state in RUNNING_STATES'] and sorted(st['RUNNING_STATES']) == ['BACKOFF', 'RUNNING', 'STARTING']
    R.check(rid, ok, 'ProcessStatus.running() is state in RUNNING_STATES (STARTING, BACKOFF, RUNNING)', 'running|process',
            pr.loc(), 'ProcessStatus.running returns %s' % rv)


def transport_failure_posted(P, R, rid):
    """an XML-RPC transport failure towards an ACTIVE remote peer (CHECKING, CHECKED, RUNNING, FAILED) posts
    INSTANCE_FAILURE: a peer lost during its handshake leaves CHECKING instead of staying there for ever."""
    from ..paths import factmap, call_text
    u = P.unit('SupervisorProxyThread.handle_exception')
    fm = factmap(u)
    push = [c for c in own_nodes(u.node) if isinstance(c, ast.Call) and call_text(c).endswith('.push_notification')]
    ok = len(push) == 1 and {tuple(f) for f in fm.at(push[0])} == {
        ('self.local_identifier == self.status.identifier', False), ('self.status.has_active_state()', True)} and \
        any(ast.unparse(x) == 'NotificationHeaders.INSTANCE_FAILURE.value' for x in own_nodes(u.node))
    R.check(rid, ok, 'a failed proxy of an active remote peer posts INSTANCE_FAILURE', 'bus|handle_exception', u.loc(),
            'handle_exception does not post INSTANCE_FAILURE under exactly (remote, active state): %s' %
            [sorted(tuple(f) for f in fm.at(c)) for c in push])


def handshake_order(P, R, rid):
    """the handshake request is queued AFTER the instance entered CHECKING: the entry stamps checking_time, and the
    answers of a request stamped before that date are refused as obsolete (is_checking(timestamp))."""
    from ..paths import call_text

    def blocks(stmts):
        yield stmts
        for st in stmts:
            for f in ('body', 'orelse', 'finalbody'):
                v = getattr(st, f, None)
                if isinstance(v, list) and v and isinstance(v[0], ast.stmt) and not isinstance(st, ast.FunctionDef):
                    yield from blocks(v)
            for h in getattr(st, 'handlers', []) or []:
                yield from blocks(h.body)
    n = 0
    for q in ('Context.on_local_tick_event', 'Context.on_tick_event'):
        u = P.unit(q)
        for blk in blocks(u.node.body):
            entered = False
            for st in blk:
                if isinstance(st, ast.Assign) and ast.unparse(st.targets[0]).endswith('.state') and \
                        ast.unparse(st.value) == 'SupvisorsInstanceStates.CHECKING':
                    entered = True
                if isinstance(st, ast.Expr) and isinstance(st.value, ast.Call) and \
                        call_text(st.value).endswith('.send_check_instance'):
                    n += 1
                    R.check(rid, entered, '%s: CHECKING is entered before the handshake is requested' % q,
                            'handshake-order|%s' % q, u.loc(st), '%s queues the handshake request before setting the '
                            'instance CHECKING: a request stamped before checking_time gets its authorization refused as '
                            'obsolete and the instance stays CHECKING for ever' % q)
    R.require(n >= 2, 'only %d send_check_instance requests found in the tick handlers of Context' % n)


def discovery_eligibility(P, R, rid):
    """a discovered candidate is eligible only when NEITHER its identifier NOR its nick identifier is known: otherwise
    on_discovery_event replaces the status of a known (possibly ISOLATED) instance by a fresh one."""
    from ..paths import returns
    u = P.unit('SupvisorsMapper.check_candidate')
    trues = [{tuple(f) for f in facts} for v, facts, n in returns(u)
             if isinstance(v, ast.Constant) and v.value is True]
    other = [ast.unparse(v) for v, facts, n in returns(u) if v is not None and not (isinstance(v, ast.Constant)
                                                                                   and v.value in (True, False))]
    ok = len(trues) == 1 and not other and {('nick_identifier in self._nick_identifiers', False),
                                            ('identifier in self.instances', False)} <= trues[0]
    R.check(rid, ok, 'a candidate is eligible only when both its identifier and its nick are unknown',
            'discovery|eligible', u.loc(), 'SupvisorsMapper.check_candidate returns True under %s / other results %s '
            '(needs: nick not in _nick_identifiers AND identifier not in instances)' % ([sorted(x) for x in trues], other))
    ode = P.unit('Context.on_discovery_event')
    from ..paths import factmap, call_text
    fm = factmap(ode)
    mk = [a for a in own_nodes(ode.node) if isinstance(a, ast.Assign) and ast.unparse(a.targets[0]).startswith('self.instances[')]
    ok = bool(mk) and all(any(pol and 'check_candidate(' in t for t, pol in fm.closed(a)) for a in mk)
    R.check(rid, ok, 'a new instance status is only created for an eligible candidate', 'discovery|create', ode.loc(),
            'Context.on_discovery_event stores a new instance status without the fact check_candidate(..)')


def reentrant_iterations(P, R, rid):
    """the periodic checks iterate over COPIES of the job collections: a command that times out forces a process state
    that loops back synchronously into on_event / next(), which removes entries of those very collections."""
    for q, want in (('Commander.check', 'list(self.current_jobs.values())'),
                    ('ApplicationJobs.check', 'list(self.current_jobs)')):
        u = P.unit(q)
        loops = [n for n in own_nodes(u.node) if isinstance(n, ast.For) and 'self.current_jobs' in ast.unparse(n.iter)]
        ok = len(loops) == 1 and ast.unparse(loops[0].iter) in (want, want.replace('list(', 'tuple('))
        R.check(rid, ok, '%s iterates over a copy of current_jobs' % q, 'reentrant-copy|%s' % q, u.loc(),
                '%s iterates %s: the forced state of a timed-out command re-enters next() and changes the collection '
                'during the iteration (RuntimeError caught only by the on_tick guard)' %
                (q, [ast.unparse(l.iter) for l in loops]))


def running_filter(P, R, rid):
    """strategy.get_supvisors_instance hands the strategy the requested identifiers seen RUNNING, IN THE ORDER they were
    given (CONFIG = first in that order)."""
    from ..defuse import comp_view
    g = P.unit('strategy:get_supvisors_instance')
    defs = {a.targets[0].id: a.value for a in own_nodes(g.node) if isinstance(a, ast.Assign)
            and isinstance(a.targets[0], ast.Name)}
    calls = [c for c in own_nodes(g.node) if isinstance(c, ast.Call) and isinstance(c.func, ast.Attribute)
             and c.func.attr == 'get_supvisors_instance']
    ok = False
    if len(calls) == 1 and calls[0].args:
        cand = calls[0].args[0]
        if isinstance(cand, ast.Name):
            cand = defs.get(cand.id)
        cv = comp_view(g, cand)
        src = g.node.args.args[2].arg
        ok = cv is not None and cv['kind'] == 'list' and cv['iters'] == [src] and cv['elt'] == 'each(%s)' % src and \
            cv['conds'] == {('each(%s) in supvisors.context.running_identifiers()' % src, True)}
    R.check(rid, ok, 'candidates are the requested identifiers seen RUNNING, in the requested order',
            'running-filter|get_supvisors_instance', g.loc(), 'get_supvisors_instance does not hand the strategy exactly '
            '[i for i in identifiers if i in context.running_identifiers()]')


def command_added_hook(P, R, rid):
    """a command added to a job already in progress gets its instance through the hook on_command_added, which the start
    jobs override: add_commands calls it (by that name, on self) for every command it appends."""
    from ..paths import factmap, call_text
    ac = P.unit('ApplicationJobs.add_commands')
    fm = factmap(ac)
    app = [c for c in own_nodes(ac.node) if isinstance(c, ast.Call) and isinstance(c.func, ast.Attribute)
           and c.func.attr == 'append']
    hook = [c for c in own_nodes(ac.node) if isinstance(c, ast.Call) and call_text(c) == 'self.on_command_added']
    ok = len(app) == 1 and len(hook) == 1 and {tuple(f) for f in fm.at(hook[0])} == {tuple(f) for f in fm.at(app[0])} and \
        'on_command_added' in P.cls('ApplicationStartJobs').methods
    R.check(rid, ok, 'every command appended to a job in progress goes through on_command_added', 'hook|on_command_added',
            ac.loc(), 'ApplicationJobs.add_commands does not call self.on_command_added() for the command it appends (calls: '
            '%s): the override of ApplicationStartJobs, which gives the command its Supvisors instance for a '
            'non-distributed application, never runs' %
            sorted({call_text(c) for c in own_nodes(ac.node) if isinstance(c, ast.Call) and call_text(c).startswith('self.on_')}))


def polymorphic_factories(P, R, rid):
    """the job / command classes are read through self (the prediction model substitutes its own): never through the
    name of a class."""
    n = 0
    for cname in ('Commander', 'Starter', 'Stopper', 'ApplicationJobs', 'ApplicationStartJobs', 'ApplicationStopJobs'):
        c = P.cls(cname)
        for u in c.methods.values():
            for x in own_nodes(u.node):
                if isinstance(x, ast.Attribute) and x.attr in ('job_class', 'command_class') and isinstance(x.ctx, ast.Load):
                    n += 1
                    ok = isinstance(x.value, ast.Name) and x.value.id == 'self'
                    R.check(rid, ok, '%s reads %s through self' % (u.qual, x.attr), 'factory|%s|%s' % (u.qual, x.attr),
                            u.loc(x), '%s builds its jobs / commands with %s: the class substituted by the prediction '
                            'model is bypassed and the prediction runs the real effects' % (u.qual, ast.unparse(x)))
    R.require(n >= 3, 'only %d reads of job_class / command_class found' % n)


def strategy_defaults(P, R, rid, attr):
    """the failure strategy of a program is the one of its rules file entry, the application's being only the default:
    in Context.setdefault_process the application value is copied into the new ProcessRules BEFORE the parser loads the
    program rules into the same object (copied after, it overwrites what the user configured for the program)."""
    from ..defuse import closed_text
    u = P.unit('Context.setdefault_process')
    load = [c for c in own_nodes(u.node) if isinstance(c, ast.Call) and isinstance(c.func, ast.Attribute)
            and c.func.attr == 'load_program_rules']
    dflt = [a for a in own_nodes(u.node) if isinstance(a, ast.Assign) and isinstance(a.targets[0], ast.Attribute)
            and a.targets[0].attr == attr]
    ok = len(load) == 1 and len(dflt) == 1 and len(load[0].args) == 2 and \
        ast.unparse(dflt[0].targets[0].value) == ast.unparse(load[0].args[1]) and \
        closed_text(u, dflt[0].value) in ('application.rules.' + attr,
                                          "self.setdefault_application(info['group']).rules." + attr) and \
        (dflt[0].lineno, dflt[0].col_offset) < (load[0].lineno, load[0].col_offset)
    R.check(rid, ok, 'the application %s is a default that the program rules override' % attr,
            'strategy|default-before-rules|' + attr, u.loc(), 'Context.setdefault_process does not copy the application '
            '%s into the new rules before load_program_rules(namespec, rules): the strategy configured for the program '
            'is overwritten by the application\'s' % attr)


def proxy_renewed_on_failure(P, R, rid):
    """after a transport failure the ServerProxy object is not reusable (every later call raises CannotSendRequest):
    SupervisorProxy.xml_rpc drops it (self._proxy = None) on EVERY transport failure - whatever `connected` says - so
    that the next call builds a new one; otherwise a peer that comes back is never reachable again."""
    from ..paths import factmap
    u = P.unit('SupervisorProxy.xml_rpc')
    fm = factmap(u)
    hs = [h for h in own_nodes(u.node) if isinstance(h, ast.ExceptHandler) and h.type is not None
          and 'OSError' in ast.unparse(h.type)]
    resets = [a for h in hs for st in h.body for a in ast.walk(st)
              if isinstance(a, ast.Assign) and ast.unparse(a.targets[0]) == 'self._proxy' and ast.unparse(a.value) == 'None']
    plain = [a for h in hs for a in h.body if any(a is r for r in resets)]
    ok = len(hs) == 1 and bool(plain)
    R.check(rid, ok, 'a transport failure always drops the broken ServerProxy', 'proxy-renewed|xml_rpc', u.loc(),
            'SupervisorProxy.xml_rpc does not reset self._proxy unconditionally in its OSError / HTTPException handler '
            '(resets under %s): the broken ServerProxy is reused and the peer is never reachable again' %
            [sorted((f[0], f[1]) for f in fm.at(a)) for a in resets])
    gp = [x for x in P.cls('SupervisorProxy').props.values() if x.name == 'proxy'] if hasattr(P.cls('SupervisorProxy'), 'props') else []
    if gp:
        g = gp[0]
        fmg = factmap(g)
        mk = [a for a in own_nodes(g.node) if isinstance(a, ast.Assign) and ast.unparse(a.targets[0]) == 'self._proxy']
        ok = any({(f[0], f[1]) for f in fmg.at(a)} in ({('self._proxy', False)}, {('self._proxy is None', True)}) and
                 isinstance(a.value, ast.Call) for a in mk)
        R.check(rid, ok, 'a dropped ServerProxy is rebuilt at the next use', 'proxy-renewed|proxy', g.loc(),
                'SupervisorProxy.proxy does not rebuild the ServerProxy when self._proxy is None')


def modes_forgotten_when_lost(P, R, rid):
    """what a peer declared (Supvisors state, starting_jobs / stopping_jobs, Master) is forgotten when it ends STOPPED or
    ISOLATED (auto_fence): update_instance_state replaces its StateModes under both states - and never for the local
    instance. Otherwise the jobs of a lost instance are reported in progress for ever."""
    from ..paths import factmap, holds_when, enum_env
    u = P.unit('SupvisorsStateModes.update_instance_state')
    fm = factmap(u)
    rs = [a for a in own_nodes(u.node) if isinstance(a, ast.Assign) and
          ast.unparse(a.targets[0]) == 'self.instance_state_modes[identifier]' and isinstance(a.value, ast.Call)
          and ast.unparse(a.value.func) == 'StateModes']
    members = P.enum_members('SupvisorsInstanceStates')
    ok = len(rs) == 1
    on = []
    if ok:
        facts = {(f[0], f[1]) for f in fm.closed(rs[0])}
        state_facts = {f for f in facts if 'new_state' in f[0]}
        other = facts - state_facts
        on = sorted(m for m in members if holds_when(state_facts, enum_env(P, 'SupvisorsInstanceStates', 'new_state', m)) is True)
        ok = on == ['ISOLATED', 'STOPPED'] and other == {('identifier == self.local_identifier', False)}
    R.check(rid, ok, 'the modes declared by a peer are forgotten when it becomes STOPPED or ISOLATED', 'modes-reset',
            u.loc(), 'update_instance_state renews the StateModes of the instance for the states %s (expected ISOLATED '
            'and STOPPED, for a remote instance): starting / stopping jobs declared by a lost instance stay reported' % on)


def forced_payload_copied(P, R, rid):
    """the forced event applied locally and the one published to the peers are the same dictionary: Context rewrites it
    (state, removal of 'forced') on a COPY, so that the peers receive the forced event and not an ordinary one."""
    from ..paths import call_text
    # the event given to Context.on_process_state_event is the very dictionary that is published to the other
    # instances: the internal 'forced' marker is removed from a COPY
    ce = P.unit('Context.on_process_state_event')
    ev = ce.node.args.args[2].arg if len(ce.node.args.args) > 2 else 'event'
    def blocks(stmts):
        yield stmts
        for st in stmts:
            for f in ('body', 'orelse', 'finalbody'):
                v = getattr(st, f, None)
                if isinstance(v, list) and v and isinstance(v[0], ast.stmt) and not isinstance(st, ast.FunctionDef):
                    yield from blocks(v)
            for h in getattr(st, 'handlers', []) or []:
                yield from blocks(h.body)
    bad, n_rm = [], 0
    for blk in blocks(ce.node.body):
        copied = False
        for st in blk:
            if isinstance(st, ast.Assign) and len(st.targets) == 1 and isinstance(st.targets[0], ast.Name) and \
                    st.targets[0].id == ev and ast.unparse(st.value) in (ev + '.copy()', 'dict(%s)' % ev, 'copy(%s)' % ev):
                copied = True
            rm = (isinstance(st, ast.Delete) and any(ast.unparse(t) == "%s['forced']" % ev for t in st.targets)) or \
                (isinstance(st, ast.Expr) and isinstance(st.value, ast.Call) and call_text(st.value) == ev + '.pop'
                 and st.value.args and isinstance(st.value.args[0], ast.Constant) and st.value.args[0].value == 'forced')
            if rm:
                n_rm += 1
                if not copied:
                    bad.append(ce.loc(st))
    R.check(rid, n_rm >= 1 and not bad, "the internal 'forced' marker is removed from a copy of the received event",
            'forced|payload-shared', ce.loc(), "Context.on_process_state_event removes 'forced' from the event it received "
            "(%s) instead of from a copy: the same dictionary is sent to the other instances, which then handle the forced "
            "event as an ordinary one" % (bad or 'no removal found'))



def preassigned_target_withdrawn(P, R, rid):
    """the target of the commands of a non-distributed application is chosen before its sequence begins: a command still
    PLANNED when that instance is invalidated must lose it (or process_job must test that the instance is RUNNING before
    command.start()), otherwise the request goes to an instance that is not RUNNING and the job never ends (its deadline
    counts the ticks of the lost instance)."""
    from ..paths import factmap, call_text
    from ..defuse import closed_text
    found = []
    for q in ('ApplicationJobs.on_instances_invalidation', 'ApplicationStartJobs.on_instances_invalidation'):
        cname, mname = q.split('.')
        u = P.cls(cname).methods.get(mname)
        if u is None:
            continue
        fm = factmap(u)
        for l in own_nodes(u.node):
            if not (isinstance(l, ast.For) and 'self.planned_jobs' in closed_text(u, l.iter) and isinstance(l.target, ast.Name)):
                continue
            v = l.target.id
            for a in ast.walk(l):
                if isinstance(a, ast.Assign) and ast.unparse(a.targets[0]) == v + '.identifier' and \
                        isinstance(a.value, ast.Constant) and a.value.value is None and \
                        {(f[0], f[1]) for f in fm.at(a)} == {('%s.identifier in invalidated_identifiers' % v, True)}:
                    found.append(q)
    pj = P.unit('ApplicationStartJobs.process_job')
    fmp = factmap(pj)
    tested = any(isinstance(c, ast.Call) and call_text(c) == 'command.start' and
                 any(f[1] and 'command.identifier' in f[0] and 'running' in f[0].lower() for f in fmp.closed(c))
                 for c in own_nodes(pj.node))
    R.check(rid, bool(found) or tested, 'a planned command loses a target that is invalidated', 'preassigned-lost',
            P.unit('ApplicationJobs.on_instances_invalidation').loc(), 'a command still planned keeps the identifier chosen '
            'in advance (non-distributed application) when that instance is invalidated: neither on_instances_invalidation '
            'withdraws it (command.identifier = None under `command.identifier in invalidated_identifiers`, over '
            'planned_jobs) nor process_job tests that it is RUNNING before command.start()')


def process_of_namespec_tested(P, R, rid):
    """RPCInterface._get_application_process(namespec) answers (application, None) for a namespec that designates a whole
    group ('group:*' or 'group'): when the namespec is a parameter of the XML-RPC, the process part is only dereferenced
    behind a truthiness test - otherwise AttributeError leaves the XML-RPC instead of a fault."""
    from ..paths import factmap, call_text
    RPC = P.cls('RPCInterface')
    n = 0
    for u in RPC.methods.values():
        if u.name.startswith('_'):
            continue
        params = {a.arg for a in u.node.args.args}
        fm = None
        for a in own_nodes(u.node):
            if not (isinstance(a, ast.Assign) and isinstance(a.value, ast.Call) and
                    call_text(a.value) == 'self._get_application_process' and isinstance(a.targets[0], ast.Tuple)
                    and len(a.targets[0].elts) == 2 and isinstance(a.targets[0].elts[1], ast.Name)
                    and a.value.args and isinstance(a.value.args[0], ast.Name) and a.value.args[0].id in params):
                continue
            var = a.targets[0].elts[1].id
            fm = fm or factmap(u)
            rebound = [(s_.lineno, s_.col_offset) for s_ in ast.walk(u.node) if isinstance(s_, ast.Name) and s_.id == var
                       and isinstance(s_.ctx, ast.Store) and s_ is not a.targets[0].elts[1]]
            for x in own_nodes(u.node):
                if isinstance(x, ast.Attribute) and isinstance(x.value, ast.Name) and x.value.id == var and \
                        isinstance(x.ctx, ast.Load) and (x.lineno, x.col_offset) > (a.lineno, a.col_offset):
                    if any((a.lineno, a.col_offset) < r_ < (x.lineno, x.col_offset) for r_ in rebound):
                        continue        # the name was bound again (a loop over the processes of the group)
                    n += 1
                    fs = {(f[0], f[1]) for f in fm.at(x)}
                    ok = (var, True) in fs or (var + ' is None', False) in fs
                    R.check(rid, ok, '%s: `%s.%s` behind a test of the process part' % (u.qual, var, x.attr),
                            'namespec-process|%s|%s' % (u.qual, x.attr), u.loc(x), 'RPCInterface.%s reads `%s.%s` while `%s` is '
                            'None for a namespec that designates a group (%s:*): AttributeError leaves the XML-RPC' %
                            (u.name, var, x.attr, var, 'group'))
    R.require(n >= 3, 'only %d dereferences of the process part of a namespec found' % n)
