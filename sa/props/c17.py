"""C17 - XML-RPC commands are gated by Supvisors state and fail cleanly."""
import ast
import re
from ..model import own_nodes, closures, AnalysisError
from ..paths import factmap, call_text, always_exits, returns
from ..escape import Escape
from .c16 import public_rpc_methods, rule_rpc_escape

EARLY = {'OFF', 'SYNCHRONIZATION', 'ELECTION'}
FROM_DISTRIBUTION = ('from-distribution', {'DISTRIBUTION', 'OPERATION', 'CONCILIATION'})
# frozen from the property statement (one line per sentence of it)
GATES = {
    # "status queries from DISTRIBUTION on"
    'get_all_applications_info': 'from', 'get_application_info': 'from', 'get_application_rules': 'from',
    'get_all_process_info': 'from', 'get_process_info': 'from', 'get_process_rules': 'from', 'get_conflicts': 'from',
    # "start/restart/test_start/update_numprocs/enable/disable/restart_sequence in OPERATION only"
    'start_application': {'OPERATION'}, 'restart_application': {'OPERATION'}, 'test_start_application': {'OPERATION'},
    'start_process': {'OPERATION'}, 'restart_process': {'OPERATION'}, 'test_start_process': {'OPERATION'},
    'start_any_process': {'OPERATION'}, 'update_numprocs': {'OPERATION'}, 'enable': {'OPERATION'},
    'disable': {'OPERATION'}, 'restart_sequence': {'OPERATION'},
    # "stop requests in OPERATION or CONCILIATION"
    'stop_application': {'OPERATION', 'CONCILIATION'}, 'stop_process': {'OPERATION', 'CONCILIATION'},
    # "conciliate in CONCILIATION"
    'conciliate': {'CONCILIATION'},
    # "end_sync in SYNCHRONIZATION with the USER option"
    'end_sync': {'SYNCHRONIZATION'},
    # "restart/shutdown from DISTRIBUTION on"
    'restart': 'from', 'shutdown': 'from',
}
# documented as not gated (instance / state queries, internal start_args, statistics and log-level setters)
UNGATED = {'get_api_version', 'get_supvisors_state', 'get_all_instances_state_modes', 'get_instance_state_modes',
           'get_master_identifier', 'get_strategies', 'get_statistics_status', 'get_network_info',
           'get_all_instances_info', 'get_instance_info', 'get_all_local_process_info', 'get_local_process_info',
           'get_all_inner_process_info', 'get_inner_process_info', 'start_args', 'change_log_level',
           'enable_host_statistics', 'enable_process_statistics', 'update_collecting_period', 'get_logger_levels'}
REJECTIONS = {'BAD_SUPVISORS_STATE', 'BAD_NAME', 'INCORRECT_PARAMETERS', 'NOT_MANAGED'}
VALIDATORS = {'_get_starting_strategy', '_get_conciliation_strategy', '_get_application', '_get_application_process',
              '_get_strategy', '_get_process'}
EFFECT_PREFIXES = ('self.supvisors.starter.', 'self.supvisors.stopper.', 'self.supvisors.fsm.on_',
                   'self.supvisors.supervisor_updater.', 'self.supvisors.starter_model.')
NOT_EFFECTS = {'self.supvisors.starter.in_progress', 'self.supvisors.stopper.in_progress',
               'self.supvisors.starter.get_load_requests'}
EFFECT_CALLS = {'conciliate_conflicts', 'self.start_process', 'self._decrease_numprocs'}


def states_in(expr):
    return {x.attr for x in ast.walk(expr) if isinstance(x, ast.Attribute) and isinstance(x.value, ast.Name)
            and x.value.id == 'SupvisorsStates'}


def fault_code(arg):
    t = ast.unparse(arg)
    m = re.match(r'(?:Faults|SupvisorsFaults)\.(\w+)', t)
    return m.group(1) if m else t


def is_effect(c):
    t = call_text(c)
    if t in EFFECT_CALLS:
        return True
    return t.startswith(EFFECT_PREFIXES) and t not in NOT_EFFECTS


def converts_failure_of(u, raise_call, effect_call):
    """accepted idiom: the rejection sits in an `except` handler of the try whose body holds the effect call, i.e. it
    converts the refusal raised BY the callee (which then did not act) into the documented fault."""
    for t in own_nodes(u.node):
        if isinstance(t, ast.Try) and any(x is effect_call for s in t.body for x in ast.walk(s)):
            if any(x is raise_call for h in t.handlers for s in h.body for x in ast.walk(s)):
                return True
    return False


def validates_param(u, call):
    """the validator is applied to a parameter of the method (not to a name derived later)."""
    params = {a.arg for a in u.node.args.args[1:]}
    return any(isinstance(a, ast.Name) and a.id in params for a in call.args)


def shared_raw_args(P, R, rid):
    """(same obligation as C16.R7) a parameter resolved through mapper.filter() is not passed on raw."""
    from .c16 import public_rpc_methods, _reassigned_between
    for name, u in public_rpc_methods(P):
        params = [a.arg for a in u.node.args.args[1:]]
        filt = [c for c in own_nodes(u.node) if isinstance(c, ast.Call) and call_text(c) == 'self.supvisors.mapper.filter'
                and c.args and isinstance(c.args[0], ast.List) and len(c.args[0].elts) == 1 and
                isinstance(c.args[0].elts[0], ast.Name) and c.args[0].elts[0].id in params]
        for c in filt:
            p = c.args[0].elts[0].id
            bad = [x for x in own_nodes(u.node) if isinstance(x, ast.Call) and (x.lineno, x.col_offset) > (c.lineno, c.col_offset) and x is not c and
                   any(isinstance(a, ast.Name) and a.id == p for a in x.args) and
                   call_text(x).startswith('self.supvisors.') and 'logger' not in call_text(x) and
                   'mapper.filter' not in call_text(x) and not _reassigned_between(u, p, c, x)]
            R.check(rid, not bad, 'RPCInterface.%s passes only the resolved identifier on' % name, 'raw-arg|%s' % name,
                    u.loc(bad[0]) if bad else u.loc(c), 'RPCInterface.%s resolves `%s` through mapper.filter() but then '
                    'passes the raw parameter to %s' % (name, p, [call_text(x) for x in bad]))


def run(P, R):
    RC = P.cls('RPCInterface')
    meths = public_rpc_methods(P)
    R.require(len(meths) >= 40, 'only %d public RPCInterface methods found' % len(meths))
    # gate helpers: _check_X -> literal state list handed to _check_state
    helpers = {}
    for name, u in RC.methods.items():
        if name == '_check_state':
            continue
        for n in own_nodes(u.node):
            if isinstance(n, ast.Call) and call_text(n) == 'self._check_state' and name.startswith('_check_'):
                R.require(n.args and isinstance(n.args[0], (ast.List, ast.Tuple)),
                          '%s: argument of _check_state is not a literal list' % u.qual)
                helpers[name] = states_in(n.args[0])
    R.require(len(helpers) >= 4, 'fewer than 4 _check_* gate helpers found')

    def gate_of(u):
        """(helper name, admitted states, call node) of the first gate call in the method's own body."""
        best = None
        for n in own_nodes(u.node):
            if isinstance(n, ast.Call):
                t = call_text(n)
                if t.startswith('self.') and t[5:] in helpers:
                    cand = (t[5:], helpers[t[5:]], n)
                elif t == 'self._check_state':
                    if not (n.args and isinstance(n.args[0], (ast.List, ast.Tuple))):
                        raise AnalysisError('%s: _check_state argument is not a literal list' % u.qual)
                    cand = ('_check_state', states_in(n.args[0]), n)
                else:
                    continue
                if best is None or n.lineno < best[2].lineno:
                    best = cand
        return best

    # ---------------------------------------------------------------- R1
    r1 = R.rule('R1', 'gate matrix', 'for each public RPCInterface method the set of admitted Supvisors states, resolved '
                'from the _check_* helper it calls down to the literal list given to _check_state, equals the documented '
                'one (status queries and restart/shutdown: DISTRIBUTION on and none of OFF/SYNCHRONIZATION/ELECTION; '
                'start-like: exactly OPERATION; stop: OPERATION|CONCILIATION; conciliate: CONCILIATION; end_sync: '
                'SYNCHRONIZATION); _check_state raises BAD_SUPVISORS_STATE under `fsm.state not in states`', 40)
    for name, u in meths:
        g = gate_of(u)
        if name in GATES:
            want = GATES[name]
            if g is None:
                R.fail(r1, 'gate|%s|none' % name, u.loc(), 'RPCInterface.%s is documented as gated by the Supvisors '
                       'state but calls no _check_* gate' % name, 'gate of %s' % name)
                continue
            got = g[1]
            if want == 'from':
                ok = FROM_DISTRIBUTION[1] <= got and not (got & EARLY)
                wtxt = 'DISTRIBUTION on (no OFF/SYNCHRONIZATION/ELECTION)'
            else:
                ok = got == want
                wtxt = 'exactly %s' % sorted(want)
            R.check(r1, ok, 'RPCInterface.%s admitted in %s' % (name, sorted(got)), 'gate|%s|%s' % (name, g[0]),
                    u.loc(g[2]), 'RPCInterface.%s is served in %s (through %s); documented: %s' %
                    (name, sorted(got), g[0], wtxt))
        elif name in UNGATED:
            R.check(r1, g is None, 'RPCInterface.%s is ungated as documented' % name, 'gate|%s|unexpected' % name,
                    u.loc(), 'RPCInterface.%s is documented as always available but is gated by %s' %
                    (name, g[0] if g else ''))
        else:
            R.note(r1, 'unclassified method %s (gate: %s)' % (name, g[0] if g else 'none'))
    cs = P.unit('RPCInterface._check_state')
    fm = factmap(cs)
    rs = [c for c in own_nodes(cs.node) if isinstance(c, ast.Call) and call_text(c) == 'self._raise']
    ok = len(rs) == 1 and fault_code(rs[0].args[0]) == 'BAD_SUPVISORS_STATE' and \
        {tuple(f) for f in fm.at(rs[0])} == {('self.supvisors.fsm.state in states', False),
                                             ('self.supvisors.fsm.state in states', False)}
    R.check(r1, ok, '_check_state raises BAD_SUPVISORS_STATE exactly when the state is not admitted',
            'gate|_check_state', cs.loc(), '_check_state does not raise BAD_SUPVISORS_STATE under exactly '
            '`fsm.state not in states`')
    st = P.unit('FiniteStateMachine.state')
    R.check(r1, [ast.unparse(v) for v, f, n in returns(st) if v is not None] == ['self.state_modes.state'],
            'fsm.state is the local published state', 'gate|fsm.state', st.loc(), 'FiniteStateMachine.state is not '
            'the local Supvisors state')

    # ---------------------------------------------------------------- R2
    r2 = R.rule('R2', 'must-pass-through', 'in each gated method the gate is the first call evaluated (unconditional, '
                'before any other non-logging call); every rejection (_raise of BAD_SUPVISORS_STATE, BAD_NAME, '
                'INCORRECT_PARAMETERS, NOT_MANAGED) and every validator call (_get_application, '
                '_get_application_process, _get_starting_strategy, _get_conciliation_strategy, program-name test) '
                'precedes every effect call (Starter/Stopper/FSM/supervisor_updater/starter_model/'
                'conciliate_conflicts); validators never fall through (they return a value or raise)', 40)
    for name, u in meths:
        if name not in GATES:
            continue
        g = gate_of(u)
        if g is None:
            continue
        top = [s for s in u.node.body if not (isinstance(s, ast.Expr) and isinstance(s.value, ast.Constant))]
        calls = sorted((c for c in own_nodes(u.node) if isinstance(c, ast.Call) and
                        'logger' not in call_text(c).split('.')), key=lambda c: (c.lineno, c.col_offset))
        first = calls[0] if calls else None
        gate_stmt = [s for s in top if isinstance(s, ast.Expr) and s.value is g[2]]
        R.check(r2, bool(gate_stmt) and first is g[2], '%s: the state gate is evaluated first, unconditionally' % name,
                'gate-first|%s' % name, u.loc(g[2]), 'RPCInterface.%s evaluates %s before its state gate (or the gate '
                'is conditional)' % (name, call_text(first) if first is not None else '?'))
        effects = [c for c in calls if is_effect(c)]
        if not effects:
            R.note(r2, '%s: no effect call' % name)
            continue
        first_eff = min(effects, key=lambda c: (c.lineno, c.col_offset))
        late = []
        for c in calls:
            t = call_text(c)
            if t == 'self._raise' and c.args and fault_code(c.args[0]) in REJECTIONS and \
                    (c.lineno, c.col_offset) > (first_eff.lineno, first_eff.col_offset) and \
                    not converts_failure_of(u, c, first_eff):
                late.append(('rejection %s' % fault_code(c.args[0]), c))
            if t.startswith('self.') and t[5:] in VALIDATORS and validates_param(u, c) and \
                    (c.lineno, c.col_offset) > (first_eff.lineno, first_eff.col_offset):
                late.append(('validator %s' % t[5:], c))
        if not late:
            R.ok(r2, '%s: every rejection and validator precedes the first effect (%s)' %
                 (name, call_text(first_eff)), u.loc(first_eff))
        for what, c in late:
            R.fail(r2, 'effect-before|%s|%s' % (name, what), u.loc(c),
                   'RPCInterface.%s: %s (line %d) comes after the effect call %s (line %d): a rejected request has '
                   'already acted' % (name, what, c.lineno, call_text(first_eff), first_eff.lineno),
                   '%s: every rejection and validator precedes the first effect' % name)
        # validators are at top level (unconditional)
        for c in calls:
            t = call_text(c)
            if t.startswith('self.') and t[5:] in VALIDATORS and validates_param(u, c):
                fm = factmap(u)
                at_top = any(any(x is c for x in ast.walk(s)) for s in top
                             if not isinstance(s, (ast.If, ast.For, ast.While, ast.Try, ast.With)))
                R.check(r2, at_top, '%s: validator %s is unconditional' % (name, t[5:]),
                        'validator-conditional|%s|%s' % (name, t[5:]), u.loc(c),
                        'RPCInterface.%s validates its parameter with %s only under %s' %
                        (name, t[5:], [tuple(f) for f in fm.at(c)]))
    for v in ('_get_strategy', '_get_application', '_get_process', '_get_logger_level'):
        u = P.unit('RPCInterface.' + v)
        body = [s for s in u.node.body]
        total = always_exits(body)
        R.check(r2, total, '%s never falls through' % v, 'validator-total|%s' % v, u.loc(),
                'RPCInterface.%s has a path that returns None implicitly instead of raising' % v)
    gs = P.unit('RPCInterface._get_strategy')
    fmg = factmap(gs)
    arg, kls = gs.node.args.args[1].arg, gs.node.args.args[2].arg
    look = {}
    for v, facts, n in returns(gs):
        if v is not None:
            look[ast.unparse(v)] = {tuple(f) for f in facts}
    ok = ('type(%s) is str' % arg, True) in look.get('%s[%s]' % (kls, arg), set()) and \
        ('type(%s) is int' % arg, True) in look.get('%s(%s)' % (kls, arg), set()) and len(look) == 2
    R.check(r2, ok, 'a strategy is accepted only as an exact str (by name) or an exact int (by value)',
            'validator-type|_get_strategy', gs.loc(), 'RPCInterface._get_strategy accepts %s: with isinstance() a boolean '
            '(a subclass of int) is mapped to a strategy instead of raising INCORRECT_PARAMETERS' %
            {k: sorted(v) for k, v in look.items()})
    # ... and neither lookup can fail with anything but the fault: KeyError / ValueError are caught around them, or the
    # facts in front of them exclude a miss (membership; BOTH bounds for a value)
    for v, facts, n in returns(gs):
        if v is None or n is None:
            continue
        caught = {nm for level in (fmg.handlers.get(id(v), ()) or fmg.handlers.get(id(n), ())) for h in level for nm in h}
        fs = {(f[0], f[1]) for f in facts}
        txt = ast.unparse(v)
        if txt == '%s[%s]' % (kls, arg):
            okl = 'KeyError' in caught or ('%s in %s.__members__' % (arg, kls), True) in fs
            exc = 'KeyError'
        elif txt == '%s(%s)' % (kls, arg):
            lower = any(f in fs for f in (('%s >= 0' % arg, True), ('0 <= %s' % arg, True), ('%s < 0' % arg, False),
                                          ('0 > %s' % arg, False), ('0 <= %s < len(%s)' % (arg, kls), True)))
            upper = any(('len(%s)' % kls) in f[0] for f in fs)
            member = any(f[1] and f[0].startswith('%s in ' % arg) and kls in f[0] for f in fs)
            okl = 'ValueError' in caught or member or (lower and upper)
            exc = 'ValueError'
        else:
            continue
        R.check(r2, okl, '`%s` cannot fail with a bare %s' % (txt, exc), 'validator-lookup|%s' % exc, gs.loc(n),
                'RPCInterface._get_strategy evaluates `%s` neither inside try/except %s nor behind facts that exclude a '
                'miss (facts: %s): a bare %s leaves the XML-RPC instead of Faults.INCORRECT_PARAMETERS' %
                (txt, exc, sorted(fs), exc))
    # NOT_MANAGED and the program-name test
    for name in ('start_application', 'test_start_application', 'stop_application', 'restart_application'):
        u = P.unit('RPCInterface.' + name)
        fm = factmap(u)
        rs = [c for c in own_nodes(u.node) if isinstance(c, ast.Call) and call_text(c) == 'self._raise' and c.args
              and fault_code(c.args[0]) == 'NOT_MANAGED']
        ok = len(rs) == 1 and any((not f[1] and f[0] == 'application_name in self.supvisors.context.'
                                   'get_managed_applications()') or (not f[1] and f[0] == 'application.rules.managed')
                                  for f in fm.at(rs[0]))
        R.check(r2, ok, '%s rejects unmanaged applications' % name, 'not-managed|%s' % name, u.loc(),
                'RPCInterface.%s does not raise NOT_MANAGED exactly when the application is not managed' % name)
    for name in ('update_numprocs', 'enable', 'disable'):
        u = P.unit('RPCInterface.' + name)
        fm = factmap(u)
        rs = [c for c in own_nodes(u.node) if isinstance(c, ast.Call) and call_text(c) == 'self._raise' and c.args
              and fault_code(c.args[0]) == 'BAD_NAME']
        ok = len(rs) >= 1 and any(not f[1] and f[0] == 'program_name in self.supvisors.server_options.program_configs'
                                  for f in fm.at(rs[0]))
        R.check(r2, ok, '%s rejects unknown programs' % name, 'bad-program|%s' % name, u.loc(),
                'RPCInterface.%s does not raise BAD_NAME exactly when the program is unknown' % name)
    u = P.unit('RPCInterface.end_sync')
    fm = factmap(u)
    rs = {fault_code(c.args[0]): {tuple(f) for f in fm.at(c)} for c in own_nodes(u.node)
          if isinstance(c, ast.Call) and call_text(c) == 'self._raise' and c.args}
    ok = rs.get('NOT_APPLICABLE') and ('SynchronizationOptions.USER in self.supvisors.options.synchro_options', False) \
        in rs['NOT_APPLICABLE'] and rs.get('BAD_SUPVISORS_STATE') == {('self.supvisors.state_modes.master_identifier', True)}
    R.check(r2, bool(ok), 'end_sync requires the USER option and no Master yet', 'end_sync|conditions', u.loc(),
            'end_sync does not reject a missing USER option / an already selected Master')
    u = P.unit('RPCInterface.conciliate')
    fm = factmap(u)
    cc = [c for c in own_nodes(u.node) if isinstance(c, ast.Call) and call_text(c) == 'conciliate_conflicts']
    ok = len(cc) == 1 and {tuple(f) for f in fm.at(cc[0])} == {('strategy_enum == ConciliationStrategies.USER', False),
                                                                ('strategy_enum == ConciliationStrategies.USER', False)}
    R.check(r2, ok, 'conciliate acts only for a strategy other than USER', 'conciliate|user', u.loc(),
            'conciliate calls conciliate_conflicts under other facts than `strategy != USER`')

    # ---------------------------------------------------------------- R3
    r3 = R.rule('R3', 'docstring/code agreement', 'every rejection code among BAD_SUPVISORS_STATE, BAD_NAME, '
                'INCORRECT_PARAMETERS, NOT_MANAGED listed in the `:raises RPCError:` block of a public method is the '
                'code of a _raise()/raise RPCError() site reachable from it through self.-helpers (closures included), '
                'unless the method delegates to Supervisor\'s own RPC interface', 30)
    memo = {}

    def faults(unit, depth=0):
        if unit.qual in memo:
            return memo[unit.qual]
        memo[unit.qual] = set()
        out = set()
        nodes = list(own_nodes(unit.node))
        for cu in closures(unit):
            nodes += list(own_nodes(cu.node))
        for n in nodes:
            if isinstance(n, ast.Call):
                f = call_text(n)
                if f == 'self._raise' and n.args:
                    out.add(fault_code(n.args[0]))
                elif f == 'RPCError' and n.args:
                    out.add(fault_code(n.args[0]))
                elif f.startswith('self.') and f[5:] in RC.methods and f[5:] != '_raise' and depth < 6:
                    out |= faults(RC.methods[f[5:]], depth + 1)
        memo[unit.qual] = out
        return out
    n_doc = 0
    for name, u in meths:
        doc = ast.get_docstring(u.node) or ''
        documented = set(re.findall(r'``(?:Supvisors)?Faults\.(\w+)``', doc)) & REJECTIONS
        delegates = any(isinstance(c, ast.Call) and 'supervisor_rpc_interface' in ast.unparse(c)
                        for c in own_nodes(u.node)) or \
            any(isinstance(a, ast.Assign) and 'supervisor_rpc_interface' in ast.unparse(a.value)
                for a in own_nodes(u.node) if isinstance(a, ast.Assign))
        impl = faults(u)
        for code in sorted(documented):
            n_doc += 1
            R.check(r3, code in impl or delegates, 'RPCInterface.%s implements documented %s' % (name, code),
                    'doc-not-impl|%s|%s' % (name, code), u.loc(),
                    'RPCInterface.%s documents `raises RPCError ... %s` but no reachable _raise() has that code: the '
                    'documented rejection is not implemented' % (name, code))
        extra = sorted((impl & REJECTIONS) - documented)
        if extra:
            R.note(r3, '%s raises undocumented %s (context only)' % (name, extra))
    R.require(n_doc >= 30, 'only %d documented rejection codes found in the docstrings' % n_doc)

    # ---------------------------------------------------------------- R4
    r4 = R.rule('R4', 'interprocedural exception flow', 'only RPCError can leave a public RPCInterface method '
                '(explicit raises; same analysis as C16.R1b)', 40)
    rule_rpc_escape(P, R, r4, Escape(P))
    # (implicit exceptions are outside that analysis; one family is decided: the process part of a namespec parameter,
    # None for a group, is only dereferenced behind a test - same obligations as C16.R4)
    from . import shared as _shared17
    _shared17.process_of_namespec_tested(P, R, r4)
    # a documented INCORRECT_PARAMETERS: numprocs must be STRICTLY positive when it reaches the Supervisor updater
    un = P.unit('RPCInterface.update_numprocs')
    fmu = factmap(un)
    upd = [c for c in own_nodes(un.node) if isinstance(c, ast.Call) and
           call_text(c) == 'self.supvisors.supervisor_updater.update_numprocs']
    ok = len(upd) == 1 and len(upd[0].args) == 2 and isinstance(upd[0].args[1], ast.Name) and \
        fmu.has(upd[0], '%s > 0' % upd[0].args[1].id, True)
    R.check(r2, ok, 'update_numprocs hands a strictly positive value to the updater', 'validator|numprocs', un.loc(),
            'RPCInterface.update_numprocs reaches supervisor_updater.update_numprocs under %s (needs the fact value > 0: '
            'a negative numprocs is accepted)' % [sorted(tuple(f) for f in fmu.at(c)) for c in upd])
    shared_raw_args(P, R, r2)
    from .c03 import rule_restart_sequence
    rule_restart_sequence(P, R, r2)
    R.assume('Absence of side effects of a rejected call is decided in the form "no effect call before the last '
             'rejecting check"; deep state equality before/after is not.')
    R.assume('The frozen gate table is read off the property statement; a public method absent from it is listed as '
             'unclassified in evidence, not reported.')
