"""C15 - Application state and operational status follow their definition; the formula evaluator executes nothing else."""
import ast
import re
from ..model import own_nodes, AnalysisError
from ..paths import factmap, call_text, returns, must_call
from ..escape import Escape
from ..callgraph import CallGraph

DEPRECATED = {'Num', 'Str', 'Bytes', 'NameConstant', 'Ellipsis', 'Index', 'ExtSlice', 'Suite', 'Param', 'AugLoad',
              'AugStore'}


# ------------------------------------------------------------------------------------------------ ASDL of the interpreter
def concrete(k):
    subs = [s for s in k.__subclasses__() if s.__name__ not in DEPRECATED]
    out = set()
    for s in subs:
        out |= concrete(s)
    if k._fields or not subs:
        if k.__name__ not in DEPRECATED:
            out.add(k)
    return out


def asdl_fields():
    fields = {}
    for name in dir(ast):
        k = getattr(ast, name)
        if isinstance(k, type) and issubclass(k, ast.AST) and k.__doc__ and k._fields and name not in DEPRECATED:
            m = re.match(r'%s\((.*)\)\s*$' % name, k.__doc__.strip().split('\n')[0])
            if m:
                fields[k] = {}
                for part in filter(None, (x.strip() for x in m.group(1).split(','))):
                    bits = part.split()
                    if len(bits) != 2:
                        continue
                    t, f = bits
                    q = t[-1] if t[-1] in '?*' else ''
                    fields[k][f] = (t.rstrip('?*'), q)
    return fields


def implications(fn_node, fm):
    """guarded-assignment implication: a local initialised to None and assigned elsewhere only under facts F makes
    `x is not None` imply F."""
    asg = {}
    for n in own_nodes(fn_node):
        if isinstance(n, (ast.Assign, ast.AnnAssign)):
            t = n.targets[0] if isinstance(n, ast.Assign) else n.target
            if isinstance(t, ast.Name) and n.value is not None:
                asg.setdefault(t.id, []).append(n)
    out = {}
    for x, nodes in asg.items():
        init = [n for n in nodes if isinstance(n.value, ast.Constant) and n.value.value is None and not fm.at(n)]
        rest = [n for n in nodes if n not in init]
        if len(init) == 1 and rest:
            common = None
            for n in rest:
                fs = {tuple(f): f for f in fm.at(n)}
                common = fs if common is None else {k: v for k, v in common.items() if k in fs}
            if common:
                out[x] = list(common.values())
    return out


def rule_ast_access(P, R, r1):
    """every access on the parsed formula in ApplicationStatus.evaluate is justified by a dominating type fact (shared
    with C16: an AttributeError / IndexError raised there escapes through every handler that updates an application)."""
    ev = P.unit('ApplicationStatus.evaluate')
    FIELDS = asdl_fields()
    EXPRS = concrete(ast.expr)
    param = ev.node.args.args[1].arg
    fm = factmap(ev)
    imp = implications(ev.node, fm)

    def facts_at(n):
        fs = list(fm.at(n))
        extra = []
        for f in fs:
            for x, implied in imp.items():
                if (f[0] == '%s is not None' % x and f[1]) or (f[0] == '%s is None' % x and not f[1]) or \
                        (f[0] == x and f[1]):
                    extra += implied
        return fs + extra

    def narrow(txt, fs, start):
        poss = set(start)
        for f in fs:
            m = re.match(r'type\(%s\) is ast\.(\w+)$' % re.escape(txt), f[0])
            if m and hasattr(ast, m.group(1)):
                k = {getattr(ast, m.group(1))}
                poss = poss & k if f[1] else poss - k
            m = re.match(r'isinstance\(%s, ast\.(\w+)\)$' % re.escape(txt), f[0])
            if m and hasattr(ast, m.group(1)):
                k = concrete(getattr(ast, m.group(1)))
                poss = poss & k if f[1] else poss - k
        return poss
    findings = []

    def static_type(e, fs):
        if isinstance(e, ast.Name) and e.id == param:
            return narrow(param, fs, EXPRS), ''
        if isinstance(e, ast.Attribute):
            base = static_type(e.value, fs)
            if base is None:
                return None
            poss, q = base
            if poss is None or q == '*':
                return None
            lacking = sorted(k.__name__ for k in poss if e.attr not in FIELDS.get(k, {}) and not hasattr(k, e.attr))
            if lacking:
                findings.append((e, 'field|%s' % ast.unparse(e), 'reads `%s` while `%s` may still be any of %d node types '
                                 'that have no such field (e.g. %s): AttributeError on a hostile formula' %
                                 (ast.unparse(e), ast.unparse(e.value), len(lacking), ', '.join(lacking[:4]))))
                return None
            ts = {FIELDS[k][e.attr] for k in poss if e.attr in FIELDS.get(k, {})}
            if len(ts) != 1:
                return None
            t, q2 = next(iter(ts))
            k = getattr(ast, t, None)
            ks = concrete(k) if isinstance(k, type) else None
            return (narrow(ast.unparse(e), fs, ks) if ks else None), q2
        if isinstance(e, ast.Subscript):
            base = static_type(e.value, fs)
            if base is None:
                return None
            poss, q = base
            if q == '*':
                btxt = ast.unparse(e.value)
                guarded = any((f[0] == 'len(%s) == 1' % btxt and f[1]) or (f[0] == btxt and f[1]) or
                              (f[0].startswith('len(%s) >' % btxt) and f[1]) for f in fs)
                if not guarded:
                    findings.append((e, 'index|%s' % ast.unparse(e), 'indexes the variable-length field `%s` without a '
                                     'length fact: IndexError on a hostile formula' % btxt))
                return poss, ''
        return None
    n_access, seen = 0, set()
    for n in own_nodes(ev.node):
        if isinstance(n, (ast.Attribute, ast.Subscript)) and id(n) not in seen:
            root = n
            while isinstance(root, (ast.Attribute, ast.Subscript)):
                root = root.value
            if isinstance(root, ast.Name) and root.id == param:
                n_access += 1
                for sub in ast.walk(n):
                    seen.add(id(sub))
                before = len(findings)
                static_type(n, facts_at(n))
                if len(findings) == before:
                    R.ok(r1, 'access `%s` is justified by the facts in front of it' % ast.unparse(n), ev.loc(n))
    for e, key, msg in findings:
        R.fail(r1, 'ast-access|%s' % key, ev.loc(e), 'ApplicationStatus.evaluate %s' % msg,
               'access `%s` justified' % ast.unparse(e))
    R.require(n_access >= 8, 'only %d accesses rooted at the node parameter found in evaluate' % n_access)


def run(P, R):
    AS = P.cls('ApplicationStatus')
    ev = P.unit('ApplicationStatus.evaluate')
    FIELDS = asdl_fields()
    EXPRS = concrete(ast.expr)
    R.stats['asdl'] = {'node_classes': len(FIELDS), 'expr_classes': len(EXPRS)}

    # ---------------------------------------------------------------- R1
    r1 = R.rule('R1', 'typed-AST access check', 'in ApplicationStatus.evaluate every attribute read or index on an '
                'expression rooted at the `node` parameter is justified by a dominating type(e) is ast.T / isinstance '
                'fact (ASDL signatures of the running interpreter give fields, types and arity): a field read needs all '
                'classes e may still be to own that field; an index on a * field needs a length fact', 8)
    rule_ast_access(P, R, r1)
    fm = factmap(ev)

    # ---------------------------------------------------------------- R2
    r2 = R.rule('R2', 'dominance', 'a stored formula is a single expression: every write of _status_tree is dominated by '
                'the refusal of len(tree.body) != 1 and of a statement that is not an ast.Expr (status_tree dereferences '
                '.body[0].value)', 2)
    su = P.unit('ApplicationRules.status_formula[set]')
    fms = factmap(su)
    ws = [a for a in own_nodes(su.node) if isinstance(a, ast.Assign) and ast.unparse(a.targets[0]) == 'self._status_tree']
    R.require(len(ws) == 1, 'status_formula setter: one write of _status_tree expected')
    fs = {tuple(f) for f in fms.at(ws[0])}
    R.check(r2, ('len(tree.body) == 1', True) in fs, 'exactly one statement', 'single-expr|length', su.loc(),
            'the status_formula setter stores a tree without refusing len(tree.body) != 1')
    ok = ('type(tree.body[0]) is ast.Expr', True) in fs or ('isinstance(tree.body[0], ast.Expr)', True) in fs
    R.check(r2, ok, 'that statement is an expression', 'single-expr|type', su.loc(),
            'the status_formula setter stores a tree whose single statement may not be an ast.Expr (e.g. `import os`): '
            'status_tree then raises AttributeError on .value')
    writers = {u.qual for u in P.all_units() for a in own_nodes(u.node)
               if isinstance(a, ast.Attribute) and isinstance(a.ctx, ast.Store) and a.attr == '_status_tree'}
    R.check(r2, writers == {'ApplicationRules.status_formula[set]'}, 'the setter is the only writer of the tree',
            'single-expr|writers', su.loc(), '_status_tree is written by %s' % sorted(writers))

    # ---------------------------------------------------------------- R3
    r3 = R.rule('R3', 'escape analysis with implicit raisers', 'only ApplicationStatusParseError can leave evaluate() '
                '(explicit raises, plus re.compile/match/search on a non-literal pattern -> re.error); '
                'update_status_formula catches it around the evaluation and reports a major failure', 3)

    def implicit(env, call):
        t = call_text(call)
        if t in ('re.compile', 're.match', 're.search', 're.fullmatch') and call.args and \
                not isinstance(call.args[0], ast.Constant):
            fmu = factmap(env.unit)
            hs = fmu.handlers.get(id(call), ())
            if not any('error' in h or 'Exception' in h for hh in hs for h in hh):
                return ('error',)
        return ()
    E = Escape(P, implicit)
    esc = E.esc((AS, ev))
    bad = sorted({(en.replace('(re-raised)', ''), org) for en, org, f in esc
                  if en.replace('(re-raised)', '') != 'ApplicationStatusParseError'})
    if not bad:
        R.ok(r3, 'evaluate() lets only ApplicationStatusParseError out', ev.loc())
    for en, org in bad:
        R.fail(r3, 'evaluator-escape|%s|%s' % (en, org.split(':')[0]), ev.loc(), 'evaluate() can let %s out (raised at '
               '%s): update_status_formula does not turn it into a major failure and it escapes from '
               'ApplicationStatus.update()' % ('re.error' if en == 'error' else en, org))
    uf = P.unit('ApplicationStatus.update_status_formula')
    fmu = factmap(uf)
    evc = [c for c in own_nodes(uf.node) if isinstance(c, ast.Call) and call_text(c) == 'self.evaluate']
    ok = len(evc) == 1 and any('ApplicationStatusParseError' in h for hs in fmu.handlers.get(id(evc[0]), ()) for h in hs)
    R.check(r3, ok, 'the evaluation is wrapped by except ApplicationStatusParseError', 'evaluator-catch', uf.loc(),
            'update_status_formula does not evaluate inside try/except ApplicationStatusParseError')
    hnd = [h for h in own_nodes(uf.node) if isinstance(h, ast.ExceptHandler)]
    # (every handler around the evaluation - the parse error, and any other a later version tolerates - is a major failure)
    ok = len(hnd) >= 1 and any(h.type is not None and 'ApplicationStatusParseError' in ast.unparse(h.type) for h in hnd) and \
        all(any(isinstance(a, ast.Assign) and ast.unparse(a.targets[0]) == 'self.major_failure'
                and ast.unparse(a.value) == 'True' for s in h.body for a in ast.walk(s)) for h in hnd)
    R.check(r3, ok, 'a refused formula is a major failure', 'evaluator-major', uf.loc(),
            'the handler of ApplicationStatusParseError does not set major_failure')

    # ---------------------------------------------------------------- R4
    r4 = R.rule('R4', 'sink discipline', 'the only dynamic-execution sink reachable from ApplicationStatus.update is one '
                'eval() whose f-string interpolates (a) node.func.id behind the whitelist [all, any] and (b) a value '
                'whose every producer is a boolean expression (comparison, not, all/any, _get_process_status, a list of '
                'those); every node type outside (Constant str, Call, BoolOp, UnaryOp Not) is refused', 6)
    G = CallGraph(P)
    upd = P.unit('ApplicationStatus.update')
    seen_n = G.reach([(AS, upd)])
    sinks = []
    for (ctx, u) in seen_n:
        for c in own_nodes(u.node):
            if isinstance(c, ast.Call) and isinstance(c.func, ast.Name) and c.func.id in ('eval', 'exec', 'compile',
                                                                                           '__import__'):
                sinks.append((u, c))
            if isinstance(c, ast.Call) and isinstance(c.func, ast.Name) and c.func.id == 'getattr' and \
                    len(c.args) > 1 and not isinstance(c.args[1], ast.Constant):
                sinks.append((u, c))
    ok = len(sinks) == 1 and sinks[0][0] is ev and call_text(sinks[0][1]) == 'eval'
    R.check(r4, ok or not sinks, 'one eval(), in evaluate(), is the only dynamic sink (or there is none)', 'sink|unique',
            ev.loc(), 'dynamic execution sinks reachable from update(): %s' %
            ['%s:%s' % (u.qual, ast.unparse(c)[:50]) for u, c in sinks])
    if not sinks:
        # no dynamic execution at all: the functions of a formula are applied by direct calls of the builtins, each
        # under the fact that the formula names that very builtin (on an ast.Name)
        direct = [c for c in own_nodes(ev.node) if isinstance(c, ast.Call) and isinstance(c.func, ast.Name)
                  and c.func.id in ('all', 'any') and fm.has(c, 'type(node) is ast.Call', True)]
        names = {c.func.id for c in direct}
        okd = names == {'all', 'any'} and all(fm.has(c, "node.func.id == '%s'" % c.func.id, True) and
                                               fm.has(c, 'type(node.func) is ast.Name', True) for c in direct)
        R.check(r4, okd, 'all / any are applied by direct calls under the name written in the formula', 'sink|shape',
                ev.loc(), 'evaluate() applies the builtins %s without the facts `node.func.id == <that name>` on an '
                'ast.Name' % sorted(names))
        R.check(r4, okd, 'no other function can be named by a formula', 'sink|whitelist', ev.loc(),
                'evaluate() applies a function outside [all, any]')
        okv = bool(direct) and all(len(c.args) == 1 and isinstance(c.args[0], ast.Name) and all(
            ast.unparse(a.value) in ('self.evaluate(node.args[0])', '[%s]' % c.args[0].id)
            for a in own_nodes(ev.node) if isinstance(a, ast.Assign) and ast.unparse(a.targets[0]) == c.args[0].id
            and fm.has(a, 'type(node) is ast.Call', True)) for c in direct)
        R.check(r4, okv, 'the function is applied to the evaluation of the single argument', 'sink|value', ev.loc(),
                'all / any are not applied to the evaluation of node.args[0]')
    if ok:
        c = sinks[0][1]
        arg = c.args[0]
        parts = [v for v in arg.values if isinstance(v, ast.FormattedValue)] if isinstance(arg, ast.JoinedStr) else None
        lits = ''.join(v.value for v in arg.values if isinstance(v, ast.Constant)) if parts is not None else None
        ok2 = parts is not None and len(parts) == 2 and lits == '()' and len(c.args) == 1 and not c.keywords
        R.check(r4, ok2, 'eval() receives `<name>(<value>)` only', 'sink|shape', ev.loc(c),
                'eval() argument is %s' % ast.unparse(arg))
        if ok2:
            fs = {tuple(f) for f in fm.at(c)}
            a_txt = ast.unparse(parts[0].value)
            white = ("%s in ['all', 'any']" % a_txt, True) in fs and ('type(%s) is ast.Name' % a_txt[:-3], True) in fs
            R.check(r4, white, 'the function name is one of all/any', 'sink|whitelist', ev.loc(c),
                    'eval() interpolates `%s` without the whitelist fact `in [all, any]` on an ast.Name' % a_txt)
            v = parts[1].value
            vdefs = [a for a in own_nodes(ev.node) if isinstance(a, ast.Assign) and ast.unparse(a.targets[0]) == ast.unparse(v)
                     and (a.lineno, a.col_offset) < (c.lineno, c.col_offset) and fm.has(a, 'type(node) is ast.Call', True)]
            okv = bool(vdefs) and all(ast.unparse(a.value) in ('self.evaluate(node.args[0])', '[%s]' % ast.unparse(v))
                                      for a in vdefs)
            R.check(r4, okv, 'the interpolated value is the evaluation of the single argument', 'sink|value', ev.loc(c),
                    'eval() interpolates `%s` defined by %s' % (ast.unparse(v), [ast.unparse(a.value) for a in vdefs]))
    # a function of a formula takes ONE argument: anything else is refused, not truncated to the first one
    one = [c for c in own_nodes(ev.node) if isinstance(c, ast.Call) and call_text(c) == 'self.evaluate'
           and ast.unparse(c.args[0]) == 'node.args[0]']
    ok1 = bool(one) and all(fm.has(c, 'len(node.args) == 1', True) and fm.has(c, 'node.keywords', False) for c in one)
    R.check(r4, ok1, 'all / any are evaluated on exactly one positional argument', 'sink|arity', ev.loc(),
            'evaluate() evaluates node.args[0] without the facts `len(node.args) == 1` and `not node.keywords`: a formula '
            'such as all(a, b) is evaluated on its first argument instead of being refused (major failure)')
    # producers are boolean
    def boolean_expr(e):
        if isinstance(e, (ast.Compare,)):
            return True
        if isinstance(e, ast.UnaryOp) and isinstance(e.op, ast.Not):
            return True
        if isinstance(e, ast.BoolOp):
            return all(boolean_expr(x) for x in e.values)
        if isinstance(e, ast.Call) and call_text(e) in ('all', 'any', 'self._get_process_status', 'eval'):
            return True
        if isinstance(e, ast.ListComp):
            return boolean_expr(e.elt)
        if isinstance(e, ast.Attribute):         # a field annotated bool (process.expected_exit)
            for c in P.classes.values():
                if e.attr in c.cattrs and c.cattrs[e.attr][0] is not None and ast.unparse(c.cattrs[e.attr][0]) == 'bool':
                    return True
        return False
    for q in ('ApplicationStatus.evaluate', 'ApplicationStatus._get_process_status'):
        u = P.unit(q)
        rs = [v for v, f, n in returns(u) if v is not None]
        nb = [ast.unparse(v) for v in rs if not boolean_expr(v)]
        R.check(r4, bool(rs) and not nb, 'every value returned by %s is boolean (or a list of booleans)' % q,
                'sink|producer|%s' % q, u.loc(), '%s can return a non-boolean expression %s, which would be interpolated '
                'into eval()' % (q, nb))
    paths_end = [s for s in ev.node.body if isinstance(s, ast.Raise)]
    ok = bool(paths_end) and ev.node.body[-1] is paths_end[-1] and 'ApplicationStatusParseError' in ast.unparse(paths_end[-1])
    R.check(r4, ok, 'any other construct is refused', 'sink|default-refusal', ev.loc(),
            'evaluate() does not end with an unconditional ApplicationStatusParseError for unsupported node types')
    handled = sorted({m.group(1) for f in (x for n in own_nodes(ev.node) for x in fm.at(n))
                      for m in [re.match(r'type\(node\) is ast\.(\w+)$', f[0])] if m})
    R.check(r4, handled == ['BoolOp', 'Call', 'Constant', 'UnaryOp'], 'the whitelist of node types is Constant, Call, '
            'BoolOp, UnaryOp', 'sink|node-whitelist', ev.loc(), 'evaluate() handles node types %s' % handled)

    # ---------------------------------------------------------------- R5
    r5 = R.rule('R5', 'decision list', 'application state priority STOPPING > STARTING (incl. BACKOFF) > RUNNING > STOPPED '
                'over the DISPLAYED state of every process', 7)
    us = P.unit('ApplicationStatus.update_state')
    fmu = factmap(us)
    flags = {}
    for a in own_nodes(us.node):
        if isinstance(a, ast.Assign) and isinstance(a.targets[0], ast.Name) and ast.unparse(a.value) == 'True':
            flags[a.targets[0].id] = [tuple(f) for f in fmu.at(a) if f[1]]
    want = {'running': [('process.displayed_state == ProcessStates.RUNNING', True)],
            'starting': [('process.displayed_state in [ProcessStates.STARTING, ProcessStates.BACKOFF]', True)],
            'stopping': [('process.displayed_state == ProcessStates.STOPPING', True)]}
    want_stopping_early = list(want['stopping'])
    loops = [l for l in us.node.body if isinstance(l, ast.For)]
    # the top priority may be decided inside the loop: `if <displayed STOPPING>: return STOPPING` needs no flag
    early = [n for v, facts, n in returns(us) if v is not None and ast.unparse(v).split('.')[-1] == 'STOPPING'
             and len(loops) == 1 and any(x is n for x in ast.walk(loops[0]))
             and [tuple(f) for f in facts] == want['stopping']]
    if early and 'stopping' not in flags:
        del want['stopping']
    for k, w in want.items():
        R.check(r5, flags.get(k) == w, 'flag %s <=> some process displayed %s' % (k, w[0][0].split('ProcessStates.', 1)[1]),
                'priority|flag|%s' % k, us.loc(), 'update_state sets `%s` under %s (expected %s on the displayed state)' %
                (k, flags.get(k), w))
    R.check(r5, len(loops) == 1 and ast.unparse(loops[0].iter) == 'self.processes.values()',
            'every process of the application is considered', 'priority|scope', us.loc(),
            'update_state does not iterate self.processes.values()')
    rs = [(ast.unparse(v).split('.')[-1], sorted(tuple(f) for f in facts)) for v, facts, n in returns(us) if v is not None]
    wantr = [('STOPPING', [('stopping', True)]), ('STARTING', [('starting', True), ('stopping', False)]),
             ('RUNNING', [('running', True), ('starting', False), ('stopping', False)]),
             ('STOPPED', [('running', False), ('starting', False), ('stopping', False)])]
    if 'stopping' not in want:
        wantr = [('STOPPING', want_stopping_early)] + [(k, [f for f in w if f[0] != 'stopping']) for k, w in wantr[1:]]
    for k, w in wantr:
        got = [f for kk, f in rs if kk == k]
        R.check(r5, got == [w], '%s is reported under %s' % (k, w), 'priority|return|%s' % k, us.loc(),
                'update_state returns %s under %s (expected %s)' % (k, got, w))
    upd_calls = [a for a in own_nodes(upd.node) if isinstance(a, ast.Assign) and ast.unparse(a.targets[0]) == 'self.state']
    R.check(r5, len(upd_calls) == 1 and ast.unparse(upd_calls[0].value) == 'self.update_state()',
            'update() applies update_state()', 'priority|apply', upd.loc(), 'update() does not assign update_state()')

    # ---------------------------------------------------------------- R6
    r6 = R.rule('R6', 'failure classification facts', 'without a formula: a process FATAL, UNKNOWN or unexpectedly EXITED '
                'is a major failure if required, a minor one if optional and in the start sequence; a required STOPPED '
                'process is a major failure exactly when the application is not STOPPED; a major failure clears the '
                'minor one; with a formula the major failure is the negation of its result', 7)
    ur = P.unit('ApplicationStatus.update_status_required')
    fmr = factmap(ur)
    crash = ('process.displayed_state in [ProcessStates.FATAL, ProcessStates.UNKNOWN] or (process.displayed_state == '
             'ProcessStates.EXITED and (not process.expected_exit))', True)
    mj_all = [a for a in own_nodes(ur.node) if isinstance(a, ast.Assign) and ast.unparse(a.targets[0]) == 'self.major_failure']
    # (the confirmation of a possible major failure may be written `if possible and state != STOPPED: major = True`)
    CONFIRM = {('possible_major_failure', True), ('self.state == ApplicationStates.STOPPED', False)}
    confirm_assign = [a for a in mj_all if {tuple(f) for f in fmr.at(a)} == CONFIRM and ast.unparse(a.value) == 'True']
    mj = [a for a in mj_all if a not in confirm_assign]
    ok = len(mj) == 1 and {tuple(f) for f in fmr.at(mj[0])} == {crash, ('process.rules.required', True)}
    R.check(r6, ok, 'a crashed required process is a major failure', 'status|major', ur.loc(),
            'update_status_required sets major_failure under %s' % [sorted(tuple(f) for f in fmr.at(a)) for a in mj])
    mn = [a for a in own_nodes(ur.node) if isinstance(a, ast.Assign) and ast.unparse(a.targets[0]) == 'self.minor_failure'
          and ast.unparse(a.value) == 'True']
    ok = len(mn) == 1 and {tuple(f) for f in fmr.at(mn[0])} == {crash, ('process.rules.required', False),
                                                                 ('process.process_name in sequenced_processes', True)}
    R.check(r6, ok, 'a crashed optional, sequenced process is a minor failure', 'status|minor', ur.loc(),
            'update_status_required sets minor_failure under %s' % [sorted(tuple(f) for f in fmr.at(a)) for a in mn])
    pm = [a for a in own_nodes(ur.node) if isinstance(a, ast.Assign) and ast.unparse(a.targets[0]) == 'possible_major_failure'
          and ast.unparse(a.value) == 'True']
    crash_neg = {('process.displayed_state in [ProcessStates.FATAL, ProcessStates.UNKNOWN]', False),
                 ('not process.displayed_state == ProcessStates.EXITED or process.expected_exit', True)}
    # (the facts implied by `displayed_state == STOPPED` - not FATAL/UNKNOWN, not an unexpected EXITED - may be absent)
    got = {tuple(f) for f in fmr.at(pm[0])} if len(pm) == 1 else set()
    need = {('process.displayed_state == ProcessStates.STOPPED', True), ('process.rules.required', True)}
    ok = len(pm) == 1 and need <= got <= need | crash_neg
    R.check(r6, ok, 'a required STOPPED process is a possible major failure', 'status|possible', ur.loc(),
            'possible_major_failure is set under %s' % [sorted(tuple(f) for f in fmr.at(a)) for a in pm])
    cf = [a for a in own_nodes(ur.node) if isinstance(a, ast.AugAssign) and ast.unparse(a.target) == 'self.major_failure']
    ok = len(cf) == 1 and not confirm_assign and isinstance(cf[0].op, ast.BitOr) and \
        ast.unparse(cf[0].value) == 'possible_major_failure' and \
        {tuple(f) for f in fmr.at(cf[0])} == {('self.state == ApplicationStates.STOPPED', False),
                                               ('self.state == ApplicationStates.STOPPED', False)}
    ok = ok or (not cf and len(confirm_assign) == 1)
    R.check(r6, ok, 'confirmed exactly when the application is not STOPPED', 'status|confirm', ur.loc(),
            'the possible major failure is confirmed under %s (expected `self.state != STOPPED`)' %
            [sorted(tuple(f) for f in fmr.at(a)) for a in cf])
    rst = [a for a in own_nodes(ur.node) if isinstance(a, ast.Assign) and ast.unparse(a.targets[0]) == 'self.minor_failure'
           and ast.unparse(a.value) == 'False']
    ok = len(rst) == 1 and {tuple(f) for f in fmr.at(rst[0])} == {('self.major_failure', True)}
    R.check(r6, ok, 'a major failure clears the minor one', 'status|exclusive', ur.loc(),
            'minor_failure is cleared under %s' % [sorted(tuple(f) for f in fmr.at(a)) for a in rst])
    fmf = factmap(uf)
    neg = [a for a in own_nodes(uf.node) if isinstance(a, ast.Assign) and ast.unparse(a.targets[0]) == 'self.major_failure'
           and ast.unparse(a.value) == 'not result']
    R.check(r6, len(neg) == 1, 'with a formula the major failure is the negation of its result', 'status|formula',
            uf.loc(), 'update_status_formula does not set major_failure = not result')
    fmu2 = factmap(upd)
    f1 = [c for c in own_nodes(upd.node) if isinstance(c, ast.Call) and call_text(c) == 'self.update_status_formula']
    f2 = [c for c in own_nodes(upd.node) if isinstance(c, ast.Call) and call_text(c) == 'self.update_status_required']
    ok = len(f1) == 1 and len(f2) == 1 and fmu2.has(f1[0], 'self.rules.status_tree', True) and \
        fmu2.has(f2[0], 'self.rules.status_tree', False)
    R.check(r6, ok, 'the formula, when present, replaces the required-based status', 'status|choice', upd.loc(),
            'update() does not choose between formula and required-based status on rules.status_tree')
    # order inside ApplicationStatus.update: the application state is refreshed and the failures are reset BEFORE the
    # operational status is evaluated (update_status_required reads self.state to confirm a possible major failure)
    up = P.unit('ApplicationStatus.update')
    pos = {}
    for n in own_nodes(up.node):
        if isinstance(n, ast.Assign) and any(ast.unparse(t) == 'self.state' for t in n.targets):
            pos.setdefault('state', (n.lineno, n.col_offset))
        elif isinstance(n, ast.Assign) and 'self.major_failure' in ast.unparse(n.targets[0]):
            pos.setdefault('reset', (n.lineno, n.col_offset))
        elif isinstance(n, ast.Call) and call_text(n) in ('self.update_status_formula', 'self.update_status_required'):
            pos['eval'] = min(pos.get('eval', (10 ** 9, 0)), (n.lineno, n.col_offset))
    ok = {'state', 'reset', 'eval'} <= set(pos) and pos['state'] < pos['eval'] and pos['reset'] < pos['eval']
    R.check(r6, ok, 'the state is refreshed and the failures reset before the status is evaluated', 'status|order',
            up.loc(), 'ApplicationStatus.update evaluates the operational status before refreshing self.state / resetting '
            'the failures (%s): the required-STOPPED major failure is decided on the previous application state' % pos)
    # a string leaf of the formula is first looked up as the exact name of a process; patterns only apply otherwise
    ev_ = P.unit('ApplicationStatus.evaluate')
    fme = factmap(ev_)
    gm = [c for c in own_nodes(ev_.node) if isinstance(c, ast.Call) and call_text(c) == 'self._get_matches']
    ok = len(gm) == 1 and any(not pol and t.endswith(' in self.processes') for t, pol in fme.closed(gm[0]))
    R.check(r3, ok, 'an exact process name is resolved before any pattern matching', 'leaf|exact-first', ev_.loc(),
            'ApplicationStatus.evaluate resolves a string leaf with _get_matches() without first testing `leaf in '
            'self.processes`: a process name that is not a self-matching regular expression (c++_server) gives a false '
            'failure')
    R.assume('Agreement on every state vector beyond the decision structure of R5/R6 is NOT decided.')
    R.assume('ASDL signatures are those of the interpreter running the check (%s node classes); deprecated '
             'never-produced classes are outside the universe.' % len(FIELDS))
