"""C19 - Start predictions are side-effect free and match a real start (effect / ownership / sibling rules)."""
import ast
from ..model import own_nodes, AnalysisError
from ..paths import factmap, call_text
from ..callgraph import CallGraph

from . import shared
MODEL_CLASSES = ('ProcessStartCommandModel', 'ApplicationStartJobsModel', 'StarterModel')
SINK_CLASSES = {'RpcHandler', 'SupervisorProxyServer', 'SupervisorProxy', 'SupervisorProxyThread', 'MulticastSender',
                'EventPublisherInterface', 'SupervisorData', 'SupervisorUpdater'}
RESYNTH = {'update_status', 'update_info', 'add_info', 'invalidate_identifier', 'remove_identifier', 'reset_forced_state',
           'update_times', 'update_disability', 'update_uptime'}
SINK_UNITS = {'SupervisorListener.force_process_state', 'SupvisorsStateModes.publish_status',
              'SupvisorsStateModes.export_status', 'Context.export_status', 'Context.publish_process_failures'}
LIVE_COMMANDERS = {'Starter', 'Stopper', 'RunningFailureHandler'}
LIVE_CLASSES = {'ApplicationStatus', 'ApplicationRules', 'Context', 'SupvisorsInstanceStatus', 'SupvisorsStateModes',
                'StateModes', 'SupvisorsMapper', 'ProcessRules', 'HomogeneousGroup', 'SupvisorsTimes',
                'SupervisorData', 'SupervisorUpdater'}
# one named exception: rules resolution ('#'/'@' assignment) is part of planning a start, idempotent, not a status
IDEMPOTENT_ROOTS = {'ApplicationStatus.resolve_rules'}
# what the model family may override (effect methods) or add (entry points / model plumbing)
EFFECT_OVERRIDES = {'start', 'fail_command', 'publish_state_modes', 'after', '__init__', 'next'}
MODEL_ADDITIONS = {'test_start_application', 'test_start_processes', 'feed_model'}
DECISION_METHODS = {'process_job', 'get_load_requests', 'before', 'store_application', 'start_application',
                    'start_process', 'process_failure', 'distribute_to_single_node', 'distribute_to_single_instance',
                    'on_command_added', 'add_commands', 'on_event', 'timed_out', 'update_identifier', 'check',
                    'in_progress', 'get_process_identifiers', 'on_instances_invalidation', 'get_application_job'}


def copy_depth(e, src_txt):
    """how many levels of `src_txt` are copied by expression e: 0 = alias, 1 = shallow copy, 2 = elements copied too,
    99 = deep copy / fresh object; None if e does not derive from src_txt."""
    txt = ast.unparse(e)
    if txt == src_txt:
        return 0
    if isinstance(e, ast.Call):
        f = call_text(e)
        if f in ('copy.deepcopy', 'deepcopy') and e.args:
            d = copy_depth(e.args[0], src_txt)
            return 99 if d is not None else None
        if f in ('dict', 'list', 'set', 'copy.copy') and e.args:
            d = copy_depth(e.args[0], src_txt)
            return None if d is None else max(d, 1) if d == 0 else d
        if isinstance(e.func, ast.Attribute) and e.func.attr == 'copy' and not e.args:
            d = copy_depth(e.func.value, src_txt)
            return None if d is None else (1 if d == 0 else d)
    if isinstance(e, (ast.DictComp, ast.ListComp, ast.SetComp)):
        it = e.generators[0].iter
        base = it.func.value if isinstance(it, ast.Call) and isinstance(it.func, ast.Attribute) and \
            it.func.attr in ('items', 'values') else it
        if ast.unparse(base) != src_txt:
            return None
        val = e.value if isinstance(e, ast.DictComp) else e.elt
        tgt_names = {x.id for x in ast.walk(e.generators[0].target) if isinstance(x, ast.Name)}
        # element copied?
        if isinstance(val, ast.Call) and ((isinstance(val.func, ast.Attribute) and val.func.attr == 'copy' and
                                           isinstance(val.func.value, ast.Name) and val.func.value.id in tgt_names)
                                          or (call_text(val) in ('dict', 'list') and val.args and
                                              isinstance(val.args[0], ast.Name) and val.args[0].id in tgt_names)):
            return 2
        if isinstance(val, ast.Call) and call_text(val) in ('copy.deepcopy', 'deepcopy'):
            return 99
        return 1
    return None


def run(P, R):
    G = CallGraph(P)
    for c in MODEL_CLASSES:
        P.cls(c)
    SM = P.cls('StarterModel')

    # ---------------------------------------------------------------- R0
    r0 = R.rule('R0', 'family binding', 'StarterModel binds command_class/job_class to the model classes, which derive '
                'from the real ones, and no method in the MRO of Starter builds jobs or commands other than through '
                'self.command_class / self.job_class (so the family substitution of the call graph is justified)', 4)
    for attr, want, base in (('command_class', 'ProcessStartCommandModel', 'ProcessStartCommand'),
                             ('job_class', 'ApplicationStartJobsModel', 'ApplicationStartJobs')):
        t = P.attr_type(SM, attr)
        ok = bool(t) and t[0] == 'cls' and t[1].name == want and P.cls(base) in P.mro(t[1])
        R.check(r0, ok, 'StarterModel.%s is %s (subclass of %s)' % (attr, want, base), 'binding|%s' % attr,
                SM.mod.relpath + ':%d' % SM.node.lineno, 'StarterModel.%s is bound to %s' % (attr, t))
    for k in P.mro(P.cls('Starter')):
        for u in k.methods.values():
            for n in own_nodes(u.node):
                if isinstance(n, ast.Call) and isinstance(n.func, ast.Name):
                    r = P.lookup(k.mod, n.func.id)
                    if r and r[0] == 'class' and any(b.name in ('ApplicationJobs', 'ProcessCommand')
                                                     for b in P.mro(r[1])):
                        R.fail(r0, 'direct-construct|%s|%s' % (u.qual, r[1].name), u.loc(n),
                               '%s constructs %s directly: the model would run the real class' % (u.qual, r[1].name))
    R.ok(r0, 'no direct construction of jobs/commands in the MRO of Starter', '')
    R.ok(r0, 'family of StarterModel = %s' % sorted(c.name for c in P.family.get(SM, ())), '')

    # ---------------------------------------------------------------- R1
    r1 = R.rule('R1', 'effect reachability (call graph, model context)',
                'from StarterModel.test_start_application / test_start_processes no call resolves into the '
                'communication layer (RpcHandler, proxy server, multicast, external publisher), '
                'SupervisorListener.force_process_state, the publishing methods of SupvisorsStateModes / Context, nor '
                'any method of the LIVE starter, stopper or failure handler', 2)
    entries = [(SM, P.resolved(SM, n)) for n in ('test_start_application', 'test_start_processes')]

    def sink(n):
        ctx, u = n
        if u.cls is not None and u.cls.name in SINK_CLASSES:
            return 'communication layer'
        if u.cls is not None and any(k.name in SINK_CLASSES for k in P.mro(u.cls)):
            return 'communication layer'
        if u.qual in SINK_UNITS:
            return 'publication'
        if u.kind == 'setter' and u.cls is not None and u.cls.name == 'SupvisorsStateModes':
            return 'publishing setter of the state & modes'
        if ctx is not None and ctx.name in LIVE_COMMANDERS:
            return 'live %s' % ctx.name
        return None
    seen = G.reach(entries, stop=lambda n: sink(n) is not None)
    R.require(len(seen) >= 60, 'only %d nodes reached from the model entry points' % len(seen))
    hits = [n for n in seen if sink(n)]
    for e in entries:
        mine = G.reach([e], stop=lambda n: sink(n) is not None)
        bad = [n for n in mine if sink(n)]
        if not bad:
            R.ok(r1, '%s reaches no effect sink (%d nodes explored)' % (e[1].qual, len(mine)), e[1].loc())
        for n in bad:
            parent = mine[n]
            caller = parent[0][1].qual if parent else '?'
            R.fail(r1, 'effect|%s|%s' % (n[1].qual, caller), parent[0][1].loc(parent[1].node) if parent else n[1].loc(),
                   'a prediction can reach %s (%s): %s' % (n[1].qual, sink(n), G.path_text(mine, n)),
                   '%s reaches no effect sink' % e[1].qual)
    # a dynamic attribute store on the live state & modes / context (setattr(obj, name, value)) is a publication too
    for n in seen:
        ctx, u = n
        if sink(n):
            continue
        env = None
        for c in own_nodes(u.node):
            if isinstance(c, ast.Call) and isinstance(c.func, ast.Name) and c.func.id == 'setattr' and c.args:
                env = env or P.env(u, ctx)
                t = env.typeof(c.args[0])
                if t and t[0] == 'inst' and t[1].name in ('SupvisorsStateModes', 'Context', 'SupervisorListener'):
                    R.fail(r1, 'effect|setattr|%s' % u.qual, u.loc(c), 'a prediction can reach %s, which stores an '
                           'attribute of the live %s with setattr(): %s' % (u.qual, t[1].name, G.path_text(seen, n)),
                           'no dynamic store on the live state & modes')
    unres = sorted({'%s:%d %s' % (n[1].qual, l, t) for n in seen for l, t in G.unres.get(n, [])})
    R.stats['callgraph'] = {'nodes_reached': len(seen), 'unresolved_in_reached': len(unres)}
    R.extra['unresolved_calls_sample'] = unres[:40]
    for n in seen:
        for l, t in G.unres.get(n, []):
            if t.split('.')[-1].startswith(('send_', 'push_', 'force_process_state', 'publish')):
                raise AnalysisError('UNRESOLVED-SINK: %s:%d calls %s on an unresolved receiver' % (n[1].qual, l, t))

    # ---------------------------------------------------------------- R2
    r2 = R.rule('R2', 'ownership depth', 'objects allocated by the model own what they allocate: a field of the mock '
                'ProcessStatus copied from the live one with .copy()/dict()/list() is owned to depth 1, with a '
                'comprehension copying the elements to depth 2; every store of the model classes through such a field '
                'stays within the owned depth; no mutator of a live class (application, context, instance status, state '
                '& modes, mapper, rules) is reachable from a prediction except rules resolution', 2)
    alloc = P.unit('ProcessStartCommandModel.__init__')
    live_param = alloc.node.args.args[1].arg
    mock_names = [a.targets[0].id for a in own_nodes(alloc.node) if isinstance(a, ast.Assign)
                  and isinstance(a.targets[0], ast.Name) and isinstance(a.value, ast.Call)
                  and call_text(a.value) == 'ProcessStatus']
    R.require(len(mock_names) == 1, 'ProcessStartCommandModel.__init__: allocation of the mock ProcessStatus not found')
    mock = mock_names[0]
    depth = {}
    for a in own_nodes(alloc.node):
        if isinstance(a, ast.Assign) and isinstance(a.targets[0], ast.Attribute) and \
                ast.unparse(a.targets[0].value) == mock:
            fld = a.targets[0].attr
            src = '%s.%s' % (live_param, fld)
            d = copy_depth(a.value, src)
            if d is None:
                d = 99 if not any(isinstance(x, ast.Name) and x.id == live_param for x in ast.walk(a.value)) else 0
            depth[fld] = d
            R.note(r2, 'mock.%s = %s -> owned depth %s' % (fld, ast.unparse(a.value), d))
    R.require('info_map' in depth, 'ProcessStartCommandModel.__init__ no longer assigns info_map')
    PS = P.cls('ProcessStatus')
    n_stores = 0
    for cname in MODEL_CLASSES:
        for u in P.cls(cname).methods.values():
            env = P.env(u, u.cls)
            for n in own_nodes(u.node):
                tgt = None
                if isinstance(n, (ast.Assign, ast.AugAssign)):
                    tgt = n.targets[0] if isinstance(n, ast.Assign) else n.target
                elif isinstance(n, ast.Call) and isinstance(n.func, ast.Attribute) and \
                        n.func.attr in ('update', 'append', 'add', 'pop', 'clear', 'remove', 'discard', 'setdefault'):
                    tgt = ast.Subscript(value=n.func.value, slice=ast.Constant(value=0), ctx=ast.Store())
                    ast.copy_location(tgt, n)
                if tgt is None or not isinstance(tgt, (ast.Subscript, ast.Attribute)):
                    continue
                # walk down to the ProcessStatus-typed base: base.field[..][..]
                subs, cur = 0, tgt
                while isinstance(cur, ast.Subscript):
                    subs += 1
                    cur = cur.value
                if not isinstance(cur, ast.Attribute):
                    continue
                t = env.typeof(cur.value)
                if u is alloc and isinstance(cur.value, ast.Name) and cur.value.id == mock:
                    continue
                if t and t[0] == 'inst' and t[1] is PS:
                    fld = cur.attr
                    if subs == 0:
                        continue            # attribute of the (mock) object itself
                    n_stores += 1
                    owned = depth.get(fld, 99)
                    R.check(r2, subs <= owned, '%s: store at depth %d through process.%s (owned depth %s)' %
                            (u.qual, subs, fld, owned), 'shared-store|%s|%s' % (u.qual, fld), u.loc(n),
                            '%s stores at depth %d through `%s` but ProcessStartCommandModel.__init__ copies %s only to '
                            'depth %s: the write lands in the payload shared with the live ProcessStatus' %
                            (u.qual, subs, ast.unparse(tgt)[:80], fld, owned))
                elif t and t[0] == 'inst' and t[1].name in LIVE_CLASSES:
                    R.fail(r2, 'live-store|%s|%s' % (u.qual, t[1].name), u.loc(n),
                           '%s writes through a live %s object (%s)' % (u.qual, t[1].name, ast.unparse(tgt)[:80]))
    R.require(n_stores >= 1, 'no store through a ProcessStatus field found in the model classes (feed_model changed?)')
    # the mock is a FAITHFUL copy: every per-instance payload, the state, the same rules object
    ia = [a for a in own_nodes(alloc.node) if isinstance(a, ast.Assign) and ast.unparse(a.targets[0]) == mock + '.info_map']
    ok = len(ia) == 1 and (
        (isinstance(ia[0].value, ast.DictComp) and not any(g.ifs for g in ia[0].value.generators) and
         ast.unparse(ia[0].value.generators[0].iter) == '%s.info_map.items()' % live_param and
         ast.unparse(ia[0].value.key) == ast.unparse(ia[0].value.generators[0].target.elts[0]))
        or ast.unparse(ia[0].value) in ('copy.deepcopy(%s.info_map)' % live_param, '%s.info_map.copy()' % live_param))
    R.check(r2, ok, 'the mock holds a copy of EVERY per-instance payload of the live process', 'faithful|info_map',
            alloc.loc(), 'ProcessStartCommandModel.__init__ does not copy all entries of info_map (filtered or re-keyed '
            'copy): the prediction decides on other inputs than the real start')
    mk = [c for c in own_nodes(alloc.node) if isinstance(c, ast.Call) and call_text(c) == 'ProcessStatus']
    ok = len(mk) == 1 and [ast.unparse(a) for a in mk[0].args] == ['%s.application_name' % live_param,
                                                                   '%s.process_name' % live_param,
                                                                   '%s.rules' % live_param, '%s.supvisors' % live_param]
    R.check(r2, ok, 'the mock shares name and rules with the live process', 'faithful|constructor', alloc.loc(),
            'ProcessStartCommandModel.__init__ builds the mock with %s' % [ast.unparse(a) for c in mk for a in c.args])
    sc = [a for a in own_nodes(alloc.node) if isinstance(a, ast.Assign) and ast.unparse(a.targets[0]) == mock + '._state']
    R.check(r2, len(sc) == 1 and ast.unparse(sc[0].value) == '%s._state' % live_param, 'the mock starts from the live state',
            'faithful|state', alloc.loc(), 'ProcessStartCommandModel.__init__ does not copy _state')
    # inherited Starter code running in the model context must not write through the LIVE objects it is given
    for (ctx, u) in seen:
        if ctx is not SM or u.cls is None or u.cls.name in MODEL_CLASSES or u.cls not in P.mro(P.cls('Starter')):
            continue
        env = P.env(u, ctx)
        params = {a.arg for a in u.node.args.args[1:]}
        for n in own_nodes(u.node):
            if isinstance(n, ast.Attribute) and isinstance(n.ctx, ast.Store) and isinstance(n.value, ast.Name) \
                    and n.value.id in params:
                t = env.typeof(n.value)
                if t and t[0] == 'inst' and t[1].name in ('ProcessStatus', 'ApplicationStatus'):
                    R.fail(r2, 'live-param-store|%s|%s' % (u.qual, n.attr), u.loc(n),
                           '%s (run by a prediction) assigns `%s.%s`: `%s` is the LIVE %s handed to the entry point, '
                           'not a mock' % (u.qual, n.value.id, n.attr, n.value.id, t[1].name))
    for cname in MODEL_CLASSES:
        for u in P.cls(cname).methods.values():
            for c in own_nodes(u.node):
                if isinstance(c, ast.Call) and isinstance(c.func, ast.Attribute) and c.func.attr in RESYNTH:
                    t = P.env(u, u.cls).typeof(c.func.value)
                    if t and t[0] == 'inst' and t[1] is PS:
                        R.fail(r2, 'resynth|%s|%s' % (u.qual, c.func.attr), u.loc(c),
                               '%s calls ProcessStatus.%s on a mock: the status synthesis rewrites running_identifiers, '
                               'which the model uses as the record of the predicted placement' % (u.qual, c.func.attr))
    # mutators of live classes reachable from a prediction
    allowed = set()
    for q in IDEMPOTENT_ROOTS:
        u = P.unit(q)
        sub = G.reach([(u.cls, u)])
        allowed |= set(sub)
    n_live = 0
    for n in seen:
        ctx, u = n
        if u.cls is None or u.cls.name not in LIVE_CLASSES or u.name == '__init__':
            continue
        n_live += 1
        writes = [x for x in own_nodes(u.node) if isinstance(x, ast.Attribute) and isinstance(x.ctx, ast.Store)
                  and isinstance(x.value, ast.Name) and x.value.id == 'self']
        if writes and n not in allowed and u.kind != 'setter':
            R.fail(r2, 'live-mutator|%s' % u.qual, u.loc(writes[0]), 'a prediction reaches %s, which writes self.%s of a '
                   'live %s: %s' % (u.qual, writes[0].attr, u.cls.name, G.path_text(seen, n)))
    R.ok(r2, '%d methods of live classes reached, none mutating outside rules resolution' % n_live, '')

    # ---------------------------------------------------------------- R3
    r3 = R.rule('R3', 'sibling agreement', 'the model classes override only effect methods (start, fail_command, '
                'publish_state_modes, after, __init__, next as a wrapper calling super().next()) and add only the entry '
                'points and feed_model; every placement / sequencing decision method is inherited from the real class',
                3)
    for cname in MODEL_CLASSES:
        c = P.cls(cname)
        for m in sorted(c.methods):
            inherited = any(m in k.methods for k in P.mro(c)[1:])
            if inherited:
                ok = m in EFFECT_OVERRIDES and m not in DECISION_METHODS
                R.check(r3, ok, '%s.%s overrides an effect method' % (cname, m), 'override|%s|%s' % (cname, m),
                        c.methods[m].loc(), '%s overrides the decision method %s: the prediction no longer takes the '
                        'decisions of the real start' % (cname, m))
            else:
                R.check(r3, m in MODEL_ADDITIONS, '%s.%s is model plumbing' % (cname, m),
                        'addition|%s|%s' % (cname, m), c.methods[m].loc(),
                        '%s adds method %s (not an entry point / feed_model)' % (cname, m))
        for a in sorted(c.cattrs):
            if a in ('pickup_logic', 'failure_state'):
                R.fail(r3, 'override-attr|%s|%s' % (cname, a), c.mod.relpath + ':%d' % c.node.lineno,
                       '%s rebinds %s: sequencing differs from the real start' % (cname, a))
    shared.polymorphic_factories(P, R, r3)
    shared.command_added_hook(P, R, r3)
    nx = P.unit('StarterModel.next')
    sup = [c for c in own_nodes(nx.node) if isinstance(c, ast.Call) and call_text(c) == 'super().next']
    ok = len(sup) == 1 and not factmap(nx).at(sup[0])
    R.check(r3, ok, 'StarterModel.next always delegates to Starter.next', 'override|next-wrapper', nx.loc(),
            'StarterModel.next does not unconditionally call super().next()')
    st = P.unit('ProcessStartCommandModel.start')
    ok = any(isinstance(c, ast.Call) and call_text(c) == 'self.update_sequence_counter' for c in own_nodes(st.node)) and \
        any(isinstance(c, ast.Call) and call_text(c) == 'self.process.running_identifiers.add' for c in own_nodes(st.node))
    R.check(r3, ok, 'the model start records the placement on the mock process', 'override|start', st.loc(),
            'ProcessStartCommandModel.start does not record the chosen identifier in the mock running_identifiers')
    R.assume('Equality of the predicted and the real placement as values is NOT decided; R3 decides that the same '
             'decision code runs.')
    R.assume('ProcessStatus objects handled by the model classes are the mocks allocated by '
             'ProcessStartCommandModel.__init__ (the only constructor of commands in the family, R0).')
