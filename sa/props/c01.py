"""C01 - Connected instances converge on one running Master (necessary structural conditions, not convergence)."""
import ast
from ..model import own_nodes, AnalysisError
from ..defuse import comp_view, cond_atoms, defuse, closed_text
from ..paths import assigned_values, ctext, factmap, must_call, call_text, returns
from ..callgraph import CallGraph
from ..fsm import Fsm, WORKING, ENDING

IS_MASTER = 'self.state_modes.is_master()'

AUTO_SINKS = {
    'Starter.start_applications': 'automatic start of the applications',
    'Stopper.stop_applications': 'automatic stop of all applications',
    'strategy:conciliate_conflicts': 'automatic conciliation',
    'RunningFailureHandler.add_default_job': 'running failure repair',
    'RunningFailureHandler.add_job': 'running failure repair',
    'FiniteStateMachine.on_restart': 'automatic Supvisors restart (running failure strategy)',
    'FiniteStateMachine.on_shutdown': 'automatic Supvisors shutdown (running failure strategy)',
}

from . import shared


def listener_entries(P):
    L = P.cls('SupervisorListener')
    sub = P.unit('SupervisorListener._subscribe')
    names = []
    for n in own_nodes(sub.node):
        if isinstance(n, ast.Call) and call_text(n) == 'events.subscribe' and len(n.args) == 2 \
                and isinstance(n.args[1], ast.Attribute):
            names.append(n.args[1].attr)
    if len(names) < 8:
        raise AnalysisError('SupervisorListener._subscribe: only %d events.subscribe calls found' % len(names))
    out = []
    for nm in sorted(set(names)):
        if nm not in L.methods:
            raise AnalysisError('subscribed callback %s is not a method of SupervisorListener' % nm)
        out.append((L, L.methods[nm]))
    return out, names


def rule_master(P, R, r3):
    """who writes the recognised Master, when it is reset, how select_master chooses (shared with C02: a Master-driven
    state is only entered behind a Master seen RUNNING)."""
    SSM = P.cls('SupvisorsStateModes')
    ALLOWED = {'SupvisorsStateModes.select_master', 'SupvisorsStateModes.accept_master',
               'SupvisorsStateModes.update_instance_state', 'FiniteStateMachine.on_end_sync'}
    found = set()
    for u in P.all_units():
        env = None
        for n in own_nodes(u.node):
            if isinstance(n, ast.Attribute) and isinstance(n.ctx, ast.Store) and n.attr == 'master_identifier':
                env = env or P.env(u, u.cls)
                t = env.typeof(n.value)
                rtxt = ast.unparse(n.value)
                if (t and t[0] == 'inst' and t[1] is SSM) or (t is None and rtxt.split('.')[-1] == 'state_modes'):
                    found.add(u.qual)
                    R.check(r3, u.qual in ALLOWED, '%s writes the recognised Master' % u.qual,
                            'master-writer|%s' % u.qual, u.loc(n), '%s assigns SupvisorsStateModes.master_identifier; '
                            'only %s may' % (u.qual, sorted(ALLOWED)))
    R.require(len(found & ALLOWED) >= 4, 'writers of master_identifier found: %s' % sorted(found))
    u = P.unit('SupvisorsStateModes.update_instance_state')
    fm = factmap(u)
    resets = [n for n in own_nodes(u.node) if isinstance(n, ast.Assign) and
              ast.unparse(n.targets[0]) == 'self.master_identifier' and isinstance(n.value, ast.Constant)
              and n.value.value == '']
    ok = len(resets) == 1 and {tuple(f) for f in fm.at(resets[0])} == {
        ('new_state == SupvisorsInstanceStates.RUNNING', False), ('new_state == SupvisorsInstanceStates.RUNNING', False),
        ('identifier == self.master_identifier', True)}
    R.check(r3, ok, 'the Master is forgotten exactly when it leaves RUNNING', 'master-reset|update_instance_state',
            u.loc(resets[0] if resets else None), 'update_instance_state resets the Master under %s' %
            [sorted(tuple(f) for f in fm.at(r)) for r in resets])
    setter = P.unit('SupvisorsInstanceStatus.state[set]')
    ex = []
    calls = [c for c in own_nodes(setter.node) if isinstance(c, ast.Call)
             and call_text(c) == 'self.supvisors.state_modes.update_instance_state']
    ok = len(calls) == 1 and [ast.unparse(a) for a in calls[0].args] == ['self.identifier', 'new_state'] and \
        {tuple(f) for f in factmap(setter).at(calls[0])} <= {('new_state == self._state', False),
                                                             ('new_state == self._state', False),
                                                             ('self.check_transition(new_state)', True)}
    R.check(r3, ok, 'every instance state change is forwarded to update_instance_state', 'master-reset|state-setter',
            setter.loc(), 'the instance state setter does not forward every accepted change to update_instance_state')
    sm = P.unit('SupvisorsStateModes.select_master')
    asg = [n for n in own_nodes(sm.node) if isinstance(n, ast.Assign) and
           ast.unparse(n.targets[0]) == 'self.master_identifier']
    R.require(len(asg) == 1, 'select_master: expected one assignment of master_identifier')
    v = asg[0].value
    ok = isinstance(v, ast.Call) and call_text(v) == 'min' and len(v.args) == 1 and any(
        k.arg == 'key' and isinstance(k.value, ast.Lambda) and ast.unparse(k.value.body).endswith('.nick_identifier')
        for k in v.keywords)
    R.check(r3, ok, 'select_master picks the lowest nick identifier among the candidates', 'select|min-nick',
            sm.loc(asg[0]), 'select_master assigns %s instead of min(candidates, key=nick identifier)' % ast.unparse(v))
    cand = v.args[0].id if ok and isinstance(v.args[0], ast.Name) else None
    defs = {n.targets[0].id: n.value for n in own_nodes(sm.node) if isinstance(n, ast.Assign) and
            isinstance(n.targets[0], ast.Name)}
    cv = defs.get(cand)
    ok2 = isinstance(cv, ast.BoolOp) and isinstance(cv.op, ast.Or) and len(cv.values) == 2 and \
        all(isinstance(x, ast.Name) for x in cv.values)
    core_ok = all_ok = False
    if ok2:
        core, allc = defs.get(cv.values[0].id), cv.values[1].id
        core_ok = isinstance(core, ast.ListComp) and ast.unparse(core.generators[0].iter) == 'self.mapper.core_identifiers' \
            and [ast.unparse(i) for i in core.generators[0].ifs] == ['%s in %s' % (core.generators[0].target.id, allc)]
        # all candidates: declared masters first, running instances only when there is none
        stmts = [ast.unparse(s) for s in sm.node.body if not isinstance(s, ast.Expr)]
        a = '%s = self.get_master_identifiers()' % allc
        b = "if '' in %s:\n    %s.remove('')" % (allc, allc)       # canonical spelling of allc.discard('')
        fall = [n for n in own_nodes(sm.node) if isinstance(n, ast.Assign) and isinstance(n.targets[0], ast.Name)
                and n.targets[0].id == allc and 'running_identifiers()' in ast.unparse(n.value)]
        all_ok = a in stmts and any(ast.unparse(s) == b for s in sm.node.body) and len(fall) == 1 and \
            {tuple(f) for f in factmap(sm).at(fall[0])} == {(allc, False)}
        # (declared Masters restricted to those the local instance sees RUNNING: stricter, '' cannot be among them)
        from ..defuse import closed_text
        RUN = 'self.local_state_modes.running_identifiers()'
        first = [n for n in sm.node.body if isinstance(n, ast.Assign) and isinstance(n.targets[0], ast.Name)
                 and n.targets[0].id == allc]
        fall2 = [n for n in own_nodes(sm.node) if isinstance(n, ast.Assign) and isinstance(n.targets[0], ast.Name)
                 and n.targets[0].id == allc and not any(n is x for x in first)]
        all_ok = all_ok or (len(first) == 1 and closed_text(sm, first[0].value) in (
            'self.get_master_identifiers() & ' + RUN, RUN + ' & self.get_master_identifiers()',
            'self.get_master_identifiers().intersection(%s)' % RUN) and len(fall2) == 1 and
            closed_text(sm, fall2[0].value) == RUN and {tuple(f) for f in factmap(sm).at(fall2[0])} == {(allc, False)})
    R.check(r3, ok2 and core_ok, 'core instances have priority among the candidates', 'select|core-first', sm.loc(),
            'select_master does not restrict the candidates to the core identifiers when one of them is a candidate')
    R.check(r3, ok2 and all_ok, 'Masters already declared by RUNNING instances have priority over electing anew',
            'select|declared-first', sm.loc(), 'select_master does not take the declared Masters first and the '
            'running instances only when none is declared')


def rule_stability(P, R, r5):
    """the stability gate of the election (shared with C02)."""
    u = P.unit('StateModes.get_stable_running_identifiers')
    # `set()` is returned as soon as ONE peer state is outside STABLE_STATES: either from inside the loop over the
    # states, or under `any(state not in STABLE_STATES for ..)` (closed forms: no binder names)
    empties = [(facts, n) for v, facts, n in returns(u) if isinstance(v, ast.Call) and ast.unparse(v) == 'set()'
               and facts]
    ok = False
    if len(empties) == 1:
        facts, n = empties[0]
        for src in ('each(self.instance_states.items())[1]', 'each(self.instance_states.values())'):
            if (src + ' in StateModes.STABLE_STATES', False) in factmap(u).closed(n):
                ok = True
        for f in facts:
            g = f.node
            if f[1] and isinstance(g, ast.Call) and call_text(g) == 'any' and len(g.args) == 1:
                cv = comp_view(u, g.args[0])
                if cv and isinstance(cv['elt'], str) and cv['iters'] in (['self.instance_states.values()'],
                                                                         ['self.instance_states.items()']):
                    at = cond_atoms([ast.parse(cv['elt'], mode='eval').body]) | cv['conds']
                    src = 'each(%s)%s' % (cv['iters'][0], '[1]' if cv['iters'][0].endswith('items()') else '')
                    if at == {(src + ' in StateModes.STABLE_STATES', False)}:
                        ok = True
    runs = [v for v, facts, n in returns(u) if v is not None and ast.unparse(v) != 'set()']
    ok = ok and len(runs) == 1
    stable = P.member(P.cls('StateModes'), 'STABLE_STATES')
    members = sorted(x.attr for x in ast.walk(stable[2][1]) if isinstance(x, ast.Attribute)
                     and isinstance(x.value, ast.Name) and x.value.id == 'SupvisorsInstanceStates') if stable else []
    R.check(r5, ok and members == ['ISOLATED', 'RUNNING', 'STOPPED'],
            'a view holding a transient peer state (CHECKING, CHECKED, FAILED) is not stable', 'stable|definition',
            u.loc(), 'get_stable_running_identifiers / STABLE_STATES=%s do not reject transient peer states' % members)
    u = P.unit('SupvisorsStateModes.evaluate_stability')
    fm = factmap(u)
    # closed forms: the set stored is element 0 of the list L of the views of the RUNNING instances, under the facts
    # "L is not empty" and "every element of L equals L[0]" (whatever locals hold L, L[0] or the result)
    du = defuse(u)
    vals = [(du.closed(v), {(t, pol) for t, pol in fm.closed(n)} | {(closed_text(u, ast.parse(f[0], mode='eval').body), f[1])
                                                                  for f in facts}, n)
            for v, facts, n in assigned_values(u, 'self.stable_identifiers')]
    good = [(v, fs, n) for v, fs, n in vals if ast.unparse(v) != 'set()']
    ok = False
    if len(good) == 1:
        v, fs, n = good[0]
        if isinstance(v, ast.Subscript) and ast.unparse(v.slice) == '0' and isinstance(v.value, ast.ListComp):
            L = ast.unparse(v.value)
            cv = comp_view(u, v.value)
            agree = ctext('all((each(%s) == %s[0] for _ in %s))' % (L, L, L))
            ok = (L, True) in fs and any(pol and ctext(t) == agree for t, pol in fs) and \
                cv['iters'] == ['self.instance_state_modes.items()'] and \
                cv['elt'] == 'each(self.instance_state_modes.items())[1].get_stable_running_identifiers()' and \
                cv['conds'] == {('self.is_running(each(self.instance_state_modes.items())[0])', True)}
    R.check(r5, ok, 'stable identifiers are set only when all RUNNING instances agree', 'stable|agreement', u.loc(),
            'evaluate_stability sets stable_identifiers without requiring all RUNNING instances to report the same set')
    u = P.unit('SupvisorsStateModes.is_stable')
    rs = [ast.unparse(v) for v, f, n in returns(u) if v is not None]
    R.check(r5, rs in (['len(self.stable_identifiers) > 0'], ['bool(self.stable_identifiers)']),
            'is_stable() is "the agreed set is not empty"', 'stable|is_stable', u.loc(), 'is_stable returns %s' % rs)


def run(P, R):
    fsm = Fsm(P)
    G = CallGraph(P)
    entries, names = listener_entries(P)

    # ---------------------------------------------------------------- R1
    r1 = R.rule('R1', 'guarded reachability (call graph)',
                'from the callbacks SupervisorListener subscribes to Supervisor events (ticks, process events, remote '
                'publications and notifications), no automatic-action sink (Starter.start_applications, '
                'Stopper.stop_applications, conciliate_conflicts, RunningFailureHandler.add_default_job/add_job, '
                'FiniteStateMachine.on_restart/on_shutdown) is reachable along call edges none of which is under the '
                'fact is_master(); _master_enter/_master_next/_master_exit are only called from the Master arm of the '
                '_MasterSlaveState dispatchers or from another _master_* method', 10)
    for q in AUTO_SINKS:
        P.unit(q)
    all_seen = G.reach(entries)
    reached_sinks = sorted({n[1].qual for n in all_seen if n[1].qual in AUTO_SINKS})
    R.require(len(reached_sinks) >= 5, 'only %d automatic sinks are reachable at all from the listener callbacks (%s): '
              'the call graph lost the FSM' % (len(reached_sinks), reached_sinks))
    seen = G.reach(entries, edge_ok=lambda e: not e.has(IS_MASTER, True))
    for q in sorted(AUTO_SINKS):
        hits = [n for n in seen if n[1].qual == q]
        if q not in reached_sinks:
            R.note(r1, '%s is not reachable from the listener callbacks at all' % q)
            continue
        if not hits:
            R.ok(r1, '%s only reachable through an is_master() guarded call' % q, q)
        for n in hits:
            path = G.path_text(seen, n)
            # the key names the first caller of the sink on the unguarded path
            parent = seen[n]
            caller = parent[0][1].qual if parent else '?'
            R.fail(r1, 'unguarded|%s|%s' % (q, caller), parent[0][1].loc(parent[1].node) if parent else n[1].loc(),
                   '%s (%s) is reachable from a Supervisor event callback without any is_master() guard on the '
                   'path: %s' % (q, AUTO_SINKS[q], path))
    unres = sorted({'%s:%d %s' % (n[1].qual, l, t) for n in all_seen for l, t in G.unres.get(n, [])})
    R.stats['callgraph'] = {'entries': len(entries), 'subscriptions': len(names), 'nodes_reached': len(all_seen),
                            'nodes_reached_without_master_guard': len(seen), 'calls': G.n_calls,
                            'calls_resolved': G.n_resolved, 'unresolved_in_reached': len(unres)}
    R.extra['unresolved_calls_sample'] = unres[:40]
    SINK_NAMES = {q.split('.')[-1].split(':')[-1] for q in AUTO_SINKS}
    for n in all_seen:
        for l, t in G.unres.get(n, []):
            if t.split('.')[-1] in SINK_NAMES:
                raise AnalysisError('UNRESOLVED-SINK: %s:%d calls %s on an unresolved receiver' % (n[1].qual, l, t))
    # who-may-call the Master halves
    n_sites = 0
    for u in P.all_units():
        if u.mod.short != 'statemachine':
            for c in own_nodes(u.node):
                if isinstance(c, ast.Call) and isinstance(c.func, ast.Attribute) and \
                        c.func.attr in ('_master_enter', '_master_next', '_master_exit'):
                    R.fail(r1, 'master-half-caller|%s' % u.qual, u.loc(c), '%s calls %s from outside the state '
                           'machine' % (u.qual, c.func.attr))
            continue
        fm = factmap(u)
        for c in own_nodes(u.node):
            if isinstance(c, ast.Call) and isinstance(c.func, ast.Attribute) and \
                    c.func.attr in ('_master_enter', '_master_next', '_master_exit'):
                n_sites += 1
                ok = u.name.startswith('_master_') or fm.has(c, IS_MASTER, True)
                R.check(r1, ok, '%s calls %s as Master' % (u.qual, c.func.attr),
                        'master-half|%s|%s' % (u.qual, c.func.attr), u.loc(c),
                        '%s calls %s without the fact is_master() and outside a _master_* method' %
                        (u.qual, c.func.attr))
    R.require(n_sites >= 6, 'fewer than 6 call sites of the _master_* halves found')
    u = P.unit('SupvisorsStateModes.is_master')
    rs = [ctext(v) for v, f, n in returns(u) if v is not None]
    R.check(r1, rs == [ctext('self.master_identifier == self.local_identifier')],
            'is_master() is exactly "the recognised Master is the local instance"', 'is_master|definition', u.loc(),
            'SupvisorsStateModes.is_master returns %s' % rs)

    # ---------------------------------------------------------------- R2
    r2 = R.rule('R2', 'must-pass-through (return-path facts)',
                'ElectionState.next returns DISTRIBUTION only under is_stable() and check_master(); every state past '
                'ELECTION decides ELECTION (FINAL for the ending states) from _MasterSlaveState._check_consistence '
                'under the fact "check_master(False) is false" before its Master/Slave half runs; check_master() is '
                'true only when the Masters declared by the RUNNING instances are a single non-empty identifier', 9)
    u = P.unit('ElectionState.next')
    n = 0
    for v, facts, node in returns(u):
        if v is not None and 'DISTRIBUTION' in (fsm.ev.const_set(v) or ()):
            n += 1
            fs = {tuple(f) for f in facts}
            ok = ('self.state_modes.is_stable()', True) in fs and ('self.state_modes.check_master()', True) in fs
            R.check(r2, ok, 'ELECTION -> DISTRIBUTION only when stable and one Master is agreed',
                    'election-gate|ElectionState.next|%s' % ('master' if (IS_MASTER, True) in fs else 'slave'),
                    u.loc(node), 'ElectionState.next returns DISTRIBUTION under %s, without the stability / '
                    'single-Master facts' % sorted(fs))
    R.require(n >= 1, 'ElectionState.next: no return of DISTRIBUTION found')
    cc = P.unit('_MasterSlaveState._check_consistence')
    ok = any(fsm.ev.const(v) == 'ELECTION' and ('self.state_modes.check_master(False)', False) in {tuple(f) for f in facts}
             for v, facts, node in returns(cc) if v is not None)
    R.check(r2, ok, '_check_consistence returns ELECTION when the Master is missing or not unique',
            'consistence|_MasterSlaveState', cc.loc(), '_MasterSlaveState._check_consistence does not return ELECTION '
            'under "not check_master(False)"')
    for st in WORKING + ENDING:
        d, sites = fsm.method_returns(st, '_check_consistence')
        tgt = 'FINAL' if st in ENDING else 'ELECTION'
        via = sites.get('ELECTION', set()) if st not in ENDING else sites.get('FINAL', set())
        ok = tgt in d and (st in ENDING or any(s[0] is cc for s in via))
        R.check(r2, ok, '%s re-checks the Master at every evaluation (-> %s)' % (fsm.instances[st].name, tgt),
                'consistence|%s' % fsm.instances[st].name, P.resolved(fsm.instances[st], '_check_consistence').loc(),
                '%s._check_consistence cannot return %s: a missing or duplicated Master is not detected in %s' %
                (fsm.instances[st].name, tgt, st))
        dn, _ = fsm.decisions(st)
        R.check(r2, tgt in dn, '%s.next() propagates that decision' % fsm.instances[st].name,
                'consistence-next|%s' % fsm.instances[st].name, P.resolved(fsm.instances[st], 'next').loc(),
                '%s.next() never returns %s' % (fsm.instances[st].name, tgt))
    for st in WORKING:
        R.check(r2, 'ELECTION' in fsm.transitions[st], 'the way back to ELECTION is open from %s' % st,
                'election-refused|%s' % fsm.instances[st].name, fsm.cls.mod.relpath + ':%d' % fsm.trans_node.lineno,
                '%s decides ELECTION when the Master is missing or not unique but _Transitions[%s] refuses it: the '
                'instances stay in %s without any Master for ever' % (fsm.instances[st].name, st, st))
    ms = P.unit('_MasterSlaveState.next')
    fm = factmap(ms)
    for c in own_nodes(ms.node):
        if isinstance(c, ast.Call) and call_text(c) in ('self._master_next', 'self._slave_next', 'self._common_next'):
            ok = any(f[0] == 'next_state' and not f[1] for f in fm.at(c))
            R.check(r2, ok, '%s runs only after the consistence checks returned nothing' % call_text(c),
                    'after-checks|%s' % call_text(c), ms.loc(c), '_MasterSlaveState.next calls %s without having '
                    'returned the decision of the base checks first' % call_text(c))
    cm = P.unit('SupvisorsStateModes.check_master')
    trues = [facts for v, facts, node in returns(cm) if isinstance(v, ast.Constant) and v.value is True]
    ok = len(trues) == 1 and {("'' in masters", False), ('len(masters) > 1', False)} <= {tuple(f) for f in trues[0]}
    R.check(r2, ok, 'check_master() is true only for exactly one, non-empty declared Master', 'check_master|definition',
            cm.loc(), 'SupvisorsStateModes.check_master returns True under %s' % [sorted(tuple(f) for f in t) for t in trues])
    gm = P.unit('SupvisorsStateModes.get_master_identifiers')
    comp = [n for n in own_nodes(gm.node) if isinstance(n, (ast.DictComp, ast.SetComp, ast.ListComp))]
    ok = bool(comp) and any(any(ast.unparse(i) == 'self.is_running(identifier)' for g in c.generators for i in g.ifs)
                            and ast.unparse(c.generators[0].iter) == 'self.instance_state_modes.items()' for c in comp)
    R.check(r2, ok, 'declared Masters are collected from every instance seen RUNNING (local included)',
            'get_master_identifiers|scope', gm.loc(), 'get_master_identifiers does not iterate all instance state & '
            'modes filtered by is_running()')

    # ---------------------------------------------------------------- R3
    r3 = R.rule('R3', 'who-may-write + must-write under fact',
                'the recognised Master is reset when it leaves RUNNING (update_instance_state assigns the empty '
                'identifier under new_state != RUNNING and identifier == master_identifier) and is written nowhere '
                'else than select_master, accept_master, update_instance_state and FiniteStateMachine.on_end_sync',
                5)
    rule_master(P, R, r3)

    # ---------------------------------------------------------------- R4
    r4 = R.rule('R4', 'must-call in the changed branch',
                'every change of the local state & modes is published: the setters state, master_identifier, '
                'degraded_mode, starting_jobs, stopping_jobs call publish_status() whenever the stored value changes; '
                'on_timer_event flushes the deferred publication before evaluating; publish_status sends the serialised '
                'local state & modes; StateModes.update reads only keys StateModes.serial writes', 8)
    for nm in ('state', 'master_identifier', 'degraded_mode', 'starting_jobs', 'stopping_jobs'):
        u = P.unit('SupvisorsStateModes.%s[set]' % nm)
        fm = factmap(u)
        arg = u.node.args.args[1].arg
        stores = [n for n in own_nodes(u.node) if isinstance(n, ast.Assign) and
                  ast.unparse(n.targets[0]) == 'self.local_state_modes.%s' % nm]
        pubs = [c for c in own_nodes(u.node) if isinstance(c, ast.Call) and call_text(c) == 'self.publish_status']
        ok = len(stores) == 1 and len(pubs) >= 1 and \
            any({tuple(f) for f in fm.at(p)} <= {tuple(f) for f in fm.at(stores[0])} for p in pubs)
        R.check(r4, ok, 'setter %s publishes every change' % nm, 'publish|%s' % nm, u.loc(),
                'SupvisorsStateModes.%s setter stores a new value without calling publish_status() on the same path'
                % nm)
    u = P.unit('FiniteStateMachine.on_timer_event')
    order = [call_text(c) for c in sorted((c for c in own_nodes(u.node) if isinstance(c, ast.Call)),
                                          key=lambda c: (c.lineno, c.col_offset))]
    ok = must_call(u.node, lambda c: call_text(c) == 'self.state_modes.deferred_publish_status') and \
        'self.next' in order and order.index('self.state_modes.deferred_publish_status') < order.index('self.next')
    R.check(r4, ok, 'instance-state changes are flushed at every tick before the evaluation', 'publish|deferred',
            u.loc(), 'on_timer_event does not call deferred_publish_status() before next() on every path')
    u = P.unit('SupvisorsStateModes.deferred_publish_status')
    fm = factmap(u)
    pubs = [c for c in own_nodes(u.node) if isinstance(c, ast.Call) and call_text(c) == 'self.publish_status']
    ok = len(pubs) == 1 and {tuple(f) for f in fm.at(pubs[0])} == {('self.update_mark', True)}
    R.check(r4, ok, 'the deferred publication fires whenever the mark is set', 'publish|deferred-mark', u.loc(),
            'deferred_publish_status does not publish under exactly "update_mark"')
    u = P.unit('SupvisorsStateModes.publish_status')
    ok = must_call(u.node, lambda c: call_text(c) == 'self.supvisors.rpc_handler.send_state_event' and c.args and
                   ast.unparse(c.args[0]) == 'self.local_state_modes.serial()')
    R.check(r4, ok, 'publish_status sends the serialised local state & modes to the peers', 'publish|send', u.loc(),
            'publish_status does not always send local_state_modes.serial() through send_state_event')
    ser, upd = P.unit('StateModes.serial'), P.unit('StateModes.update')
    written = {k.value for n in own_nodes(ser.node) if isinstance(n, ast.Dict) for k in n.keys
               if isinstance(k, ast.Constant)}
    read = {n.slice.value for n in own_nodes(upd.node) if isinstance(n, ast.Subscript) and
            isinstance(n.value, ast.Name) and n.value.id == 'payload' and isinstance(n.slice, ast.Constant)}
    R.check(r4, bool(read) and read <= written and {'master_identifier', 'fsm_statecode', 'instance_states'} <= read,
            'reader keys of the state publication are a subset of the writer keys', 'publish|keys', upd.loc(),
            'StateModes.update reads %s but StateModes.serial writes %s' % (sorted(read - written), sorted(written)))
    from ..defuse import closed_text as _ct
    fields = {ast.unparse(n.targets[0]): _ct(upd, n.value) for n in own_nodes(upd.node) if isinstance(n, ast.Assign)}
    ok = fields.get('self.master_identifier') == "payload['master_identifier']" and \
        fields.get('self.state') == "SupvisorsStates(payload['fsm_statecode'])"
    R.check(r4, ok, 'the remote Master and state are stored from the matching payload keys', 'publish|fields',
            upd.loc(), 'StateModes.update stores %s' % {k: v for k, v in fields.items()
                                                          if k in ('self.master_identifier', 'self.state')})

    # ---------------------------------------------------------------- R5
    r5 = R.rule('R5', 'definition shape', 'stability gate: an instance view is stable only when every peer state is '
                'RUNNING, STOPPED or ISOLATED; the context is stable only when all RUNNING instances report the same '
                'non-empty set', 3)
    rule_stability(P, R, r5)
    # an instance that stays CHECKING for ever keeps every view unstable: no election, no Master
    shared.handshake_order(P, R, r5)
    shared.transport_failure_posted(P, R, r5)
    R.assume('Convergence/agreement of N instances under all interleavings, and retention of the Master under joins '
             'and leaves, are NOT decided (they quantify over schedules); R1-R5 are necessary structural conditions.')
    R.assume('User-initiated entry points (XML-RPC, web UI) are exempt from R1: the statement says "automatically".')
