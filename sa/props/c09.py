"""C09 - Stop sequences are honoured; restart/shutdown is orderly and reaches everyone (structural clauses)."""
import ast
from ..model import own_nodes, AnalysisError
from ..paths import factmap, call_text, returns, must_call
from ..defuse import closed_text
from ..callgraph import CallGraph
from ..fsm import Fsm
from .c03 import rule_pickup, rule_next_when_empty, plan_before_trigger
from .c04 import who_calls
from . import shared

# user-only web actions on the LOCAL Supervisor (dashboard buttons), documented exception of R5
USER_ONLY = {'SupvisorsInstanceView.restart_sup_action', 'SupvisorsInstanceView.shutdown_sup_action',
             'ConciliationView.stop_action', 'ConciliationView.keep_action'}
REMOTE_METHOD = {'RESTART': 'supervisor.restart', 'SHUTDOWN': 'supervisor.shutdown',
                 'RESTART_ALL': 'supvisors.restart', 'SHUTDOWN_ALL': 'supvisors.shutdown',
                 'START_PROCESS': 'supvisors.start_args', 'STOP_PROCESS': 'supervisor.stopProcess'}


def run(P, R):
    G = CallGraph(P)
    fsm = Fsm(P)

    # ---------------------------------------------------------------- R1
    r1 = R.rule('R1', 'constant binding through the hierarchy', 'pickup_logic resolved for Stopper and '
                'ApplicationStopJobs (instance attribute set in __init__) is the builtin max (highest sequence first)', 2)
    rule_pickup(P, R, r1, (('Stopper', 'max'), ('ApplicationStopJobs', 'max')))

    # ---------------------------------------------------------------- R2
    r2 = R.rule('R2', 'must-pass-through', 'the next group is popped only when the current one is empty (same rule as '
                'C03.R2, shared code of Starter and Stopper); Stopper.stop_applications stores the whole plan before '
                'the first trigger; the stop plan holds one entry per stop_sequence of the application with the '
                'processes running somewhere', 9)
    rule_next_when_empty(P, R, r2)
    plan_before_trigger(P, G, R, r2, 'Stopper.stop_applications', 'self.store_application')
    shared.running_definitions(P, R, r2)
    # every application with something running is planned: the plan loop of stop_applications filters on
    # has_running_processes() only
    sa_ = P.unit('Stopper.stop_applications')
    fms = factmap(sa_)
    sc_ = [c for c in own_nodes(sa_.node) if isinstance(c, ast.Call) and call_text(c) == 'self.store_application']
    ok = len(sc_) == 1 and {(t, pol) for t, pol in fms.closed(sc_[0])} == {
        ('each(self.supvisors.context.applications.values()).has_running_processes()', True)}
    R.check(r2, ok, 'every application with a running process enters the stop plan', 'plan|scope', sa_.loc(),
            'Stopper.stop_applications plans an application under %s (needs exactly: has_running_processes())' %
            [sorted(fms.closed(c)) for c in sc_])
    u = P.unit('Stopper.store_application')
    loops = [n for n in u.node.body if isinstance(n, ast.For)]
    # name-independent (closed forms, sa.defuse): plan[<key of the stop_sequence item>] = ... inside the loop, and the
    # application job is filed under planned_jobs[application.rules.stop_sequence]
    ok = len(loops) == 1 and ast.unparse(loops[0].iter) == 'application.stop_sequence.items()' and \
        any(isinstance(a, ast.Assign) and isinstance(a.targets[0], ast.Subscript) and
            closed_text(u, a.targets[0].slice) == 'each(application.stop_sequence.items())[0]'
            for a in ast.walk(loops[0]))
    sd = [c for c in own_nodes(u.node) if isinstance(c, ast.Call) and call_text(c) == 'self.planned_jobs.setdefault']
    ok = ok and len(sd) == 1 and closed_text(u, sd[0].args[0]) == 'application.rules.stop_sequence'
    R.check(r2, ok, 'the stop plan follows the stop_sequence of processes and of the application',
            'plan|Stopper.store_application', u.loc(), 'Stopper.store_application does not key the plan by the process '
            'stop_sequence and the application rules.stop_sequence')

    shared.stop_sequence_default(P, R, r2)

    # ---------------------------------------------------------------- R3
    r3 = R.rule('R3', 'who-may-call + guard', 'stops are only sent where the process runs: send_stop_process is called '
                'only from ProcessStopCommand.stop (dashboard conciliation buttons excepted); stop() only from '
                'ApplicationStopJobs.process_job under process.running_on(command.identifier); every ProcessStopCommand '
                'is built with an identifier iterated from process.running_identifiers', 5)
    for u, c in who_calls(P, 'send_stop_process'):
        if u.qual in USER_ONLY:
            R.note(r3, 'user-only exception: %s' % u.qual)
            continue
        R.check(r3, u.qual == 'ProcessStopCommand.stop', '%s emits the stop request' % u.qual, 'emitter|%s' % u.qual,
                u.loc(c), '%s sends a stop request outside ProcessStopCommand.stop' % u.qual)
    pj = P.unit('ApplicationStopJobs.process_job')
    fm = factmap(pj)
    sc = [c for c in own_nodes(pj.node) if isinstance(c, ast.Call) and call_text(c) == 'command.stop']
    ok = len(sc) == 1 and ('command.process.running_on(command.identifier)', True) in fm.closed(sc[0])
    R.check(r3, ok, 'stop() only when the process runs on the targeted instance', 'stop-guard|process_job', pj.loc(),
            'ApplicationStopJobs.process_job calls command.stop() without process.running_on(command.identifier)')
    n = 0
    for q in ('Stopper.stop_process', 'Stopper.store_application'):
        u = P.unit(q)
        for comp in own_nodes(u.node):
            if isinstance(comp, ast.ListComp) and isinstance(comp.elt, ast.Call) and \
                    call_text(comp.elt) == 'self.command_class':
                n += 1
                idvar = ast.unparse(comp.elt.args[1]) if len(comp.elt.args) > 1 else '?'
                src = [ast.unparse(g.iter) for g in comp.generators
                       if any(isinstance(t, ast.Name) and t.id == idvar for t in ast.walk(g.target))]
                R.check(r3, src == ['process.running_identifiers'], '%s builds stop commands where the process runs' % q,
                        'stop-target|%s' % q, u.loc(comp), '%s builds a ProcessStopCommand with an identifier iterated '
                        'from %s instead of process.running_identifiers' % (q, src))
    R.require(n == 2, 'expected 2 construction sites of stop commands, found %d' % n)
    t = P.attr_type(P.cls('Stopper'), 'command_class')
    R.check(r3, bool(t) and t[0] == 'cls' and t[1].name == 'ProcessStopCommand', 'Stopper.command_class is '
            'ProcessStopCommand', 'stop-target|command_class', P.cls('Stopper').mod.relpath, 'Stopper.command_class is %s'
            % (t,))

    # ---------------------------------------------------------------- R4
    r4 = R.rule('R4', 'dispatch + table agreement', 'restart/shutdown reach the Master: on_restart/on_shutdown enter '
                'RESTARTING/SHUTTING_DOWN as Master, else forward RESTART_ALL/SHUTDOWN_ALL to the known Master; every '
                'RequestHeaders member has a sender in RpcHandler and a branch in SupervisorProxy.execute whose remote '
                'method is the intended one', 12)
    for q, state, fwd in (('FiniteStateMachine.on_restart', 'RESTARTING', 'send_restart_all'),
                          ('FiniteStateMachine.on_shutdown', 'SHUTTING_DOWN', 'send_shutdown_all')):
        u = P.unit(q)
        fm = factmap(u)
        ss = [c for c in own_nodes(u.node) if isinstance(c, ast.Call) and call_text(c) == 'self.set_state']
        ok = len(ss) == 1 and fsm.ev.const(ss[0].args[0]) == state and \
            {tuple(f) for f in fm.at(ss[0])} == {('self.state_modes.is_master()', True)}
        R.check(r4, ok, '%s: the Master enters %s' % (q, state), 'reroute|%s|master' % q, u.loc(),
                '%s does not call set_state(%s) exactly as Master' % (q, state))
        # the order the XML-RPC accepted (from DISTRIBUTION on) is not silently refused by the transition table
        for src in ('DISTRIBUTION', 'OPERATION', 'CONCILIATION'):
            R.check(r4, state in fsm.transitions.get(src, ()), '%s -> %s is in _Transitions' % (src, state),
                    'reroute|table|%s|%s' % (src, state), fsm.cls.mod.relpath, '_Transitions[%s] = %s does not hold %s: a '
                    'restart / shutdown order accepted while the Master is in %s is dropped by set_state' %
                    (src, sorted(fsm.transitions.get(src, ())), state, src))
        fw = [c for c in own_nodes(u.node) if isinstance(c, ast.Call) and call_text(c).endswith('.' + fwd)]
        ok = len(fw) == 1 and {tuple(f) for f in fm.at(fw[0])} == {('self.state_modes.is_master()', False),
                                                                    ('self.state_modes.master_identifier', True)} and \
            ast.unparse(fw[0].args[0]) == 'self.state_modes.master_identifier'
        R.check(r4, ok, '%s: a non-Master forwards the order to the Master' % q, 'reroute|%s|forward' % q, u.loc(),
                '%s does not forward with %s(master_identifier) exactly when not Master and a Master is known' % (q, fwd))
    headers = P.enum_members('RequestHeaders')
    RH = P.cls('RpcHandler')
    senders = {}
    for nm, u in RH.methods.items():
        for c in own_nodes(u.node):
            if isinstance(c, ast.Call) and call_text(c) == 'self.push_request' and len(c.args) >= 2:
                h = ast.unparse(c.args[1])
                if h.startswith('RequestHeaders.'):
                    senders.setdefault(h.split('.')[1], []).append((nm, ast.unparse(c.args[0])))
    ex = P.unit('SupervisorProxy.execute')
    fm = factmap(ex)
    branches = {}
    for c in own_nodes(ex.node):
        if isinstance(c, ast.Call) and call_text(c).startswith('self.') and call_text(c) != 'self.logger.error':
            hs = [f[0].split('.')[-1] for f in fm.at(c) if f[1] and f[0].startswith('request_type == RequestHeaders.')]
            if hs:
                branches.setdefault(hs[0], []).append(call_text(c)[5:])
    for h in headers:
        ok = len(senders.get(h, [])) == 1 and senders[h][0][1] == 'identifier'
        R.check(r4, ok, 'RequestHeaders.%s has one sender targeting the given identifier' % h, 'request|sender|%s' % h,
                RH.mod.relpath, 'RequestHeaders.%s has senders %s' % (h, senders.get(h)))
        ok = len(branches.get(h, [])) == 1
        R.check(r4, ok, 'RequestHeaders.%s has one branch in SupervisorProxy.execute' % h, 'request|branch|%s' % h,
                ex.loc(), 'RequestHeaders.%s is handled by %s in execute' % (h, branches.get(h)))
        if ok and h in REMOTE_METHOD:
            m = P.resolved(P.cls('SupervisorProxy'), branches[h][0])
            rpc = [ast.unparse(c.args[0]) for c in own_nodes(m.node) if isinstance(c, ast.Call)
                   and call_text(c) == 'self.xml_rpc' and c.args]
            fct = [ast.unparse(c.args[1]) for c in own_nodes(m.node) if isinstance(c, ast.Call)
                   and call_text(c) == 'self.xml_rpc' and len(c.args) > 1]
            want = REMOTE_METHOD[h]
            R.check(r4, fct == ['self.proxy.' + want], '%s performs %s on the target' % (h, want),
                    'request|remote|%s' % h, m.loc(), 'the %s request performs %s instead of %s' % (h, fct, want))

    # ---------------------------------------------------------------- R5
    r5 = R.rule('R5', 'who-may-call + must-call', 'exactly one final order, after the stop phase: send_restart / '
                'send_shutdown are called only from RestartingState.exit / ShuttingDownState.exit (dashboard buttons on '
                'the local Supervisor excepted) with the local identifier; exit() is called once per accepted '
                'transition; the Master enters an ending state by stopping all applications; ending states lead only to '
                'FINAL, which is terminal', 8)
    for meth, owner in (('send_restart', 'RestartingState.exit'), ('send_shutdown', 'ShuttingDownState.exit')):
        for u, c in who_calls(P, meth):
            if u.qual in USER_ONLY:
                R.note(r5, 'user-only exception: %s' % u.qual)
                continue
            ok = u.qual == owner and ast.unparse(c.args[0]) == 'self.local_identifier' and not factmap(u).at(c)
            R.check(r5, ok, '%s orders the local Supervisor %s' % (owner, meth[5:]), 'final-order|%s|%s' % (meth, u.qual),
                    u.loc(c), '%s calls %s(%s): the final order must only be sent to the local Supervisor when '
                    'leaving the ending state' % (u.qual, meth, ast.unparse(c.args[0]) if c.args else ''))
    ss = P.unit('FiniteStateMachine.set_state')
    ex_calls = [c for c in own_nodes(ss.node) if isinstance(c, ast.Call) and call_text(c) == 'self.instance.exit']
    fm = factmap(ss)
    ok = len(ex_calls) == 1 and any('_Transitions' in f[0] for f in fm.at(ex_calls[0]))
    R.check(r5, ok, 'exit() runs once per accepted transition', 'final-order|set_state-exit', ss.loc(),
            'set_state does not call instance.exit() exactly once, after the transition was accepted')
    me = P.unit('_EndingState._master_enter')
    ok = must_call(me.node, lambda c: call_text(c) == 'self.supvisors.stopper.stop_applications')
    R.check(r5, ok, 'the Master stops every application when entering an ending state', 'final-order|stop-phase',
            me.loc(), '_EndingState._master_enter does not always call stopper.stop_applications()')
    # nothing is started during the stop phase: what Stopper.after would start once an application is stopped (the
    # starts deferred by restart_application / restart_process) is dropped by the abort that precedes the stop phase
    ok = must_call(me.node, lambda c: call_text(c) == 'self._abort_jobs') and \
        [call_text(c) for c in sorted((c for c in own_nodes(me.node) if isinstance(c, ast.Call)),
                                      key=lambda c: (c.lineno, c.col_offset))
         if call_text(c) in ('self._abort_jobs', 'self.supvisors.stopper.stop_applications')][:1] == ['self._abort_jobs']
    R.check(r5, ok, 'pending jobs are aborted before the stop phase', 'final-order|abort-first', me.loc(),
            '_EndingState._master_enter does not call _abort_jobs() before stopper.stop_applications()')
    STP = P.cls('Stopper')
    af = P.unit('Stopper.after')
    deferred = sorted({c.func.value.attr for c in own_nodes(af.node) if isinstance(c, ast.Call) and
                       isinstance(c.func, ast.Attribute) and c.func.attr in ('pop', 'get') and
                       isinstance(c.func.value, ast.Attribute) and ast.unparse(c.func.value.value) == 'self'})
    starts = [c for c in own_nodes(af.node) if isinstance(c, ast.Call) and call_text(c).startswith('self.supvisors.starter.start_')]
    R.require(bool(deferred) and bool(starts), 'Stopper.after: deferred start requests not found (%s)' % deferred)
    ab = P.resolved(STP, 'abort')
    fma = factmap(ab)
    cleared = set()
    if ab.cls is STP:
        for a in own_nodes(ab.node):
            if isinstance(a, ast.Assign) and isinstance(a.targets[0], ast.Attribute) and \
                    ast.unparse(a.targets[0].value) == 'self' and isinstance(a.value, ast.Dict) and not a.value.keys and \
                    not fma.at(a):
                cleared.add(a.targets[0].attr)
            if isinstance(a, ast.Call) and isinstance(a.func, ast.Attribute) and a.func.attr == 'clear' and \
                    isinstance(a.func.value, ast.Attribute) and ast.unparse(a.func.value.value) == 'self' and not fma.at(a):
                cleared.add(a.func.value.attr)
        base_called = must_call(ab.node, lambda c: call_text(c) in ('super().abort', 'Commander.abort'))
    else:
        base_called = True
    for d_ in deferred:
        R.check(r5, d_ in cleared and base_called, 'Stopper.abort drops the deferred %s' % d_, 'final-order|deferred|%s' % d_,
                ab.loc(), 'Stopper.abort() (resolved to %s) does not empty self.%s (and abort the jobs): a start deferred by a '
                'restart request is applied by Stopper.after() at the end of the stop phase of RESTARTING / SHUTTING_DOWN, '
                'so a process is started while everything is being stopped' % (ab.qual, d_))
    # nobody joins during the stop phase: an instance activated (CHECKED -> RUNNING) in an ending state has no Master
    # yet, check_master() fails and _EndingState._check_consistence forces FINAL before everything is stopped
    for st in ('RESTARTING', 'SHUTTING_DOWN'):
        c = fsm.instances[st]
        act = P.resolved(c, '_activate_instances')
        calls = [call_text(k) for k in own_nodes(act.node) if isinstance(k, ast.Call) and call_text(k).endswith('activate_checked')]
        R.check(r5, not calls, '%s does not activate CHECKED instances' % c.name, 'final-order|no-activation|%s' % c.name,
                act.loc(), '%s._activate_instances (resolved to %s) calls %s: an instance that completes its handshake '
                'during %s becomes RUNNING without a Master, the Master consistency check fails and FINAL is forced - the '
                'restart / shutdown order is sent before the applications are stopped' % (c.name, act.qual, calls, st))
    for st in ('RESTARTING', 'SHUTTING_DOWN'):
        c = fsm.instances[st]
        R.check(r5, P.resolved(c, '_master_enter') is me, '%s uses the ending Master entry' % c.name,
                'final-order|enter|%s' % c.name, c.mod.relpath + ':%d' % c.node.lineno,
                '%s overrides _master_enter' % c.name)
        R.check(r5, fsm.transitions[st] == {'FINAL'} and not fsm.transitions['FINAL'],
                '%s -> FINAL only, FINAL terminal' % st, 'final-order|table|%s' % st, fsm.cls.mod.relpath,
                '_Transitions[%s] = %s / FINAL -> %s' % (st, sorted(fsm.transitions[st]), sorted(fsm.transitions['FINAL'])))
        d, _ = fsm.method_returns(st, '_master_next')
        R.check(r5, d == {st, 'FINAL'}, 'the %s Master only stays or goes FINAL' % st, 'final-order|master|%s' % st,
                P.resolved(c, '_master_next').loc(), '%s._master_next can return %s' % (c.name, sorted(map(str, d))))
    R.assume('Real ordering against TRUE process states, and the loss of a non-Master during the ending phase, are NOT '
             'decided.')
