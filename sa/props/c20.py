"""C20 - Statistics histories stay bounded, aligned and sane (structural clauses; numeric sanity not decided)."""
import ast
from ..model import own_nodes, AnalysisError
from ..paths import factmap, call_text, returns, must_call, statements, cf, ctext, holds_when
from ..defuse import closed_text

HIST_CLASSES = ('HostStatisticsInstance', 'ProcStatisticsInstance')


def block_of(fn_node, stmt):
    """the statement list that directly contains stmt."""
    def find(stmts):
        if any(s is stmt for s in stmts):
            return stmts
        for s in stmts:
            for fld in ('body', 'orelse', 'finalbody'):
                v = getattr(s, fld, None)
                if isinstance(v, list) and v and isinstance(v[0], ast.stmt):
                    r = find(v)
                    if r is not None:
                        return r
            for h in getattr(s, 'handlers', []):
                r = find(h.body)
                if r is not None:
                    return r
        return None
    return find(fn_node.body)


def trunc_ok(td):
    """trunc_depth(lst, depth) leaves at most depth elements, removing from the front."""
    a0, a1 = td.node.args.args[0].arg, td.node.args.args[1].arg
    fm = factmap(td)
    over = {cf('len(%s) > %s' % (a0, a1)), cf('len(%s) - %s > 0' % (a0, a1))}
    body = [s for s in td.node.body if not (isinstance(s, ast.Expr) and isinstance(s.value, ast.Constant))]
    loops = [n for n in body if isinstance(n, ast.While)]
    if len(loops) == 1 and len(body) == 1:
        w = loops[0]
        return cf(ast.unparse(w.test)) in over and not w.orelse and len(w.body) == 1 and \
            ast.unparse(w.body[0]) in ('%s.pop(0)' % a0, 'del %s[0]' % a0)
    sts = [s for s in statements(td.node) if isinstance(s, (ast.Delete, ast.Assign, ast.AugAssign, ast.Expr))
           and not (isinstance(s, ast.Expr) and isinstance(s.value, ast.Constant))
           and not (isinstance(s, ast.Assign) and isinstance(s.targets[0], ast.Name))]
    if len(sts) != 1:
        return False
    st = sts[0]
    guarded = bool(over & {(f[0], f[1]) for f in fm.closed(st)})
    if isinstance(st, ast.Delete) and len(st.targets) == 1:
        t = st.targets[0]
        if isinstance(t, ast.Subscript) and ast.unparse(t.value) == a0 and isinstance(t.slice, ast.Slice) and \
                t.slice.step is None and (t.slice.lower is None or ast.unparse(t.slice.lower) == '0') and t.slice.upper:
            up = closed_text(td, t.slice.upper)
            if up == '-%s' % a1:
                return True
            return guarded and up in ('len(%s) - %s' % (a0, a1), '-%s + len(%s)' % (a1, a0))
    if isinstance(st, ast.Assign) and ast.unparse(st.targets[0]) == '%s[:]' % a0:
        return ast.unparse(st.value) == '%s[-%s:]' % (a0, a1)
    return False


def history_appends(P):
    """[(unit, statement, list text)] for every append on a history list in the two statistics instance classes."""
    out = []
    for cname in HIST_CLASSES:
        c = P.cls(cname)
        for u in c.methods.values():
            if u.name == 'copy':
                continue
            for st in statements(u.node):
                if isinstance(st, ast.Expr) and isinstance(st.value, ast.Call) and \
                        isinstance(st.value.func, ast.Attribute) and st.value.func.attr in ('append', 'extend', 'insert'):
                    lst = ast.unparse(st.value.func.value)
                    if lst in ('destroy_list',):
                        continue
                    out.append((u, st, lst))
    return out


def run(P, R):
    apps = history_appends(P)

    # ---------------------------------------------------------------- R1
    r1 = R.rule('R1', 'pairing', 'every growth is truncated: each append on a history list (times, cpu[i], mem, uptimes, '
                'ref_bytes_list and the three ProcStatisticsInstance lists) is followed in the same block by '
                'trunc_depth(<same list>, self.depth); trunc_depth removes elements while len(lst) > depth; depth is '
                'options.stats_histo (bounded by its converter, C18.R5)', 11)
    R.require(len(apps) >= 8, 'only %d history append sites found' % len(apps))
    for u, st, lst in apps:
        blk = block_of(u.node, st)
        after = blk[blk.index(st) + 1:] if blk else []
        ok = any(isinstance(s, ast.Expr) and isinstance(s.value, ast.Call) and call_text(s.value) == 'trunc_depth'
                 and [ast.unparse(a) for a in s.value.args] == [lst, 'self.depth'] for s in after)
        R.check(r1, ok, '%s: %s.append is followed by trunc_depth(%s, self.depth)' % (u.qual, lst, lst),
                'untruncated|%s|%s' % (u.qual, lst), u.loc(st), '%s appends to the history list `%s` without a following '
                'trunc_depth(%s, self.depth) in the same block: the history grows beyond stats_histo points' %
                (u.qual, lst, lst))
    td = P.unit('statscompiler:trunc_depth')
    R.check(r1, trunc_ok(td), 'trunc_depth drops the oldest elements beyond depth', 'trunc|definition', td.loc(),
            'trunc_depth does not leave at most `depth` elements by removing the oldest ones (accepted: `while len(lst) > '
            'depth: lst.pop(0)`, `del lst[:len(lst) - depth]` under len(lst) > depth, `del lst[:-depth]`)')
    for q, cls_arg in (('HostStatisticsCompiler.add_instance', 'HostStatisticsInstance'),
                       ('ProcStatisticsHolder.push_statistics', 'ProcStatisticsInstance')):
        u = P.unit(q)
        mk = [c for c in own_nodes(u.node) if isinstance(c, ast.Call) and call_text(c) == cls_arg]
        ok = len(mk) == 1 and any(ast.unparse(a).endswith('options.stats_histo') for a in mk[0].args) and \
            any(ast.unparse(g.iter).endswith('options.stats_periods') for n in own_nodes(u.node)
                if isinstance(n, ast.DictComp) for g in n.generators)
        R.check(r1, ok, '%s: depth = stats_histo, one instance per configured period' % q, 'trunc|depth-source|%s' % q,
                u.loc(), '%s does not build its instances with options.stats_histo for each of options.stats_periods' % q)

    # ---------------------------------------------------------------- R2
    r2 = R.rule('R2', 'dominance (interprocedural)', 'a new point is produced only when at least the period has elapsed: '
                'every history append is under the fact `stats[now] - ref_stats[now] >= self.period` (directly, or its '
                'helper is only called from sites under that fact); the reference is rolled over on that branch and on '
                'the first sample only', 12)
    for cname, var in (('HostStatisticsInstance', 'stats'), ('ProcStatisticsInstance', 'proc_stats')):
        gate = ("%s['now'] - self.ref_stats['now'] >= self.period" % var, True)
        c = P.cls(cname)
        ps = P.unit(cname + '.push_statistics')
        fm = factmap(ps)

        def gated(node, g=gate, f=fm):
            return g in {tuple(x) for x in f.at(node)} and ('self.ref_stats', True) in {tuple(x) for x in f.at(node)}
        # helpers: methods of the class called from push_statistics
        helper_ok = {}
        for u in c.methods.values():
            sites = [(cu, cc) for cu in c.methods.values() for cc in own_nodes(cu.node)
                     if isinstance(cc, ast.Call) and call_text(cc) == 'self.' + u.name]
            helper_ok[u.name] = sites
        memo = {}

        def unit_gated(u, depth=0):
            """every call site of helper u is gated (or inside a gated helper)."""
            if u.name in memo:
                return memo[u.name]
            memo[u.name] = False
            sites = helper_ok.get(u.name, [])
            ok = bool(sites) and depth < 4
            for cu, cc in sites:
                if cu is ps:
                    ok = ok and gated(cc)
                else:
                    ok = ok and unit_gated(cu, depth + 1)
            memo[u.name] = ok
            return ok
        for u, st, lst in apps:
            if u.cls is not c:
                continue
            ok = gated(st) if u is ps else unit_gated(u)
            R.check(r2, ok, '%s: %s grows only behind the period gate' % (u.qual, lst), 'ungated|%s|%s' % (u.qual, lst),
                    u.loc(st), '%s appends to `%s` on a path that is not dominated by `%s >= self.period`' %
                    (u.qual, lst, gate[0].split(' >= ')[0]))
        roll = [a for a in own_nodes(ps.node) if isinstance(a, ast.Assign) and ast.unparse(a.targets[0]) == 'self.ref_stats']
        facts = sorted(sorted(tuple(f) for f in fm.at(a)) for a in roll)
        ok = len(roll) == 2 and [('self.ref_stats', False)] in facts and \
            sorted([gate, ('self.ref_stats', True)]) in facts and all(ast.unparse(a.value) == var for a in roll)
        R.check(r2, ok, '%s: the reference sample rolls over on the gated branch and on the first sample only' % cname,
                'rollover|%s' % cname, ps.loc(), '%s.push_statistics assigns ref_stats under %s' % (cname, facts))
        st0 = [a for a in own_nodes(ps.node) if isinstance(a, ast.Assign) and ast.unparse(a.targets[0]) == 'self.ref_start_time']
        ok = len(st0) == 1 and {tuple(f) for f in fm.at(st0[0])} == {('self.ref_stats', False)}
        R.check(r2, ok, '%s: the time origin is set once, on the first sample' % cname, 'rollover|origin|%s' % cname,
                ps.loc(), '%s.push_statistics sets ref_start_time under %s' %
                (cname, [sorted(tuple(f) for f in fm.at(a)) for a in st0]))

    # ---------------------------------------------------------------- R3
    r3 = R.rule('R3', 'alignment by construction', 'for one entity the time list and each of its value lists are appended '
                'exactly once per point: host times/cpu/mem pushed once each in the gated branch; timed statistics '
                'append one uptime and one value per series (zip over the series), a new entity is created with one '
                'time and one value per series, a vanished one is deleted; process cpu/mem/times appended once each', 7)
    ps = P.unit('HostStatisticsInstance.push_statistics')
    names = [call_text(c)[5:] for c in own_nodes(ps.node) if isinstance(c, ast.Call) and call_text(c).startswith('self._push_')]
    want = ['_push_cpu_stats', '_push_disk_io_stats', '_push_disk_usage_stats', '_push_mem_stats', '_push_net_io_stats',
            '_push_times_stats']
    R.check(r3, sorted(names) == want, 'each host series is pushed exactly once per point', 'align|host', ps.loc(),
            'HostStatisticsInstance.push_statistics pushes %s' % sorted(names))
    up = [c for c in own_nodes(ps.node) if isinstance(c, ast.Call) and call_text(c).startswith('self._push_') and
          len(c.args) == 2]
    R.check(r3, len(up) == 3 and all(ast.unparse(c.args[1]) == 'uptime' for c in up) and
            any(isinstance(c, ast.Call) and call_text(c) == 'self._push_times_stats' and ast.unparse(c.args[0]) == 'uptime'
                for c in own_nodes(ps.node)), 'all series of one point share the same uptime', 'align|uptime', ps.loc(),
            'the timed series are not pushed with the uptime of the point')
    pt = P.unit('HostStatisticsInstance._push_timed_stats')
    fm = factmap(pt)
    ua = [s for s in statements(pt.node) if isinstance(s, ast.Expr) and isinstance(s.value, ast.Call)
          and call_text(s.value) == 'uptimes.append']
    ba = [s for s in statements(pt.node) if isinstance(s, ast.Expr) and isinstance(s.value, ast.Call)
          and call_text(s.value) == 'ref_bytes_list.append']
    ok = len(ua) == 1 and len(ba) == 1 and {tuple(f) for f in fm.at(ua[0])} == {tuple(f) for f in fm.at(ba[0])} == \
        {('new_bytes_list is None', False)} and \
        any(isinstance(l, ast.For) and ast.unparse(l.iter) == 'zip(new_bytes_list, ref_bytes)' and
            any(x is ba[0] for x in ast.walk(l)) for l in own_nodes(pt.node)) and \
        not any(isinstance(l, ast.For) and any(x is ua[0] for x in l.body) and 'zip' in ast.unparse(l.iter)
                for l in own_nodes(pt.node))
    R.check(r3, ok, 'a known entity gets one uptime and one value per series', 'align|timed-known', pt.loc(),
            '_push_timed_stats does not append exactly one uptime and one value per series for a known entity')
    dl = [s for s in statements(pt.node) if isinstance(s, ast.Delete) and ast.unparse(s.targets[0]) == 'ref_stats[intf]']
    da = [s for s in statements(pt.node) if isinstance(s, ast.Expr) and isinstance(s.value, ast.Call)
          and call_text(s.value) == 'destroy_list.append']
    ok = len(dl) == 1 and len(da) == 1 and ('new_bytes_list is None', True) in {tuple(f) for f in fm.at(da[0])}
    R.check(r3, ok, 'a vanished entity is dropped with its whole history', 'align|timed-obsolete', pt.loc(),
            '_push_timed_stats does not delete the entities absent from the new sample')
    nw = [a for a in own_nodes(pt.node) if isinstance(a, ast.Assign) and ast.unparse(a.targets[0]) == 'ref_stats[intf]']
    ok = len(nw) == 1 and ast.unparse(nw[0].value) == '([uptime], [[new_data_bytes] for new_data_bytes in new_bytes_list])'
    R.check(r3, ok, 'a new entity starts with one time and one value per series', 'align|timed-new', pt.loc(),
            '_push_timed_stats creates a new entity as %s' % [ast.unparse(a.value) for a in nw])
    pp = [c for c in own_nodes(pt.node) if isinstance(c, ast.Call) and call_text(c) == 'io_stats.pop']
    R.check(r3, len(pp) == 1 and [ast.unparse(a) for a in pp[0].args] == ['intf', 'None'],
            'known entities are consumed from the new sample, the rest is new', 'align|timed-pop', pt.loc(),
            '_push_timed_stats does not pop known entities from io_stats')
    pi = P.unit('ProcStatisticsInstance.push_statistics')
    cnt = {}
    for u, st, lst in apps:
        if u is pi:
            cnt[lst] = cnt.get(lst, 0) + 1
    R.check(r3, cnt == {'self.cpu': 1, 'self.mem': 1, 'self.times': 1}, 'process cpu, mem and times get one value per '
            'point', 'align|process', pi.loc(), 'ProcStatisticsInstance.push_statistics appends %s' % cnt)

    # ---------------------------------------------------------------- R4
    r4 = R.rule('R4', 'drop on stop', 'the history of a stopped process is dropped: the holder pops the instance entry '
                'under pid == 0 and restarts it under a PID change; the compiler deletes an empty holder; the collector '
                'removes the entry it found and posts pid 0', 5)
    hp = P.unit('ProcStatisticsHolder.push_statistics')
    fm = factmap(hp)
    pops = [c for c in own_nodes(hp.node) if isinstance(c, ast.Call) and call_text(c) == 'self.instance_map.pop']
    fz = {(f[0], f[1]) for f in fm.closed(pops[0])} if len(pops) == 1 else set()
    ok = len(pops) == 1 and bool(fz) and holds_when(fz, {"process_stats['pid']": 0}) is True and \
        holds_when(fz, {"process_stats['pid']": 1}) is False and ast.unparse(pops[0].args[0]) == 'identifier'
    R.check(r4, ok, 'pid 0 drops the history of that process on that instance', 'drop|holder', hp.loc(),
            'ProcStatisticsHolder.push_statistics pops under %s' % [sorted(tuple(f) for f in fm.at(c)) for c in pops])
    mk = [a for a in own_nodes(hp.node) if isinstance(a, ast.Assign) and ast.unparse(a.targets[0]) == 'self.instance_map[identifier]']
    ok = len(mk) == 1 and any(pol and t in (
        "not identifier_instance or not process_stats['pid'] == self.instance_map.get(identifier, (0, None))[0]",
        "not self.instance_map.get(identifier, (0, None))[1] or not process_stats['pid'] == "
        "self.instance_map.get(identifier, (0, None))[0]") for t, pol in fm.closed(mk[0]))
    R.check(r4, ok, 'a new PID starts a fresh history', 'drop|pid-change', hp.loc(),
            'ProcStatisticsHolder.push_statistics does not restart the history under `not identifier_instance or pid != '
            'ref_pid`')
    cp = P.unit('ProcStatisticsCompiler.push_statistics')
    fm = factmap(cp)
    dl = [s for s in statements(cp.node) if isinstance(s, ast.Delete) and
          closed_text(cp, s.targets[0]) == "self.holder_map[process_stats['namespec']]"]
    ok = len(dl) == 1 and {('proc_holder', True), ('proc_holder.instance_map', False)} <= {tuple(f) for f in fm.at(dl[0])}
    R.check(r4, ok, 'an empty holder is deleted', 'drop|compiler', cp.loc(),
            'ProcStatisticsCompiler.push_statistics does not delete a holder whose instance_map is empty')
    mkh = [a for a in own_nodes(cp.node) if isinstance(a, ast.Assign) and "self.holder_map[process_stats['namespec']]" in
           [closed_text(cp, t) for t in a.targets]]
    ok = len(mkh) == 1 and {("process_stats['pid'] > 0", True), ('proc_holder', False)} <= fm.closed(mkh[0])
    R.check(r4, ok, 'a holder is created only for a live process', 'drop|create', cp.loc(),
            'a holder is created under %s' % [sorted(tuple(f) for f in fm.at(a)) for a in mkh])
    up = P.unit('ProcessStatisticsCollector.update_process_list')
    fm = factmap(up)
    pops = [c for c in own_nodes(up.node) if isinstance(c, ast.Call) and call_text(c) == 'self.processes.pop']
    un = [a for a in own_nodes(up.node) if isinstance(a, ast.Assign) and isinstance(a.targets[0], ast.Tuple)
          and ast.unparse(a.value) == 'found']
    ok = len(pops) == 1 and len(un) == 1 and [ast.unparse(a) for a in pops[0].args] == [ast.unparse(un[0].targets[0].elts[0])] \
        and fm.has(pops[0], "proc_stats['process'].pid == pid", False)
    R.check(r4, ok, 'the collector removes the very entry it found for that namespec', 'drop|collector', up.loc(),
            'update_process_list pops %s: another process than the one whose PID changed is evicted and its stop is '
            'never published' % [ast.unparse(c) for c in pops])

    # the collector keeps a process in its list as long as the process exists: the entry popped for a collection is put
    # back whatever the collection gave (a transient OSError gives ()), and only a vanished process (None) is dropped -
    # otherwise its later stop is never published and its history is never dropped
    cr = P.unit('ProcessStatisticsCollector.collect_recent_process')
    fmc = factmap(cr)
    ins = [c for c in own_nodes(cr.node) if isinstance(c, ast.Call) and call_text(c) == 'self.processes.insert']
    ok = len(ins) == 1 and not any(t in ('proc_stats', 'instant_process_statistics(proc)') or t.startswith('proc_stats[')
                                   or (t.startswith('instant_process_statistics(') and pol)
                                   for t, pol in {(x[0], x[1]) for x in fmc.at(ins[0])} if pol
                                   and not t.endswith(' is None')) and \
        any(t.endswith(' is None') and not pol and 'proc' in t for t, pol in {(x[0], x[1]) for x in fmc.at(ins[0])})
    R.check(r4, ok, 'an entry is put back in the collection list unless the process has vanished', 'drop|reinsert',
            cr.loc(), 'collect_recent_process re-inserts the entry under %s: after a failed collection (OSError) the '
            'process is forgotten and its stop is never published' % [sorted((x[0], x[1]) for x in fmc.at(c)) for c in ins])
    # every psutil access to the MAIN process is covered by the handlers that turn a vanished process into None and an
    # OSError into (): an exception escaping there kills the collector with the entry already popped
    ip = P.unit('statscollector:instant_process_statistics')
    fmi = factmap(ip)
    pname = ip.node.args.args[0].arg
    uncovered = []
    n_acc = 0
    for c in own_nodes(ip.node):
        if isinstance(c, ast.Call) and isinstance(c.func, ast.Attribute) and isinstance(c.func.value, ast.Name) and \
                c.func.value.id == pname:
            n_acc += 1
            hs = fmi.handlers.get(id(c), ()) or fmi.handlers.get(id(fmi.stmt_of.get(id(c), c)), ())
            caught = {nm for level in hs for handler in level for nm in handler}
            if not ({'psutil.NoSuchProcess', 'NoSuchProcess'} & caught and {'OSError'} & caught):
                uncovered.append('%s.%s' % (pname, c.func.attr))
    R.check(r4, n_acc >= 2 and not uncovered, 'psutil accesses to the main process are covered', 'drop|psutil-covered',
            ip.loc(), 'instant_process_statistics calls %s outside the try that handles NoSuchProcess / OSError' % uncovered)

    # ---------------------------------------------------------------- R5
    r5 = R.rule('R5', 'wrap guard', 'an I/O rate is computed only when BOTH counters did not wrap (ref_in <= last_in and '
                'ref_out <= last_out as two separate comparisons) and only for an entity present in the reference; the '
                'CPU ratio guards a null total', 3)
    io = P.unit('statscompiler:io_statistics')
    fm = factmap(io)
    st_ = [a for a in own_nodes(io.node) if isinstance(a, ast.Assign) and ast.unparse(a.targets[0]) == 'io_stats[intf]']
    fs = {tuple(f) for f in fm.at(st_[0])} if len(st_) == 1 else set()
    fc = {(f[0], f[1]) for f in fm.closed(st_[0])} if len(st_) == 1 else set()
    key = closed_text(io, st_[0].targets[0].slice) if len(st_) == 1 else 'intf'
    present = {(t % k, pol) for k in ('intf', key) for t, pol in (
        ('%s in ref_values.keys()', True), ('%s in ref_values', True), ('ref_values.get(%s) is None', False),
        ('ref_values.get(%s)', True), ('ref_values.get(%s, None) is None', False))}
    ok = {('ref_in <= last_in', True), ('ref_out <= last_out', True)} <= fs and bool(present & (fs | fc))
    R.check(r5, ok, 'a rate needs both counters non-decreasing and a reference for the entity', 'wrap|io_statistics',
            io.loc(), 'io_statistics stores a rate under %s (needs ref_in <= last_in, ref_out <= last_out and intf in '
            'ref_values)' % sorted(fs))
    defs = {a.targets[0].id: ast.unparse(a.value) for a in own_nodes(io.node) if isinstance(a, ast.Assign)
            and isinstance(a.targets[0], ast.Name)}
    ok = defs.get('in_bytes') == 'last_in - ref_in' and defs.get('out_bytes') == 'last_out - ref_out'
    R.check(r5, ok, 'the rate is the non-negative counter difference', 'wrap|difference', io.loc(),
            'io_statistics computes %s' % {k: defs.get(k) for k in ('in_bytes', 'out_bytes')})
    cu = P.unit('statscompiler:cpu_statistics')
    # every division of cpu_statistics (and of the module functions it calls) is guarded by its own denominator:
    # in the true arm of `.. if den else ..` or under the fact `den`
    ok, n_div = True, 0
    todo, seen_fn = [cu], set()
    while todo:
        fu = todo.pop()
        if fu.qual in seen_fn:
            continue
        seen_fn.add(fu.qual)
        fmu = factmap(fu)
        guarded = set()
        for x in ast.walk(fu.node):
            if isinstance(x, ast.IfExp):
                for d in ast.walk(x.body):
                    if isinstance(d, ast.BinOp) and isinstance(d.op, (ast.Div, ast.FloorDiv, ast.Mod)) and \
                            ast.unparse(d.right) == ast.unparse(x.test):
                        guarded.add(id(d))
        for x in own_nodes(fu.node):
            if isinstance(x, ast.BinOp) and isinstance(x.op, (ast.Div, ast.FloorDiv, ast.Mod)) and \
                    not isinstance(x.right, ast.Constant):
                n_div += 1
                st_ = fmu.stmt_of.get(id(x), x)
                if id(x) not in guarded and not fmu.has(st_, ast.unparse(x.right), True):
                    ok = False
            if isinstance(x, ast.Call) and isinstance(x.func, ast.Name) and x.func.id in fu.mod.funcs:
                todo.append(fu.mod.funcs[x.func.id])
    ok = ok and n_div >= 1
    R.check(r5, ok, 'the CPU ratio guards a null interval', 'wrap|cpu-total', cu.loc(),
            'cpu_statistics divides by total without guarding total == 0')
    R.assume('CPU in [0,100] per core and finiteness of rates are numeric properties and are NOT decided.')
