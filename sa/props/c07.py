"""C07 - Silent instances are detected in bounded time, live ones never declared lost (structural clauses)."""
import ast
from ..model import own_nodes, AnalysisError
from ..paths import statements, expand_self, factmap, must_call, call_text, returns, ctext
from ..typestate import InstanceTypestate
from ..fsm import Fsm
from . import shared


def rule_typestate(P, R, rid, ts, only_from=None):
    """every assignment `x.state = K` on a SupvisorsInstanceStatus is a legal transition from every state x may be
    in at that point (so the setter's InvalidTransition is dead)."""
    sites = ts.sites()
    R.require(len(sites) >= 9, 'only %d instance-state assignment sites found' % len(sites))
    for unit, node, recv, new in sorted(sites, key=lambda s: (s[0].qual, s[1].lineno)):
        cur, notes = ts.cur(unit, node, recv)
        bad = ts.valid(cur, new)
        what = '%s: %s.state = %s from %s' % (unit.qual, recv, new, sorted(cur))
        if not bad:
            R.ok(rid, what, unit.loc(node))
        for c in bad:
            R.fail(rid, 'transition|%s|%s->%s' % (unit.qual, c, new), unit.loc(node),
                   '%s assigns %s.state = %s while the instance may be %s (possible states here: %s%s); '
                   '_Transitions[%s] = %s refuses it: InvalidTransition is raised inside the handler' %
                   (unit.qual, recv, new, c, sorted(cur), ('; callers: ' + '; '.join(notes[:4])) if notes else '',
                    c, sorted(ts.T[c])), what)
    return sites


def run(P, R):
    ts = InstanceTypestate(P)
    T = ts.T
    tloc = ts.cls.mod.relpath + ':%d' % ts.tnode.lineno
    R.stats['predicate_summaries'] = {k: sorted(v) for k, v in ts.summ.items()}
    for need in ('is_checking', 'has_active_state', 'is_inactive', 'running', 'isolated'):
        R.require(need in ts.summ, 'predicate summary for SupvisorsInstanceStatus.%s could not be derived' % need)

    # R1 (typestate of every assignment site) is a condition of "no internal error" (C16.R2), not of this
    # property: an illegal assignment is refused by the setter (R2) and never changes the reported state.
    # ---------------------------------------------------------------- R2
    r2 = R.rule('R2', 'guarded single writer', '_state of SupvisorsInstanceStatus is written only in __init__ and in the '
                'state setter, where the store is dominated by the refusal (raise) of check_transition(new_state); '
                'check_transition is membership in _Transitions[current state]', 3)
    n = 0
    for u in P.all_units():
        for x in own_nodes(u.node):
            if isinstance(x, ast.Attribute) and isinstance(x.ctx, ast.Store) and x.attr == '_state':
                env = P.env(u, u.cls)
                t = env.typeof(x.value)
                if t and t[0] == 'inst' and t[1] is not ts.cls:
                    continue
                if t is None and u.cls is not ts.cls:
                    continue
                n += 1
                ok = u.qual in ('SupvisorsInstanceStatus.__init__', 'SupvisorsInstanceStatus.state[set]')
                R.check(r2, ok, '%s writes _state' % u.qual, 'raw-writer|%s' % u.qual, u.loc(x),
                        '%s writes SupvisorsInstanceStatus._state directly, bypassing the transition check' % u.qual)
    R.require(n >= 2, 'writes of SupvisorsInstanceStatus._state not found')
    setter = P.unit('SupvisorsInstanceStatus.state[set]')
    fm = factmap(setter)
    st = [s for s in own_nodes(setter.node) if isinstance(s, ast.Assign) and ast.unparse(s.targets[0]) == 'self._state']
    ok = len(st) == 1 and fm.has(st[0], 'self.check_transition(new_state)', True) and \
        isinstance(st[0].value, ast.Name) and st[0].value.id == setter.node.args.args[1].arg
    R.check(r2, ok, 'the setter stores only a value accepted by check_transition', 'setter|guard', setter.loc(),
            'the instance state setter stores a value without the dominating refusal of check_transition()')
    ct = P.unit('SupvisorsInstanceStatus.check_transition')
    rs = [ast.unparse(v) for v, f, nn in returns(ct) if v is not None]
    # (an extra refusal - `return False` - can only forbid more transitions than the table)
    if len(rs) > 1 and 'False' in rs:
        rs = [x for x in rs if x != 'False']
    R.check(r2, rs in (['new_state in self._Transitions[self.state]'], ['new_state in self._Transitions[self._state]']),
            'check_transition is membership in the row of the current state', 'setter|check_transition', ct.loc(),
            'check_transition returns %s' % rs)

    # ---------------------------------------------------------------- R3
    r3 = R.rule('R3', 'table constraints', 'the instance graph is the documented one: ISOLATED final; RUNNING entered '
                'only from CHECKED; FAILED leads only to STOPPED/ISOLATED; STOPPED only to CHECKING; CHECKED only to '
                'RUNNING/FAILED; RUNNING only to FAILED; CHECKING to STOPPED/CHECKED/FAILED/ISOLATED; FAILED reachable '
                'from every active state', 8)
    WANT = {'STOPPED': {'CHECKING'}, 'CHECKING': {'STOPPED', 'CHECKED', 'FAILED', 'ISOLATED'},
            'CHECKED': {'RUNNING', 'FAILED'}, 'RUNNING': {'FAILED'}, 'FAILED': {'STOPPED', 'ISOLATED'},
            'ISOLATED': set()}
    for s in sorted(WANT):
        extra, missing = sorted(T[s] - WANT[s]), sorted(WANT[s] - T[s])
        R.check(r3, not extra, '%s has no undocumented successor' % s, 'row-extra|%s|%s' % (s, ','.join(extra)), tloc,
                '_Transitions[%s] admits undocumented successor(s) %s' % (s, extra))
        R.check(r3, not missing, '%s has all documented successors' % s, 'row-missing|%s|%s' % (s, ','.join(missing)),
                tloc, '_Transitions[%s] lacks documented successor(s) %s' % (s, missing))

    # ---------------------------------------------------------------- R4
    r4 = R.rule('R4', 'site facts', 'the local instance is never ISOLATED: every assignment of ISOLATED is under the '
                'negated fact "status is the local instance"; is_valid() filters isolated origins', 2)
    n = 0
    for unit, node, recv, new in ts.sites():
        if new == 'ISOLATED':
            n += 1
            f = factmap(unit)
            ok = f.has(node, '%s.identifier == self.local_identifier' % recv, False)
            R.check(r4, ok, '%s isolates only a remote instance' % unit.qual, 'isolate-local|%s' % unit.qual,
                    unit.loc(node), '%s assigns ISOLATED without excluding the local instance' % unit.qual)
    R.require(n >= 1, 'no assignment of ISOLATED found')
    iv = P.unit('Context.is_valid')
    rs = [(v, facts) for v, facts, nn in returns(iv) if v is not None and not (isinstance(v, ast.Constant))]
    ok = len(rs) == 1 and ('status.isolated', False) in {tuple(f) for f in rs[0][1]}
    R.check(r4, ok, 'is_valid() returns a status only when it is not isolated', 'is_valid|isolated', iv.loc(),
            'Context.is_valid can return the status of an ISOLATED instance')

    # ---------------------------------------------------------------- R5
    r5 = R.rule('R5', 'must-call chain', 'detection is unconditional: on_tick -> fsm.on_timer_event -> '
                'context.on_timer_event (every instance tested with is_inactive(local counter), FAILED assigned) then '
                'next(); next() of EVERY state class calls Context.invalidate_failed (through _check_instances) before '
                'anything else; invalidate_failed invalidates every FAILED instance and every process running there '
                'through invalidate_identifier, which builds a FATAL payload and re-synthesises the status', 14)
    fsm = Fsm(P)
    u = P.unit('FiniteStateMachine.on_timer_event')
    R.check(r5, must_call(u.node, lambda c: call_text(c) == 'self.context.on_timer_event'),
            'fsm.on_timer_event always runs the inactivity check', 'chain|fsm.on_timer_event', u.loc(),
            'FiniteStateMachine.on_timer_event does not always call context.on_timer_event')
    u = P.unit('Context.on_timer_event')
    fm = factmap(u)
    loops = [x for x in u.node.body if isinstance(x, ast.For)]
    ok = len(loops) == 1 and ast.unparse(loops[0].iter) == 'self.instances.values()'
    asg = [s for s in own_nodes(u.node) if isinstance(s, ast.Assign) and ast.unparse(s.targets[0]).endswith('.state')]
    ok = ok and len(asg) == 1 and ts.ev.const(asg[0].value) == 'FAILED'
    if ok:
        var = loops[0].target.id
        facts = {tuple(f) for f in fm.at(asg[0])}
        ok = len(facts) == 1 and next(iter(facts))[1] and next(iter(facts))[0] in (
            '%s.is_inactive(sequence_counter)' % var, "%s.is_inactive(event['sequence_counter'])" % var)
        seqdef = [s for s in u.node.body if isinstance(s, ast.Assign) and ast.unparse(s.targets[0]) == 'sequence_counter']
        ok = ok and (not seqdef or ast.unparse(seqdef[0].value) == "event['sequence_counter']")
    R.check(r5, ok, 'every instance is tested with is_inactive(local tick counter) and declared FAILED when inactive',
            'chain|context.on_timer_event', u.loc(), 'Context.on_timer_event does not declare FAILED exactly the '
            'instances for which is_inactive(event sequence counter) holds, over all instances')
    for st in fsm.members:
        c = fsm.instances[st]
        nxt = P.resolved(c, 'next')
        # follow the super().next() chain down to the base and check _check_instances -> invalidate_failed
        chain_ok, cur_cls = False, c
        seen = set()
        u2 = nxt
        while u2 is not None and u2 not in seen:
            seen.add(u2)
            first = _first_call(u2)
            if first == 'self._check_instances':
                chain_ok = True
                break
            if first == 'super().next':
                mem = P.member(c, 'next', after=u2.cls)
                u2 = mem[2] if mem and mem[0] == 'method' else None
            else:
                break
        ci = P.resolved(c, '_check_instances')
        ok = chain_ok and must_call(ci.node, lambda k: call_text(k) == 'self.context.invalidate_failed')
        R.check(r5, ok, '%s.next() starts by acknowledging FAILED instances' % c.name, 'chain|next|%s' % c.name,
                nxt.loc(), '%s.next() does not start with _check_instances() -> context.invalidate_failed(): a FAILED '
                'peer is not invalidated at the next tick in state %s' % (c.name, st))
    u = P.unit('Context.invalidate_failed')
    fm = factmap(u)
    inv = [k for k in own_nodes(u.node) if isinstance(k, ast.Call) and call_text(k) == 'self.invalidate']
    loops = [x for x in u.node.body if isinstance(x, ast.For)]
    ok = len(inv) == 1 and len(loops) == 1 and ast.unparse(loops[0].iter) == 'self.instances.values()' and \
        {tuple(f) for f in fm.at(inv[0])} == {('%s.state == SupvisorsInstanceStates.FAILED' % loops[0].target.id, True)} \
        and len(inv[0].args) == 1 and not inv[0].keywords
    R.check(r5, ok, 'every FAILED instance (and only those) is invalidated, fence left to the auto_fence rule',
            'chain|invalidate_failed', u.loc(), 'invalidate_failed does not call invalidate(status) for exactly the '
            'FAILED instances')
    pi = [k for k in own_nodes(u.node) if isinstance(k, ast.Call) and isinstance(k.func, ast.Attribute)
          and k.func.attr == 'invalidate_identifier']
    ok = len(pi) == 1 and any(isinstance(x, ast.Call) and isinstance(x.func, ast.Attribute) and
                              x.func.attr == 'running_processes' for x in own_nodes(u.node)) and \
        {tuple(f) for f in fm.at(pi[0])} <= {('%s.state == SupvisorsInstanceStates.FAILED' % loops[0].target.id, True)} \
        if loops else False
    R.check(r5, ok, 'every process running on the lost instance is invalidated there', 'chain|invalidate-processes',
            u.loc(), 'invalidate_failed does not call invalidate_identifier on all running processes of the instance')
    pf = [k for k in own_nodes(u.node) if isinstance(k, ast.Call) and call_text(k) == 'self.publish_process_failures']
    # (publishing an empty set publishes nothing: a guard on the argument itself is accepted)
    guarded_on_arg = len(pf) == 1 and len(pf[0].args) == 1 and \
        {(f[0], f[1]) for f in fm.at(pf[0])} <= {(ast.unparse(pf[0].args[0]), True)}
    R.check(r5, must_call(u.node, lambda k: call_text(k) == 'self.publish_process_failures') or guarded_on_arg,
            'process failures are published', 'chain|publish-failures', u.loc(),
            'invalidate_failed does not always publish the process failures')
    u = P.unit('ProcessStatus.invalidate_identifier')
    fm = factmap(u)
    upd = [k for k in own_nodes(u.node) if isinstance(k, ast.Call) and call_text(k) == 'self.update_info']
    payload_fatal = any(isinstance(d, ast.Dict) and any(isinstance(k, ast.Constant) and k.value == 'state' and
                                                        ast.unparse(v) == 'ProcessStates.FATAL'
                                                        for k, v in zip(d.keys, d.values)) for d in own_nodes(u.node))
    ok = len(upd) == 1 and payload_fatal and {tuple(f) for f in fm.at(upd[0])} == {('identifier in self.running_identifiers', True)} \
        and ast.unparse(upd[0].args[0]) == 'identifier'
    R.check(r5, ok, 'a process running on the lost instance gets a FATAL report for that instance',
            'chain|invalidate_identifier', u.loc(), 'invalidate_identifier does not feed update_info(identifier, '
            '{state: FATAL ...}) whenever the process was running on the instance')
    shared.reception_stamp(P, R, r5)
    u = P.unit('Context.invalidate')
    fm = factmap(u)
    iso = [s for s in own_nodes(u.node) if isinstance(s, ast.Assign) and ts.ev.const(s.value) == 'ISOLATED']
    ok = len(iso) == 1 and any(f[1] and isinstance(f.node, ast.BoolOp) and
                               ast.unparse(f.node) == 'fence or (self.supvisors.options.auto_fence and '
                               'self.state_modes.master_state in WORKING_STATES)' for f in fm.at(iso[0]))
    R.check(r5, ok, 'ISOLATED exactly when fenced by the peer, or auto_fence with the Master in a working state',
            'chain|invalidate-fence', u.loc(), 'Context.invalidate assigns ISOLATED under another condition than '
            '"fence or (auto_fence and master_state in WORKING_STATES)"')
    stopped = [s for s in own_nodes(u.node) if isinstance(s, ast.Assign) and ts.ev.const(s.value) == 'STOPPED']
    R.check(r5, len(stopped) == 2 and len(iso) == 1 and must_assign_state(u),
            'invalidate() always leaves FAILED/CHECKING (STOPPED or ISOLATED on every path)', 'chain|invalidate-total',
            u.loc(), 'Context.invalidate has a path that assigns no state')

    # ---------------------------------------------------------------- R6
    r6 = R.rule('R6', 'normalised comparison', 'is_inactive() is has_active_state() and (local counter - counter at '
                'last tick received) > options.inactivity_ticks, strictly; the reference counter of a peer is the '
                'local counter at reception; a decreasing remote counter (stealth restart) resets it to 0', 4)
    u = P.unit('SupvisorsInstanceStatus.is_inactive')
    param = u.node.args.args[1].arg
    rs = [v for v, f, nn in returns(u) if v is not None]
    defs = {s.targets[0].id: s.value for s in own_nodes(u.node) if isinstance(s, ast.Assign)
            and isinstance(s.targets[0], ast.Name)}
    ok = False
    shape = ''
    if len(rs) == 1 and isinstance(rs[0], ast.BoolOp) and isinstance(rs[0].op, ast.And):
        parts = rs[0].values
        act = [p for p in parts if ast.unparse(p) == 'self.has_active_state()']
        cmp_ = [p for p in parts if isinstance(p, ast.Compare)]
        if act and len(cmp_) == 1 and len(parts) == 2:
            shape = norm_cmp(cmp_[0], defs)
            ok = shape == '(%s - self.times.local_sequence_counter) > self.supvisors.options.inactivity_ticks' % param
    R.check(r6, ok, 'strict threshold on the local tick distance', 'threshold|is_inactive', u.loc(),
            'is_inactive is not `has_active_state() and %s - times.local_sequence_counter > inactivity_ticks` '
            '(normalised comparison found: %s)' % (param, shape or [ast.unparse(r) for r in rs]))
    u = P.unit('SupvisorsTimes.update')
    fm = factmap(u)
    resets = [s for s in own_nodes(u.node) if isinstance(s, ast.Assign) and
              ast.unparse(s.targets[0]) == 'local_sequence_counter' and isinstance(s.value, ast.Constant)
              and s.value.value == 0]
    ok = len(resets) == 1 and {tuple(f) for f in fm.at(resets[0])} == {
        ('remote_sequence_counter < self.remote_sequence_counter', True)}
    R.check(r6, ok, 'a decreasing remote counter forces inactivity (stealth restart)', 'threshold|stealth', u.loc(),
            'SupvisorsTimes.update does not reset the local reference counter under exactly "remote counter decreased"')
    loc_ = [s for s in own_nodes(u.node) if isinstance(s, ast.Assign) and
            ast.unparse(s.targets[0]) == 'local_sequence_counter' and ast.unparse(s.value) == 'remote_sequence_counter']
    ut = P.unit('SupvisorsInstanceStatus.update_tick')
    dflt = [ast.unparse(d) for d in ut.node.args.defaults]
    ok = len(loc_) == 1 and {tuple(f) for f in fm.at(loc_[0])} == {('local_sequence_counter < 0', True)} and dflt == ['-1']
    R.check(r6, ok, 'only the -1 sentinel (local instance) makes a tick its own reference', 'threshold|sentinel', u.loc(),
            'SupvisorsTimes.update takes the remote counter as local reference under %s (expected exactly '
            '`local_sequence_counter < 0`, the -1 default of update_tick): a remote tick received at local counter 0 is '
            'stamped with the remote counter and the peer is never seen inactive' %
            [sorted(tuple(f) for f in fm.at(a)) for a in loc_])
    store = [s for s in own_nodes(u.node) if isinstance(s, ast.Assign) and
             ast.unparse(s.targets[0]) == 'self.local_sequence_counter']
    ok = len(store) == 1 and ast.unparse(store[0].value) == 'local_sequence_counter' and not fm.at(store[0])
    R.check(r6, ok, 'the reference counter is refreshed at every tick received', 'threshold|refresh', u.loc(),
            'SupvisorsTimes.update does not unconditionally store the local reference counter')
    u = P.unit('Context.on_tick_event')
    k = [c for c in own_nodes(u.node) if isinstance(c, ast.Call) and call_text(c) == 'status.update_tick']
    ok = len(k) == 1 and len(k[0].args) == 4 and \
        expand_self(u, k[0].args[3]) == expand_self(u, 'self.local_status.sequence_counter')
    R.check(r6, ok, 'a remote tick is stamped with the current local counter', 'threshold|stamp', u.loc(),
            'Context.on_tick_event does not stamp the tick with self.local_sequence_counter')

    # ---------------------------------------------------------------- R7
    r7 = R.rule('R7', 'bus agreement', 'an XML-RPC transport failure posts INSTANCE_FAILURE for an active remote peer, '
                'and the reader branch of INSTANCE_FAILURE calls on_instance_failure', 3)
    shared.transport_failure_posted(P, R, r7)
    u = P.unit('SupervisorProxyThread.process_event')
    ok = any(isinstance(h, ast.ExceptHandler) and h.type is not None and ast.unparse(h.type) == 'SupervisorProxyException'
             and any(isinstance(c, ast.Call) and call_text(c) == 'self.handle_exception' for s in h.body for c in ast.walk(s))
             for h in own_nodes(u.node))
    # every proxied send of process_event (request, publication AND the notifications forwarded to the local Supervisor)
    # is covered by that handler: an exception escaping there ends the proxy thread, and with it every later
    # INSTANCE_FAILURE notification
    fmp = factmap(u)
    sends = [c for c in own_nodes(u.node) if isinstance(c, ast.Call) and call_text(c) in (
        'self.execute', 'self.publish', 'self.send_remote_comm_event')]
    uncovered = [call_text(c) for c in sends
                 if 'SupervisorProxyException' not in {nm for level in (fmp.handlers.get(id(c), ()) or fmp.handlers.get(
                     id(fmp.stmt_of.get(id(c), c)), ())) for handler in level for nm in handler}]
    ok = ok and len(sends) >= 3 and not uncovered
    R.check(r7, ok, 'every transport failure of a proxied message reaches handle_exception', 'bus|process_event',
            u.loc(), 'process_event does not route SupervisorProxyException to handle_exception for %s' %
            (uncovered or 'its sends'))
    # the reader side: Context.on_instance_failure declares FAILED any peer that is in an active state - CHECKING and
    # CHECKED included (the transition table allows FAILED from each of them), not only RUNNING ones
    oif = P.unit('Context.on_instance_failure')
    fmo = factmap(oif)
    st_ = [a for a in own_nodes(oif.node) if isinstance(a, ast.Assign) and ast.unparse(a.targets[0]) == 'status.state']
    ok = len(st_) == 1 and ast.unparse(st_[0].value) == 'SupvisorsInstanceStates.FAILED' and \
        {(f[0], f[1]) for f in fmo.closed(st_[0])} == {('status.has_active_state()', True)}
    R.check(r7, ok, 'a transport failure makes any active peer FAILED', 'bus|on_instance_failure', oif.loc(),
            'Context.on_instance_failure assigns FAILED under %s (expected: exactly has_active_state())' %
            [sorted((f[0], f[1]) for f in fmo.closed(a)) for a in st_])
    has = P.unit('SupvisorsInstanceStatus.has_active_state')
    rs = [ctext(v) for v, f, n in returns(has) if v is not None]
    ok = len(rs) == 1 and all(('SupvisorsInstanceStates.' + x) in rs[0] for x in ('CHECKING', 'CHECKED', 'RUNNING', 'FAILED')) \
        and 'STOPPED' not in rs[0] and 'ISOLATED' not in rs[0] and rs[0].startswith('self.state in ')
    R.check(r7, ok, 'active = CHECKING, CHECKED, RUNNING or FAILED', 'bus|has_active_state', has.loc(),
            'has_active_state returns %s' % rs)
    u = P.unit('SupervisorListener.read_notification')
    fm = factmap(u)
    k = [c for c in own_nodes(u.node) if isinstance(c, ast.Call) and call_text(c) == 'self.fsm.on_instance_failure']
    ok = len(k) == 1 and fm.has(k[0], 'header == NotificationHeaders.INSTANCE_FAILURE', True)
    R.check(r7, ok, 'the INSTANCE_FAILURE branch declares the failure', 'bus|read_notification', u.loc(),
            'read_notification does not call fsm.on_instance_failure in the INSTANCE_FAILURE branch')
    # the local TICK counter is the clock of the inactivity check: it advances at EVERY Supervisor TICK, whatever
    # happens later in the handler (whose exceptions are swallowed)
    ot = P.unit('SupervisorListener.on_tick')
    fmt = factmap(ot)
    incs = [a for a in own_nodes(ot.node) if isinstance(a, ast.AugAssign) and ast.unparse(a.target) == 'self.counter']
    ok = len(incs) == 1 and isinstance(incs[0].op, ast.Add) and ast.unparse(incs[0].value) == '1' and not fmt.at(incs[0])
    risky = []
    if ok:
        for st in statements(ot.node):
            if st is incs[0]:
                break
            if isinstance(st, (ast.Try, ast.If, ast.For, ast.While, ast.With)):
                continue
            for c in ast.walk(st):
                if isinstance(c, ast.Call):
                    t = call_text(c)
                    if not ('logger' in t.split('.') or t in ('time.monotonic', 'time.time')):
                        risky.append(t)
    R.check(r6, ok and not risky, 'the local TICK counter advances at every TICK, before anything that can fail',
            'threshold|counter', ot.loc(), 'SupervisorListener.on_tick increments self.counter %s: an exception swallowed '
            'by the handler freezes the counter and a silent peer is never declared FAILED' %
            ('after %s' % risky if ok else 'conditionally or not exactly once'))
    # the failure of a remote peer is posted through the proxy to the LOCAL Supervisor: that proxy is re-created when it
    # has not been used for LOCAL_PROXY_DURATION (the http channel is killed after 30 minutes of inactivity)
    px = P.unit('SupervisorProxy.proxy')
    fmp = factmap(px)
    mk = [a for a in own_nodes(px.node) if isinstance(a, ast.Assign) and ast.unparse(a.targets[0]) == 'self._proxy']
    renew = [a for a in mk if any(pol and 'self.last_used' in t and 'LOCAL_PROXY_DURATION' in t for t, pol in fmp.closed(a))]
    fresh = [a for a in own_nodes(px.node) if isinstance(a, ast.Assign) and ast.unparse(a.targets[0]) == 'self.last_used']
    ok = len(renew) == 1 and ast.unparse(renew[0].value) == 'self._get_proxy()' and \
        all(fmp.closed(f) == fmp.closed(renew[0]) for f in fresh)
    R.check(r7, ok, 'the proxy to the local Supervisor is re-created when it expired', 'bus|local-proxy-renewal', px.loc(),
            'SupervisorProxy.proxy does not re-create the local proxy under the expiry test (renewals: %s; last_used reset '
            'under %s): the INSTANCE_FAILURE notification goes out on a dead channel' %
            ([ast.unparse(a) for a in renew], [sorted(fmp.closed(f)) for f in fresh]))
    R.assume('Accuracy/completeness over tick phase offsets and message delays is NOT decided (timing).')
    R.assume('Facts about an instance state are assumed to still hold at the assignment unless a statement on the '
             'path may rewrite it (same-receiver assignment or a call passing the receiver to a state-writing '
             'method): handlers run on the single Supervisor thread.')


def _first_call(unit):
    """text of the first call evaluated by the function body (skipping docstring)."""
    for st in unit.node.body:
        if isinstance(st, ast.Expr) and isinstance(st.value, ast.Constant):
            continue
        for x in ast.walk(st):
            if isinstance(x, ast.Call):
                t = call_text(x)
                if 'logger' in t.split('.'):
                    continue
                # innermost-first is not needed: the repo writes `x = self.f()` / `x = super().next()`
                return t
        return None
    return None


def norm_cmp(c, defs):
    """`a - b > k` after inlining single-use locals, as text."""
    def inl(e):
        if isinstance(e, ast.Name) and e.id in defs:
            return '(' + ast.unparse(defs[e.id]) + ')'
        return ast.unparse(e)
    if len(c.ops) != 1:
        return ast.unparse(c)
    op = {ast.Gt: '>', ast.GtE: '>=', ast.Lt: '<', ast.LtE: '<=', ast.Eq: '==', ast.NotEq: '!='}.get(type(c.ops[0]), '?')
    l, r = inl(c.left), inl(c.comparators[0])
    if op in ('<', '<='):
        l, r, op = r, l, {'<': '>', '<=': '>='}[op]
    if not l.startswith('('):
        l = '(' + l + ')' if ' - ' in l else l
    return '%s %s %s' % (l, op, r)


def must_assign_state(u):
    """every path through the if/elif/else chain of the function assigns `<x>.state`."""
    def assigns(stmts):
        for st in stmts:
            if isinstance(st, ast.Assign) and isinstance(st.targets[0], ast.Attribute) and st.targets[0].attr == 'state':
                return True
            if isinstance(st, ast.If) and st.orelse and assigns(st.body) and assigns(st.orelse):
                return True
        return False
    return assigns(u.node.body)
