"""C04 - Start requests only go to eligible instances with spare load (structural clauses)."""
import ast
from ..model import own_nodes, AnalysisError
from ..paths import ctext, factmap, call_text, returns, must_call
from ..defuse import defuse, closed_text, comp_view, sum_terms
from . import shared


def who_calls(P, attr, exclude_mods=()):
    """[(unit, call node)] for every call `<x>.attr(...)` / `attr(...)` in the package."""
    out = []
    for u in P.all_units():
        if u.mod.short in exclude_mods:
            continue
        for c in own_nodes(u.node):
            if isinstance(c, ast.Call):
                f = c.func
                nm = f.attr if isinstance(f, ast.Attribute) else (f.id if isinstance(f, ast.Name) else None)
                if nm == attr:
                    out.append((u, c))
    return out


def classify_candidates(P, u, e, depth=0):
    """provenance class of a candidate identifier list expression inside unit u."""
    t = ast.unparse(e)
    if isinstance(e, ast.Call):
        f = call_text(e)
        if f.endswith('.possible_node_identifiers'):
            return 'N'
        if f.endswith('.possible_identifiers'):
            recv = f.rsplit('.', 1)[0]
            ty = P.env(u, u.cls).typeof(e.func.value)
            if ty and ty[0] == 'inst' and ty[1].name == 'ProcessStatus':
                return 'P'
            if ty and ty[0] == 'inst' and ty[1].name == 'ApplicationStatus':
                return 'A'
            return 'P' if 'process' in recv.split('.')[-1] else ('A' if 'application' in recv else '?')
        if f == 'self.get_process_identifiers':
            return 'PF'
    if isinstance(e, ast.Attribute) and t == 'self.identifiers':
        return 'S'
    if isinstance(e, ast.Name) and depth < 3:
        classes = set()
        for a in own_nodes(u.node):
            if isinstance(a, ast.Assign) and isinstance(a.targets[0], ast.Name) and a.targets[0].id == e.id:
                classes.add(classify_candidates(P, u, a.value, depth + 1))
        if e.id in [x.arg for x in u.node.args.args]:
            classes.add('param')
        if len(classes) == 1:
            return classes.pop()
        return '?' if not classes else '+'.join(sorted(classes))
    if isinstance(e, ast.ListComp):
        # [x for x in <list> if ...] keeps the class of the iterated list
        return classify_candidates(P, u, e.generators[0].iter, depth + 1)
    return '?'


def valid_only(u):
    """the returned values of a strategy that are NOT provably a candidate of `identifiers` with a true validity.
    Accepted closed forms of a returned value X (M = self.get_loading_and_validity(identifiers, expected_load,
    load_details)):  None;  X under the fact self.is_loading_valid(X, expected_load, load_details)[0] or M[X][0], X being
    each(identifiers) or under `X in identifiers`;  next(k for k, v in M.items() if v[0]);
    self.sort_valid_by_*(M)[..][0] (the sorters keep valid entries only: cap|sorter)."""
    fm = factmap(u)
    M = 'self.get_loading_and_validity(identifiers, expected_load, load_details)'
    bad = []
    for v, f, n in returns(u):
        if v is None or (isinstance(v, ast.Constant) and v.value is None):
            continue
        cv = closed_text(u, v)
        facts = {(x[0], x[1]) for x in fm.closed(n)} if n is not None else set()
        if ('self.is_loading_valid(%s, expected_load, load_details)[0]' % cv, True) in facts or \
                ('%s[%s][0]' % (M, cv), True) in facts:
            if cv == 'each(identifiers)' or ('%s in identifiers' % cv, True) in facts:
                continue
        if cv.startswith('self.sort_valid_by_instance_load(%s)[' % M) or cv.startswith('self.sort_valid_by_node_load(%s)[' % M):
            if cv.endswith('][0]'):
                continue
        if isinstance(v, ast.Call) and call_text(v) == 'next' and v.args and isinstance(v.args[0], (ast.GeneratorExp, ast.ListComp)):
            view = comp_view(u, v.args[0])
            if view['iters'] == [M + '.items()'] and view['elt'] == 'each(%s.items())[0]' % M and \
                    ('each(%s.items())[1][0]' % M, True) in view['conds'] and \
                    (len(v.args) == 1 or ast.unparse(v.args[1]) == 'None'):
                continue
        bad.append('`%s`' % cv[:160])
    return bad


def run(P, R):
    # ---------------------------------------------------------------- R1
    r1 = R.rule('R1', 'who-may-call + def-use', 'a start request is emitted at one point only: '
                'RpcHandler.send_start_process is called only from ProcessStartCommand.start; start() only from '
                'ApplicationStartJobs.process_job, under the facts process.stopped() and command.identifier; the target '
                'identifier of a command is written only by __init__ (None) and update_identifier; every identifier '
                'handed to update_identifier of a start command is the truthiness-tested result of '
                'get_supvisors_instance', 8)
    for u, c in who_calls(P, 'send_start_process'):
        R.check(r1, u.qual == 'ProcessStartCommand.start', '%s emits the start request' % u.qual,
                'emitter|%s' % u.qual, u.loc(c), '%s sends a start request outside ProcessStartCommand.start: it '
                'bypasses the eligibility and load checks of the Starter' % u.qual)
    st = P.unit('ProcessStartCommand.start')
    snd = [c for c in own_nodes(st.node) if isinstance(c, ast.Call) and call_text(c).endswith('.send_start_process')]
    ok = len(snd) == 1 and len(snd[0].args) >= 2 and ast.unparse(snd[0].args[0]) == 'self.identifier' and \
        ast.unparse(snd[0].args[1]) in ('self.process.namespec', 'self.namespec')
    R.check(r1, ok, 'the request targets the identifier stored in the command', 'emitter|target', st.loc(),
            'ProcessStartCommand.start does not send (self.identifier, namespec)')
    pj = P.unit('ApplicationStartJobs.process_job')
    starts = [(u, c) for u, c in who_calls(P, 'start') if isinstance(c.func, ast.Attribute) and
              ast.unparse(c.func.value) in ('command', 'self.command', 'cmd') and u.mod.short == 'commander']
    R.require(starts, 'no call of command.start() found in commander.py')
    for u, c in starts:
        fm = factmap(u)
        fs = fm.closed(c)
        ok = u is pj and ('command.process.stopped()', True) in fs and ('command.identifier', True) in fs
        R.check(r1, ok, 'command.start() only for a stopped process with a chosen identifier',
                'start-guard|%s' % u.qual, u.loc(c), '%s calls command.start() under %s (needs '
                'command.process.stopped() and command.identifier)' % (u.qual, sorted(fs)))
    PC = P.cls('ProcessCommand')
    for u in P.all_units():
        for n in own_nodes(u.node):
            if isinstance(n, ast.Attribute) and isinstance(n.ctx, ast.Store) and n.attr == 'identifier':
                ty = P.env(u, u.cls).typeof(n.value)
                if ty and ty[0] == 'inst' and PC in P.mro(ty[1]):
                    # (withdrawing a target - storing None - can only prevent a request: start() needs a truthy one)
                    stores = [a for a in own_nodes(u.node) if isinstance(a, ast.Assign) and any(t is n for t in a.targets)]
                    withdrawn = bool(stores) and all(isinstance(a.value, ast.Constant) and a.value.value is None
                                                     for a in stores)
                    ok = u.qual in ('ProcessCommand.__init__', 'ProcessCommand.update_identifier') or withdrawn
                    R.check(r1, ok, '%s writes the command identifier' % u.qual, 'identifier-writer|%s' % u.qual,
                            u.loc(n), '%s writes ProcessCommand.identifier directly (only __init__ and '
                            'update_identifier may give a command a target)' % u.qual)
    shared.preassigned_target_withdrawn(P, R, r1)
    for u, c in who_calls(P, 'update_identifier'):
        if u.mod.short != 'commander' or isinstance(c.func.value, ast.Call):       # super().update_identifier
            continue
        if u.cls is not None and u.cls.name in ('ProcessStopCommand',):
            continue
        arg = c.args[0] if c.args else None
        fm = factmap(u)
        src = closed_text(u, arg) if arg is not None else '?'
        ok = src.startswith('get_supvisors_instance(') and (src, True) in fm.closed(c)
        R.check(r1, ok, '%s: update_identifier receives a tested placement result' % u.qual,
                'placement-arg|%s' % u.qual, u.loc(c), '%s hands `%s` (from %s) to update_identifier without it being '
                'the truthiness-tested result of get_supvisors_instance' % (u.qual, ast.unparse(arg) if arg else '?', src[:60]))

    # ---------------------------------------------------------------- R2
    r2 = R.rule('R2', 'provenance of the candidate list', 'the candidate list of every placement whose result is given '
                'to a command comes from the process itself (P: process.possible_identifiers()), from a per-process '
                'filter of the application selection (PF: get_process_identifiers), or from the intersection over all '
                'processes of the application (A: application.possible_identifiers()); a node-level union (N) or the '
                'application selection (S) is only allowed to choose a node or after a per-process filter', 5)
    n_sites = 0
    for u, c in who_calls(P, 'get_supvisors_instance') + who_calls(P, 'get_node'):
        if u.mod.short not in ('commander', 'rpcinterface') or isinstance(c.func, ast.Attribute):
            continue
        R.require(len(c.args) >= 5, '%s: unexpected get_supvisors_instance signature' % u.loc(c))
        klass = classify_candidates(P, u, c.args[2])
        n_sites += 1
        fname = call_text(c)
        if fname == 'get_node':
            R.check(r2, klass in ('N', 'A', 'P'), '%s: node chosen among %s candidates' % (u.qual, klass),
                    'candidates|%s|get_node|%s' % (u.qual, klass), u.loc(c),
                    '%s: get_node candidate list of unknown provenance (%s)' % (u.qual, klass))
            continue
        # does the result reach a command?
        tgt = None
        for a in own_nodes(u.node):
            if isinstance(a, ast.Assign) and a.value is c and isinstance(a.targets[0], ast.Name):
                tgt = a.targets[0].id
        feeds = tgt is not None and any(isinstance(x, ast.Call) and isinstance(x.func, ast.Attribute) and
                                        x.func.attr == 'update_identifier' and x.args and
                                        isinstance(x.args[0], ast.Name) and x.args[0].id == tgt
                                        for x in own_nodes(u.node))
        if not feeds:
            R.check(r2, klass in ('P', 'PF', 'A', 'N', 'S'), '%s: feasibility probe among %s candidates' % (u.qual, klass),
                    'candidates|%s|probe|%s' % (u.qual, klass), u.loc(c), '%s: candidate list of unknown provenance' %
                    u.qual)
            continue
        R.check(r2, klass in ('P', 'PF', 'A'), '%s: placement among %s candidates' % (u.qual, klass),
                'candidates|%s|%s' % (u.qual, klass), u.loc(c),
                '%s assigns to a command an identifier chosen among `%s` (class %s): these instances do not all know '
                'the program of that command (TypeError in update_identifier, or a request to an instance that '
                'cannot start it)' % (u.qual, ast.unparse(c.args[2]), klass))
    R.require(n_sites >= 6, 'only %d placement call sites found' % n_sites)
    gp = P.cls('ApplicationStartJobs').methods.get('get_process_identifiers')
    rs = [v for v, f, n in returns(gp) if v is not None] if gp else []
    if gp is None:
        R.note(r2, 'no per-process filter helper (get_process_identifiers) in this tree')
        gp = P.unit('ApplicationStartJobs.process_job')
        rs = None
    cv = comp_view(gp, rs[0]) if rs and len(rs) == 1 else None
    ok = rs is None or cv is not None and cv['kind'] == 'list' and cv['iters'] == ['self.identifiers'] and \
        cv['elt'] == 'each(self.identifiers)' and cv['conds'] in (
            {('each(self.identifiers) in process.info_map', True), ('process.disabled_on(each(self.identifiers))', False)},
            # disabled_on() written out (its own membership test is the one already made)
            {('each(self.identifiers) in process.info_map', True),
             ("process.info_map[each(self.identifiers)]['disabled']", False)})
    R.check(r2, ok, 'the per-process filter keeps the instances that know the program and have it enabled',
            'candidates|get_process_identifiers', gp.loc(), 'get_process_identifiers is not `[i for i in '
            'self.identifiers if i in process.info_map and not process.disabled_on(i)]`')

    shared.distribution_candidates(P, R, r2)

    # ---------------------------------------------------------------- R3
    r3 = R.rule('R3', 'must-pass-through', 'every selection goes through the RUNNING filter and the 100% node cap: '
                'strategy.get_supvisors_instance hands the strategy object only identifiers of '
                'context.running_identifiers(); each strategy class returns only an identifier whose validity is true; '
                'validity is produced only by is_loading_valid as node_loading + expected_load <= 100 with '
                'node_loading = current node load + pending node requests', 10)
    g = P.unit('strategy:get_supvisors_instance')
    defs = {a.targets[0].id: a.value for a in own_nodes(g.node) if isinstance(a, ast.Assign)
            and isinstance(a.targets[0], ast.Name)}
    calls = [c for c in own_nodes(g.node) if isinstance(c, ast.Call) and isinstance(c.func, ast.Attribute)
             and c.func.attr == 'get_supvisors_instance']
    shared.running_filter(P, R, r3)
    ri = P.unit('Context.running_identifiers')
    R.check(r3, [ast.unparse(v) for v, f, n in returns(ri) if v is not None] ==
            ['self.identifiers_by_states([SupvisorsInstanceStates.RUNNING])'],
            'running_identifiers() is exactly the RUNNING instances', 'running-filter|definition', ri.loc(),
            'Context.running_identifiers does not return the instances in RUNNING state only')
    # load details: both the pending map and the current node loads reach the strategy
    det = None
    if len(calls) == 1 and len(calls[0].args) == 3:
        det = defuse(g).closed(calls[0].args[2])
    lrm = g.node.args.args[4].arg if len(g.node.args.args) >= 5 else '?'
    ok = isinstance(det, ast.Tuple) and len(det.elts) == 3 and ast.unparse(det.elts[0]) == lrm and \
        sorted(ast.unparse(x) for x in det.elts[1:]) == sorted([
            'supvisors.context.get_nodes_load()', 'get_node_load_request_map(supvisors.mapper, %s)' % lrm])
    R.check(r3, ok, 'current node loads and pending requests (per instance and per node) are handed to the strategy',
            'load-details|get_supvisors_instance', g.loc(), 'get_supvisors_instance does not pass (load_request_map, '
            'node requests, node loads) built from context.get_nodes_load() and the pending requests')
    lv = P.unit('AbstractStartingStrategy.is_loading_valid')
    rs = [v for v, f, n in returns(lv) if v is not None]
    # closed forms (sa.defuse): independent of the locals the function uses for its intermediate values
    val, node, inst = shared.loading_terms(P)
    ok = isinstance(val, ast.Compare) and len(val.ops) == 1 and isinstance(val.ops[0], ast.LtE) and \
        P.const_value(lv.mod, val.comparators[0]) == 100
    terms = sum_terms(lv, val.left) if ok else []
    ok = ok and sorted(terms) == sorted(node + ['expected_load'])
    R.check(r3, ok, 'validity is node_loading + expected_load <= 100', 'cap|is_loading_valid', lv.loc(),
            'is_loading_valid returns validity `%s`' % (ast.unparse(rs[0].elts[0]) if rs and isinstance(rs[0], ast.Tuple)
                                                        else '?'))
    mid = 'self.supvisors.context.instances[identifier].supvisors_id.local_view.machine_id'
    want = sorted(['load_details[1].get(%s, 0)' % mid, 'load_details[2].get(%s, 0)' % mid])
    R.check(r3, node == want, 'node_loading = load of the node of the candidate + pending requests on that node',
            'cap|node_loading', lv.loc(), 'is_loading_valid computes node_loading as `%s`' % ' + '.join(node))
    ok = inst == sorted(['self.supvisors.context.instances[identifier].get_load()', 'load_details[0].get(identifier, 0)'])
    R.check(r3, ok, 'the load details are three maps, per-instance requests first', 'cap|unpack', lv.loc(),
            'is_loading_valid does not use load_details as (per-instance requests, <node map>, <node map>): instance '
            'loading is `%s`' % ' + '.join(inst))
    nr = P.unit('strategy:get_node_load_request_map')
    ok = shared.node_requests_summed(nr)
    R.check(r3, ok, 'pending requests are summed per node', 'cap|node-requests', nr.loc(),
            'get_node_load_request_map does not accumulate (+=) the pending loads of the instances of a node')
    nlu = P.unit('Context.get_nodes_load')
    rs = [v for v, f, n in returns(nlu) if v is not None]
    ok = len(rs) == 1 and isinstance(rs[0], ast.DictComp) and \
        ast.unparse(rs[0].generators[0].iter) == 'self.mapper.nodes.items()' and not rs[0].generators[0].ifs and \
        isinstance(rs[0].value, ast.Call) and call_text(rs[0].value) == 'sum' and \
        isinstance(rs[0].value.args[0], (ast.GeneratorExp, ast.ListComp)) and \
        not rs[0].value.args[0].generators[0].ifs and '.get_load()' in ast.unparse(rs[0].value.args[0].elt) and \
        isinstance(rs[0].generators[0].target, ast.Tuple) and \
        ast.unparse(rs[0].value.args[0].generators[0].iter) == ast.unparse(rs[0].generators[0].target.elts[1])
    R.check(r3, ok, 'the node load is the sum of the loads of all its instances', 'cap|nodes-load', nlu.loc(),
            'Context.get_nodes_load is %s' % [ast.unparse(v) for v in rs])
    gl = P.unit('SupvisorsInstanceStatus.get_load')
    ok = any(isinstance(c, ast.Call) and call_text(c) == 'sum' and 'self.running_processes()' in ast.unparse(c)
             and 'rules.expected_load' in ast.unparse(c) for c in own_nodes(gl.node))
    R.check(r3, ok, 'the instance load sums expected_load over the processes running there', 'cap|instance-load',
            gl.loc(), 'SupvisorsInstanceStatus.get_load does not sum rules.expected_load over running_processes()')
    for cname in ('ConfigStrategy', 'LessLoadedStrategy', 'LessLoadedNodeStrategy', 'MostLoadedStrategy',
                  'MostLoadedNodeStrategy', 'LocalStrategy'):
        u = P.unit(cname + '.get_supvisors_instance')
        bad = valid_only(u)
        R.check(r3, not bad, '%s returns only a candidate whose validity is true' % cname,
                'cap|strategy|%s' % cname, u.loc(), '%s.get_supvisors_instance returns %s, which is not a candidate of '
                '`identifiers` whose validity (is_loading_valid / get_loading_and_validity(identifiers, ..)) is true' %
                (cname, bad))
    for nm in ('sort_valid_by_instance_load', 'sort_valid_by_node_load'):
        u = P.unit('AbstractStartingStrategy.' + nm)
        comps = [comp_view(u, c) for c in own_nodes(u.node) if isinstance(c, ast.ListComp)]
        ok = len(comps) == 1 and comps[0]['iters'] == ['loading_validity_map.items()'] and \
            comps[0]['conds'] == {('each(loading_validity_map.items())[1][0]', True)}
        R.check(r3, ok, '%s keeps valid entries only' % nm, 'cap|sorter|%s' % nm, u.loc(),
                '%s does not filter on validity' % nm)
    lv_map = P.unit('AbstractStartingStrategy.get_loading_and_validity')
    ok = any(cv['kind'] == 'dict' and cv['iters'] == ['identifiers'] and not cv['conds'] and
             cv['elt'][0] == 'each(identifiers)' and cv['elt'][1].startswith('self.is_loading_valid(each(identifiers), ')
             for cv in (comp_view(lv_map, c) for c in own_nodes(lv_map.node) if isinstance(c, ast.DictComp)))
    R.check(r3, ok, 'validity of every candidate comes from is_loading_valid', 'cap|validity-source', lv_map.loc(),
            'get_loading_and_validity does not compute validity with is_loading_valid for each candidate')

    # ---------------------------------------------------------------- R4
    r4 = R.rule('R4', 'filter facts', 'possible_identifiers() of a process returns only instances that know the program '
                '(identifier in info_map), have it enabled, and are allowed by the rules (WILDCARD: all known '
                'instances, else mapper.filter(rules)); the application variants filter disabled programs and the rule',
                4)
    u = P.unit('ProcessStatus.possible_identifiers')
    rs = [v for v, f, n in returns(u) if v is not None]
    cv = comp_view(u, rs[0]) if len(rs) == 1 else None
    ok = cv is not None and cv['kind'] == 'list' and cv['iters'] == ['filtered_identifiers'] and \
        cv['elt'] == 'each(filtered_identifiers)' and cv['conds'] == {
            ('each(filtered_identifiers) in self.info_map', True), ('self.disabled_on(each(filtered_identifiers))', False)}
    R.check(r4, ok, 'known + enabled filter on the rule-filtered list', 'filter|process', u.loc(),
            'ProcessStatus.possible_identifiers does not return [i for i in filtered_identifiers if i in info_map and '
            'not disabled_on(i)]')
    asg = [(closed_text(u, a.value), factmap(u).closed(a)) for a in own_nodes(u.node)
           if isinstance(a, ast.Assign) and ast.unparse(a.targets[0]) == 'filtered_identifiers']
    ok = ('list(self.supvisors.mapper.instances.keys())', {('WILDCARD in self.rules.identifiers', True)}) in asg and \
         ('self.supvisors.mapper.filter(self.rules.identifiers)', {('WILDCARD in self.rules.identifiers', False)}) in asg and \
        len(asg) == 2
    R.check(r4, ok, 'the identifiers rule is applied (wildcard or explicit list)', 'filter|process-rule', u.loc(),
            'ProcessStatus.possible_identifiers builds filtered_identifiers as %s' % sorted(a for a, f in asg))
    do = P.unit('ProcessStatus.disabled_on')
    R.check(r4, [ast.unparse(v) for v, f, n in returns(do) if v is not None] ==
            ["identifier in self.info_map and self.info_map[identifier]['disabled']"],
            'disabled_on reads the per-instance disabled flag', 'filter|disabled_on', do.loc(),
            'ProcessStatus.disabled_on is not `identifier in info_map and info_map[identifier][disabled]`')
    for nm in ('possible_identifiers', 'possible_node_identifiers'):
        u = P.unit('ApplicationStatus.' + nm)
        comps = [c for c in own_nodes(u.node) if isinstance(c, ast.SetComp)]
        ok = any([ast.unparse(i) for i in c.generators[0].ifs] == ["not info['disabled']"] for c in comps)
        rs = [v for v, f, n in returns(u) if v is not None]
        ok = ok and len(rs) == 1 and isinstance(rs[0], ast.ListComp) and \
            ast.unparse(rs[0].generators[0].iter) == 'filtered_identifiers'
        R.check(r4, ok, 'ApplicationStatus.%s filters disabled programs and applies the application rule' % nm,
                'filter|application|%s' % nm, u.loc(), 'ApplicationStatus.%s does not filter disabled entries / does '
                'not iterate the rule-filtered list' % nm)
    u = P.unit('ApplicationStatus.possible_identifiers')
    ok = any(isinstance(c, ast.Call) and isinstance(c.func, ast.Attribute) and c.func.attr == 'intersection'
             for c in own_nodes(u.node))
    R.check(r4, ok, 'the application candidates are the intersection over all its processes', 'filter|intersection',
            u.loc(), 'ApplicationStatus.possible_identifiers no longer intersects the per-process sets')

    shared.disability_accepted(P, R, r4)

    # ---------------------------------------------------------------- R5
    r5 = R.rule('R5', 'must-call in branch', 'when no instance qualifies nothing is sent and the process is reported '
                'FATAL: in process_job the branch without command.identifier calls fail_command(... "No resource '
                'available") and process_failure and not start(); failure_state of the start jobs is FATAL', 3)
    fm = factmap(pj)
    fc = [c for c in own_nodes(pj.node) if isinstance(c, ast.Call) and call_text(c) == 'self.fail_command']
    pf = [c for c in own_nodes(pj.node) if isinstance(c, ast.Call) and call_text(c) == 'self.process_failure']
    ok = len(fc) == 1 and len(pf) == 1 and all(
        {('command.process.stopped()', True), ('command.identifier', False)} <= fm.closed(c) for c in fc + pf) \
        and any(isinstance(a, ast.Constant) and a.value == 'No resource available' for a in fc[0].args)
    R.check(r5, ok, 'no resource: forced failure + starting failure strategy, no request', 'no-resource|process_job',
            pj.loc(), 'process_job does not call fail_command("No resource available") and process_failure exactly '
            'when the stopped process got no identifier')
    m = P.member(P.cls('ApplicationStartJobs'), 'failure_state')
    R.check(r5, bool(m) and m[0] == 'cattr' and ast.unparse(m[2][1]) == 'ProcessStates.FATAL',
            'a start given up is reported FATAL', 'no-resource|failure_state', pj.loc(),
            'ApplicationStartJobs.failure_state is not ProcessStates.FATAL')
    fcu = P.unit('ApplicationJobs.fail_command')
    ok = any(isinstance(c, ast.Call) and call_text(c) == 'self.supvisors.listener.force_process_state' and
             len(c.args) == 5 and ast.unparse(c.args[3]) == 'self.failure_state' for c in own_nodes(fcu.node))
    R.check(r5, ok, 'fail_command forces failure_state through the listener', 'no-resource|fail_command', fcu.loc(),
            'fail_command does not call listener.force_process_state(..., self.failure_state, reason)')

    # ---------------------------------------------------------------- R6
    r6 = R.rule('R6', 'de-duplication', 'a process already being started or planned by the same instance is not '
                'requested again: add_commands appends a command only when neither a current nor a planned command '
                'exists for the same process name AND identifier; Starter.start_process / start_application only plan '
                'stopped processes / applications', 4)
    ac = P.unit('ApplicationJobs.add_commands')
    fm = factmap(ac)
    app = [c for c in own_nodes(ac.node) if isinstance(c, ast.Call) and isinstance(c.func, ast.Attribute)
           and c.func.attr == 'append']
    CMD = 'each(each(jobs.items())[1])'        # the command of the loops over the (sequence, commands) given
    got = fm.closed(app[0]) if len(app) == 1 else set()
    want = {('%s(%s.process.process_name, %s.identifier)' % (fn, CMD, CMD), False)
            for fn in ('self.get_current_command', 'self.get_planned_command')}
    R.check(r6, got == want, 'append only when not already current or planned', 'dedup|add_commands', ac.loc(),
            'add_commands appends under %s' % sorted(got))
    for nm, fn in (('current_job', 'self.get_current_command'), ('planned_job', 'self.get_planned_command')):
        ok = ('%s(%s.process.process_name, %s.identifier)' % (fn, CMD, CMD), False) in got
        R.check(r6, ok, '%s is searched by process name and identifier' % nm, 'dedup|%s' % nm, ac.loc(),
                'add_commands does not look up %s with (process name, identifier): %s' % (nm, sorted(got)))
    gc = P.unit('ApplicationJobs.get_command')
    want = ctext('(not identifier or identifier == command.identifier) and command.process.process_name == process_name')
    ok = any(ctext(x) == want for x in ast.walk(gc.node) if isinstance(x, ast.BoolOp))
    R.check(r6, ok, 'get_command matches identifier (when given) and process name', 'dedup|get_command', gc.loc(),
            'get_command no longer matches on `(not identifier or identifier == command.identifier) and process name`')
    for q, fact in (('Starter.start_process', 'process.stopped()'), ('Starter.start_application', 'application.stopped()')):
        u = P.unit(q)
        fm = factmap(u)
        eff = [c for c in own_nodes(u.node) if isinstance(c, ast.Call) and
               call_text(c) in ('self.command_class', 'self.store_application', 'self.job_class')]
        ok = bool(eff) and all(fm.has(c, fact, True) for c in eff)
        R.check(r6, ok, '%s plans only under %s' % (q, fact), 'dedup|%s' % q, u.loc(),
                '%s plans a start without the fact %s' % (q, fact))

    # ---------------------------------------------------------------- R7
    r7 = R.rule('R7', 'idempotent re-handshake', 'node membership is a set: every insertion into '
                'SupvisorsMapper.nodes[...] reachable from the identification (re-run at every handshake) is guarded by '
                'a `not in` fact (or is a set add)', 1)
    idu = P.unit('SupvisorsMapper.identify')
    fm = factmap(idu)
    ins = [c for c in own_nodes(idu.node) if isinstance(c, ast.Call) and isinstance(c.func, ast.Attribute)
           and c.func.attr in ('append', 'add', 'insert', 'extend')]
    node_ins = []
    for c in ins:
        base = c.func.value
        btxt = ast.unparse(base)
        local_from_nodes = any(isinstance(a, ast.Assign) and isinstance(a.targets[0], ast.Name) and
                               a.targets[0].id == btxt and 'self.nodes' in ast.unparse(a.value)
                               for a in own_nodes(idu.node))
        if 'self.nodes' in btxt or local_from_nodes:
            node_ins.append(c)
    R.require(node_ins, 'SupvisorsMapper.identify: insertion into self.nodes not found')
    for c in node_ins:
        arg = ast.unparse(c.args[0]) if c.args else '?'
        guarded = c.func.attr == 'add' or any((not f[1]) and f[0].startswith(arg + ' in ') for f in fm.at(c))
        R.check(r7, guarded, 'the identifier is added to its node only once', 'node-duplicate|SupvisorsMapper.identify',
                idu.loc(c), 'SupvisorsMapper.identify appends the identifier to mapper.nodes[machine_id] at every '
                'handshake: after a re-identification the instance is listed twice and Context.get_nodes_load counts '
                'its load twice')

    # ---------------------------------------------------------------- R8
    r8 = R.rule('R8', 'provenance of the pending-load argument', 'the load-request map given to a placement is the '
                'aggregation over ALL current start jobs of the commander ("plus the starts already requested there"), '
                'not only the requests of the application being placed', 4)
    ST = P.cls('Starter')
    agg = P.unit('Starter.get_load_requests')
    R.require(any(isinstance(c, ast.Call) and call_text(c) == 'application_job.get_load_requests'
                  for c in own_nodes(agg.node)), 'Starter.get_load_requests no longer aggregates the application jobs')
    for u, c in who_calls(P, 'get_supvisors_instance') + who_calls(P, 'get_node'):
        if u.mod.short != 'commander' or isinstance(c.func, ast.Attribute):
            continue
        arg = c.args[4]
        src = None
        if isinstance(arg, ast.Name):
            asg = [a for a in own_nodes(u.node) if isinstance(a, ast.Assign) and isinstance(a.targets[0], ast.Name)
                   and a.targets[0].id == arg.id]
            src = sorted({ast.unparse(a.value) for a in asg})
        local = src == ['self.get_load_requests()'] and u.cls is not None and \
            P.cls('ApplicationJobs') in P.mro(u.cls)
        R.check(r8, not local, '%s places with the commander-wide pending load' % u.qual,
                'application-local-load|%s' % u.qual, u.loc(c),
                '%s places a process with the pending requests of its own application only (%s); starts requested at '
                'the same time by another application of the same sequence are ignored: two applications can each be '
                'granted the same spare load (e.g. 2 x 60%% on an empty instance)' % (u.qual, src))
    shared.pending_load_definition(P, R, r8)
    R.assume('The numeric load accounting itself and the concurrency of several application starts beyond R8 are NOT '
             'decided.')
