"""C12 - All instances agree on where processes run, and that view is true (structural clauses only)."""
import ast
from ..model import own_nodes, AnalysisError
from ..paths import factmap, call_text, returns, must_call
from .c13 import rule_consumer_guards

PAIRS = {   # listener handler -> (local apply, publication)
    'on_process_state': ('self.fsm.on_process_state_event', 'self.rpc_handler.send_process_state_event'),
    'on_process_added': ('self.fsm.on_process_added_event', 'self.rpc_handler.send_process_added_event'),
    'on_process_removed': ('self.fsm.on_process_removed_event', 'self.rpc_handler.send_process_removed_event'),
    'on_process_disability': ('self.fsm.on_process_disability_event', 'self.rpc_handler.send_process_disability_event'),
    'on_group_added': ('self.fsm.on_process_added_event', 'self.rpc_handler.send_process_added_event'),
    'on_group_removed': ('self.fsm.on_process_removed_event', 'self.rpc_handler.send_process_removed_event'),
    'force_process_state': ('self.fsm.on_process_state_event', 'self.rpc_handler.send_process_state_event'),
}
READERS = {   # publication header -> (sender in RpcHandler, handler called by read_publication)
    'TICK': ('send_tick_event', 'self.fsm.on_tick_event'),
    'PROCESS': ('send_process_state_event', 'self.fsm.on_process_state_event'),
    'PROCESS_ADDED': ('send_process_added_event', 'self.fsm.on_process_added_event'),
    'PROCESS_REMOVED': ('send_process_removed_event', 'self.fsm.on_process_removed_event'),
    'PROCESS_DISABILITY': ('send_process_disability_event', 'self.fsm.on_process_disability_event'),
    'HOST_STATISTICS': ('send_host_statistics', 'self.on_host_statistics'),
    'PROCESS_STATISTICS': ('send_process_statistics', 'self.on_process_statistics'),
    'STATE': ('send_state_event', 'self.fsm.on_state_event'),
}


def rule_snapshot_when_authorized(P, R, r3):
    """check_instance transfers the peer's state & modes and process table exactly when the peer is AUTHORIZED (an
    INCONSISTENT or refused peer is never admitted - shared with C13), and before the result is pushed."""
    ci = P.unit('SupervisorProxy.check_instance')
    fm = factmap(ci)
    order = [(call_text(c), c) for c in sorted((c for c in own_nodes(ci.node) if isinstance(c, ast.Call)),
                                               key=lambda c: (c.lineno, c.col_offset))]
    names = [t for t, c in order]
    auth = ('authorization == AuthorizationTypes.AUTHORIZED', True)
    ok = True
    for t in ('self._transfer_states_modes', 'self._transfer_process_info'):
        cs = [c for n, c in order if n == t]
        ok = ok and len(cs) == 1 and {tuple(f) for f in fm.at(cs[0])} == {auth}
    push = [c for n, c in order if n.endswith('.push_notification')]
    ok = ok and len(push) == 1 and not fm.at(push[0]) and \
        names.index('self._transfer_process_info') < names.index(call_text(push[0])) and \
        names.index('self._transfer_states_modes') < names.index('self._transfer_process_info')
    R.check(r3, ok, 'state & modes and process snapshot are posted before the authorization result',
            'snapshot|check_instance', ci.loc(), 'check_instance does not call _transfer_states_modes and '
            '_transfer_process_info (under AUTHORIZED) before pushing the AUTHORIZATION notification')


def run(P, R):
    # ---------------------------------------------------------------- R1
    r1 = R.rule('R1', 'pairing', 'in SupervisorListener each of the seven process-related handlers applies the event '
                'locally (fsm.on_*) and publishes it (rpc_handler.send_*) with the SAME payload variable, under the same '
                'facts: a path doing one without the other makes the local and remote databases diverge', 7)
    for h, (loc, pub) in PAIRS.items():
        u = P.unit('SupervisorListener.' + h)
        fm = factmap(u)
        lc = [c for c in own_nodes(u.node) if isinstance(c, ast.Call) and call_text(c) == loc]
        pc = [c for c in own_nodes(u.node) if isinstance(c, ast.Call) and call_text(c) == pub]
        ok = len(lc) == 1 and len(pc) == 1
        why = 'local apply x%d, publication x%d' % (len(lc), len(pc))
        if ok:
            la, pa = ast.unparse(lc[0].args[-1]), ast.unparse(pc[0].args[0])
            same_facts = {tuple(f) for f in fm.at(lc[0])} == {tuple(f) for f in fm.at(pc[0])}
            local_status = ast.unparse(lc[0].args[0]) == 'self.local_status'
            ok = la == pa and same_facts and local_status and isinstance(lc[0].args[-1], ast.Name)
            why = 'local payload `%s` vs published `%s`, same facts: %s, local status: %s' % (la, pa, same_facts,
                                                                                            local_status)
            # the payload must not be modified between the two calls
            a, b = sorted(((lc[0].lineno, lc[0].col_offset), (pc[0].lineno, pc[0].col_offset)))
            rebound = [s for s in own_nodes(u.node) if isinstance(s, ast.Assign) and a < (s.lineno, s.col_offset) < b and
                       any(isinstance(t, ast.Name) and t.id == la for tg in s.targets for t in ast.walk(tg))]
            ok = ok and not rebound
        R.check(r1, ok, '%s applies and publishes the same payload on the same paths' % h, 'pair|%s' % h, u.loc(),
                'SupervisorListener.%s does not pair %s and %s on the same payload and paths (%s)' % (h, loc, pub, why))

    # (the local consumer must not alter the payload that is published after it: same obligation as C10.R3)
    from . import shared as _shared
    _shared.forced_payload_copied(P, R, r1)

    # ---------------------------------------------------------------- R2
    r2 = R.rule('R2', 'writer/reader table agreement', 'every PublicationHeaders member has exactly one sender in '
                'RpcHandler and one reader branch in read_publication calling the handler of the same kind with the '
                'published data; the proxy forwards to a peer under `TICK or has_active_state()`; push_publication '
                'reaches every known peer but the local instance', 18)
    members = P.enum_members('PublicationHeaders')
    R.require(sorted(members) == sorted(READERS), 'PublicationHeaders members changed: %s' % members)
    RH = P.cls('RpcHandler')
    senders = {}
    for nm, u in RH.methods.items():
        for c in own_nodes(u.node):
            if isinstance(c, ast.Call) and call_text(c) == 'self.push_publication' and len(c.args) == 2:
                h = ast.unparse(c.args[0])
                if h.startswith('PublicationHeaders.'):
                    senders.setdefault(h.split('.')[1], []).append((nm, ast.unparse(c.args[1]), u))
    rp = P.unit('SupervisorListener.read_publication')
    fm = factmap(rp)
    readers = {}
    for c in own_nodes(rp.node):
        if isinstance(c, ast.Call) and (call_text(c).startswith('self.fsm.') or call_text(c).startswith('self.on_')):
            hs = [f[0].split('.')[-1] for f in fm.at(c) if f[1] and f[0].startswith('header == PublicationHeaders.')]
            if len(hs) == 1:
                readers.setdefault(hs[0], []).append(c)
    for m in members:
        snd, hdl = READERS[m]
        s = senders.get(m, [])
        ok = len(s) == 1 and s[0][0] == snd and s[0][1] == s[0][2].node.args.args[1].arg
        R.check(r2, ok, '%s is sent by RpcHandler.%s with its payload' % (m, snd), 'pub|sender|%s' % m, RH.mod.relpath,
                'PublicationHeaders.%s is sent by %s' % (m, [(x[0], x[1]) for x in s]))
        r = readers.get(m, [])
        ok = len(r) == 1 and call_text(r[0]) == hdl and ast.unparse(r[0].args[-1]) == 'event_data'
        R.check(r2, ok, '%s is read by %s(event_data)' % (m, hdl), 'pub|reader|%s' % m, rp.loc(),
                'read_publication handles %s with %s' % (m, [ast.unparse(x)[:60] for x in r]))
    pp = P.unit('RpcHandler.push_publication')
    c = [x for x in own_nodes(pp.node) if isinstance(x, ast.Call) and call_text(x) == 'self.proxy_server.push_publication']
    ok = len(c) == 1 and ast.unparse(c[0].args[0]) == '(publication_type.value, publication_body)'
    R.check(r2, ok, 'the header value and the body travel together', 'pub|envelope', pp.loc(),
            'RpcHandler.push_publication pushes %s' % [ast.unparse(x.args[0]) for x in c])
    hd = [a for a in own_nodes(rp.node) if isinstance(a, ast.Assign) and ast.unparse(a.targets[0]) == 'header']
    R.check(r2, len(hd) == 1 and ast.unparse(hd[0].value) == 'PublicationHeaders(event_type)', 'the reader decodes the '
            'header with the same enum', 'pub|decode', rp.loc(), 'read_publication decodes the header with %s' %
            [ast.unparse(a.value) for a in hd])
    # (forwarding filter and fan-out are C13.R3 obligations too; repeated here as they condition agreement)
    pub = P.unit('SupervisorProxy.publish')
    fmp = factmap(pub)
    sd = [x for x in own_nodes(pub.node) if isinstance(x, ast.Call) and call_text(x) == 'self.send_remote_comm_event']
    ok = len(sd) == 1 and {tuple(f) for f in fmp.at(sd[0])} == {
        ('publication_type == PublicationHeaders.TICK or self.status.has_active_state()', True)}
    R.check(r2, ok, 'every publication is forwarded to an active peer (TICK always)', 'pub|forward', pub.loc(),
            'SupervisorProxy.publish forwards under %s' % [sorted(tuple(f) for f in fmp.at(x)) for x in sd])
    ps = P.unit('SupervisorProxyServer.push_publication')
    fms = factmap(ps)
    pm = [x for x in own_nodes(ps.node) if isinstance(x, ast.Call) and call_text(x) == 'proxy.push_message']
    ok = len(pm) == 1 and {tuple(f) for f in fms.at(pm[0])} == {('identifier == self.local_identifier', False),
                                                                ('identifier == self.local_identifier', False),
                                                                ('proxy', True)} and \
        any(isinstance(l, ast.For) and ast.unparse(l.iter) == 'self.supvisors.mapper.instances' for l in own_nodes(ps.node))
    R.check(r2, ok, 'the fan-out covers every known instance but the local one', 'pub|fan-out', ps.loc(),
            'SupervisorProxyServer.push_publication does not push to every mapper instance except the local one')

    # ---------------------------------------------------------------- R3
    r3 = R.rule('R3', 'must-call + order', 'snapshot at handshake: check_instance, when AUTHORIZED, transfers the state & '
                'modes and the process information BEFORE the AUTHORIZATION notification is pushed (ALL_INFO must be '
                'handled while the peer is still CHECKING); ALL_INFO is loaded through load_processes for every entry; '
                'the handshake is triggered when a first tick moves a peer from STOPPED to CHECKING', 7)
    rule_snapshot_when_authorized(P, R, r3)
    tp = P.unit('SupervisorProxy._transfer_process_info')
    ok = any("supvisors.get_all_local_process_info" in ast.unparse(c) for c in own_nodes(tp.node) if isinstance(c, ast.Call)) \
        and any(ast.unparse(a.value) == '(NotificationHeaders.ALL_INFO.value, all_info)' for a in own_nodes(tp.node)
                if isinstance(a, ast.Assign))
    R.check(r3, ok, 'the snapshot is the peer\'s own list of local processes, posted as ALL_INFO', 'snapshot|transfer',
            tp.loc(), '_transfer_process_info does not post get_all_local_process_info() as ALL_INFO')
    rn = P.unit('SupervisorListener.read_notification')
    fmn = factmap(rn)
    c = [x for x in own_nodes(rn.node) if isinstance(x, ast.Call) and call_text(x) == 'self.fsm.on_all_process_info']
    ok = len(c) == 1 and fmn.has(c[0], 'header == NotificationHeaders.ALL_INFO', True) and \
        [ast.unparse(a) for a in c[0].args] == ['status', 'event_data']
    R.check(r3, ok, 'ALL_INFO is handed to on_all_process_info with the sender status', 'snapshot|reader', rn.loc(),
            'read_notification does not call fsm.on_all_process_info(status, event_data) for ALL_INFO')
    lp = P.unit('Context.load_processes')
    loops = [l for l in own_nodes(lp.node) if isinstance(l, ast.For) and ast.unparse(l.iter) == 'all_info']
    ok = len(loops) == 1 and any(isinstance(c, ast.Call) and call_text(c) == 'self.setdefault_process' and
                                 [ast.unparse(a) for a in c.args] == ['status.identifier', loops[0].target.id]
                                 for c in ast.walk(loops[0])) and \
        any(isinstance(c, ast.Call) and call_text(c) == 'status.add_process' for c in ast.walk(loops[0]))
    R.check(r3, ok, 'every entry of the snapshot is stored under the identifier of its sender', 'snapshot|load', lp.loc(),
            'load_processes does not store every info of all_info with setdefault_process(status.identifier, info)')
    sp = P.unit('Context.setdefault_process')
    ok = must_call(sp.node, lambda c: call_text(c) == 'process.add_info' and
                   [ast.unparse(a) for a in c.args] == ['identifier', 'info'])
    R.check(r3, ok, 'the per-instance information is recorded for new and known processes alike', 'snapshot|add_info',
            sp.loc(), 'setdefault_process does not always call process.add_info(identifier, info)')
    for q, recv in (('Context.on_tick_event', 'status'), ('Context.on_local_tick_event', 'self.local_status')):
        u = P.unit(q)
        fmu = factmap(u)
        sc = [c for c in own_nodes(u.node) if isinstance(c, ast.Call)
              and call_text(c) == 'self.supvisors.rpc_handler.send_check_instance']
        ok = len(sc) == 1 and fmu.has(sc[0], '%s.state == SupvisorsInstanceStates.STOPPED' % recv, True)
        R.check(r3, ok, '%s starts a handshake on the first tick of a STOPPED peer' % q, 'snapshot|trigger|%s' % q,
                u.loc(), '%s does not request check_instance exactly when the peer is STOPPED' % q)

    # ---------------------------------------------------------------- R4
    r4 = R.rule('R4', 'consumer guards', 'events are accepted from CHECKED/RUNNING peers only and stored under the '
                'identifier of the sender (same obligations as C13.R4)', 11)
    rule_consumer_guards(P, R, r4)
    u = P.unit('Context.on_process_state_event')
    c = [x for x in own_nodes(u.node) if isinstance(x, ast.Call) and call_text(x) == 'process.update_info']
    ok = len(c) == 1 and [ast.unparse(a) for a in c[0].args] == ['status.identifier', 'event']
    R.check(r4, ok, 'a process event updates the entry of its sender', 'accept|update_info-target', u.loc(),
            'on_process_state_event calls update_info(%s)' % [', '.join(ast.unparse(a) for a in x.args) for x in c])
    # R5: what every instance computes from the same reports: the "running" vocabulary, and the invalidation of the
    # processes of a lost instance
    r5 = R.rule('R5', 'definitions (shared with C05, C09, C11)', 'running() is state in RUNNING_STATES; running_on(i) is '
                'running() and i in running_identifiers; an instance lists as running every process for which '
                'running_on(its identifier), whatever its own state: these decide which processes are declared lost with '
                'an instance, identically on every instance', 4)
    from . import shared
    shared.running_definitions(P, R, r5)
    R.assume('Equality of N replicated databases under all interleavings, and truth w.r.t. the real Supervisors, are '
             'NOT decided; R1-R4 are the structural conditions for it.')
