"""C03 - Start sequences are honoured for applications and their processes (structural clauses)."""
import ast
from ..model import own_nodes, AnalysisError
from ..paths import factmap, call_text, returns, must_call
from .. import supstates
from . import shared
from ..callgraph import CallGraph


def pickup_binding(P, cname):
    """what `self.pickup_logic` is on an instance of class cname: class attribute through the MRO, overridden by an
    assignment in an __init__ of the MRO."""
    c = P.cls(cname)
    for k in P.mro(c):
        init = k.methods.get('__init__')
        if init:
            for a in own_nodes(init.node):
                if isinstance(a, ast.Assign) and ast.unparse(a.targets[0]) == 'self.pickup_logic':
                    return ast.unparse(a.value), init.loc(a)
        if 'pickup_logic' in k.cattrs:
            return ast.unparse(k.cattrs['pickup_logic'][1]), k.mod.relpath + ':%d' % k.node.lineno
    return None, c.mod.relpath


def rule_pickup(P, R, rid, table):
    for cname, want in table:
        got, where = pickup_binding(P, cname)
        R.check(rid, got == want, '%s picks the next group with %s' % (cname, want), 'pickup|%s' % cname, where,
                '%s.pickup_logic is %s instead of %s: the sequence is walked in the wrong order' % (cname, got, want))


def rule_next_when_empty(P, R, rid):
    """the next group is popped only when the current one is empty, and it is the one chosen by pickup_logic."""
    for q, cur, plan in (('ApplicationJobs.next', 'self.current_jobs', 'self.planned_jobs'),
                         ('Commander.next', 'self.current_jobs', 'self.planned_jobs')):
        u = P.unit(q)
        fm = factmap(u)
        pops = [c for c in own_nodes(u.node) if isinstance(c, ast.Call) and call_text(c) == plan + '.pop']
        if len(pops) != 1:
            # the group is not (or not only) popped from the attribute itself: e.g. from a local copy / alias of it, which
            # sa.normalise does not look through when a callee may re-bind the attribute in the meantime
            other = [ast.unparse(c.func) for c in own_nodes(u.node) if isinstance(c, ast.Call) and
                     isinstance(c.func, ast.Attribute) and c.func.attr == 'pop']
            R.fail(rid, 'pop-guard|%s' % q, u.loc(), '%s does not pop the next group from %s exactly once (pops: %s): a '
                   'local alias does not follow %s when a failure strategy re-binds it to clear the plan' %
                   (q, plan, other, plan))
            continue
        fs = {tuple(f) for f in fm.at(pops[0])}
        ok = (cur, False) in fs and (plan, True) in fs
        R.check(rid, ok, '%s pops the next group only when no current job is left' % q, 'pop-guard|%s' % q,
                u.loc(pops[0]), '%s pops the next sequence under %s (needs: %s empty)' % (q, sorted(fs), cur))
        key = pops[0].args[0] if pops[0].args else None
        kdef = [a for a in own_nodes(u.node) if isinstance(a, ast.Assign) and isinstance(key, ast.Name)
                and isinstance(a.targets[0], ast.Name) and a.targets[0].id == key.id]
        ok = len(kdef) == 1 and ast.unparse(kdef[0].value) == 'self.pickup_logic(%s)' % plan
        R.check(rid, ok, '%s pops the key chosen by pickup_logic over the planned jobs' % q, 'pop-key|%s' % q,
                u.loc(pops[0]), '%s pops `%s` which is not self.pickup_logic(%s)' %
                (q, ast.unparse(key) if key is not None else '?', plan))
    u = P.unit('Commander.next')
    fm = factmap(u)
    dels = [d for d in own_nodes(u.node) if isinstance(d, ast.Delete) and
            ast.unparse(d.targets[0]).startswith('self.current_jobs[')]
    ok = len(dels) == 1 and {tuple(f) for f in fm.at(dels[0])} == {('application_job.in_progress()', False)}
    R.check(rid, ok, 'an application leaves the current group only when it has nothing planned or in progress',
            'done-guard|Commander.next', u.loc(), 'Commander.next removes an application from current_jobs under %s' %
            [sorted(tuple(f) for f in fm.at(d)) for d in dels])
    for q in ('ApplicationJobs.in_progress', 'Commander.in_progress'):
        u = P.unit(q)
        rs = [ast.unparse(v) for v, f, n in returns(u) if v is not None]
        ok = rs in (['len(self.planned_jobs) > 0 or len(self.current_jobs) > 0'],
                    ['len(self.current_jobs) > 0 or len(self.planned_jobs) > 0'],
                    ['bool(self.planned_jobs) or bool(self.current_jobs)'])
        R.check(rid, ok, '%s counts planned and current jobs' % q, 'in_progress|%s' % q, u.loc(),
                '%s returns %s' % (q, rs))
    u = P.unit('ApplicationJobs.next')
    app = [c for c in own_nodes(u.node) if isinstance(c, ast.Call) and call_text(c) == 'self.current_jobs.append']
    fm = factmap(u)
    ok = len(app) == 1 and any(f[0] == 'self.process_job(command)' and f[1] for f in fm.at(app[0]))
    R.check(rid, ok, 'a command joins the current group exactly when its request was queued', 'queued|ApplicationJobs.next',
            u.loc(), 'ApplicationJobs.next does not append the command to current_jobs under `self.process_job(command)`')


def plan_before_trigger(P, G, R, rid, qual, planner):
    """inside the planning loop of `qual`, no call can reach Commander.next (the whole plan is stored first), and
    next() is called after the loop."""
    u = P.unit(qual)
    loops = [n for n in u.node.body if isinstance(n, ast.For)]
    R.require(len(loops) == 1, '%s: expected one planning loop' % qual)
    env = P.env(u, u.cls)
    cnext = P.unit('Commander.next')
    bad = []
    for c in ast.walk(loops[0]):
        if isinstance(c, ast.Call) and 'logger' not in call_text(c).split('.'):
            tg = env.targets(c) or []
            for t in tg:
                # a literal trigger=False argument disables the trigger
                params = [a.arg for a in t[1].node.args.args[1:]]
                off = False
                if 'trigger' in params:
                    i = params.index('trigger')
                    val = c.args[i] if i < len(c.args) else next((k.value for k in c.keywords if k.arg == 'trigger'), None)
                    off = isinstance(val, ast.Constant) and val.value is False
                seen = G.reach([t])
                if any(n[1] is cnext for n in seen) and not off:
                    bad.append(c)
    R.check(rid, not bad, '%s stores the whole plan before triggering' % qual, 'plan-first|%s' % qual,
            u.loc(bad[0]) if bad else u.loc(), '%s calls %s inside its planning loop, which can trigger Commander.next '
            'before all applications are planned: an application is handled before those of a %s sequence' %
            (qual, call_text(bad[0]) if bad else '', 'higher' if 'Stopper' in qual else 'lower'))
    after = [s for s in u.node.body[u.node.body.index(loops[0]) + 1:]
             if isinstance(s, ast.Expr) and isinstance(s.value, ast.Call) and call_text(s.value) == 'self.next']
    planned = any(isinstance(c, ast.Call) and call_text(c) == planner for c in ast.walk(loops[0]))
    R.check(rid, bool(after) and planned, '%s triggers once, after the loop' % qual, 'plan-first|%s|trigger' % qual,
            u.loc(), '%s does not call %s in its loop and self.next() after it' % (qual, planner))


def rule_restart_sequence(P, R, r7):
    """restart_sequence is refused while ANY instance still has start / stop jobs (shared with C17)."""
    u = P.unit('RPCInterface.restart_sequence')
    fm = factmap(u)
    rs = [c for c in own_nodes(u.node) if isinstance(c, ast.Call) and call_text(c) == 'self._raise' and c.args
          and 'BAD_SUPVISORS_STATE' in ast.unparse(c.args[0])]
    sa_ = [c for c in own_nodes(u.node) if isinstance(c, ast.Call) and call_text(c) == 'self.supvisors.starter.start_applications']
    # the distribution is only reached with both Supvisors-wide sets empty; each refusal is caused by one of them
    busy = {'self.supvisors.state_modes.starting_identifiers', 'self.supvisors.state_modes.stopping_identifiers'}
    ok = bool(rs) and len(sa_) == 1 and all((c.lineno, c.col_offset) < (sa_[0].lineno, sa_[0].col_offset) for c in rs) and \
        {(b, False) for b in busy} <= {tuple(f) for f in fm.at(sa_[0])} and \
        all(any(f[1] and f[0] in busy for f in fm.at(c)) for c in rs) and \
        {f[0] for c in rs for f in fm.at(c) if f[1]} >= busy
    R.check(r7, ok, 'jobs in progress on any instance forbid a new distribution', 'restart_sequence|busy', u.loc(),
            'restart_sequence does not raise BAD_SUPVISORS_STATE under `state_modes.starting_identifiers or '
            'state_modes.stopping_identifiers` (found under %s)' % [sorted(tuple(f) for f in fm.at(c)) for c in rs])
    for nm, fld in (('starting_identifiers', 'starting_jobs'), ('stopping_identifiers', 'stopping_jobs')):
        pu = P.unit('SupvisorsStateModes.' + nm)
        rr = [v for v, f, n in returns(pu) if v is not None]
        ok = len(rr) == 1 and isinstance(rr[0], ast.ListComp) and \
            ast.unparse(rr[0].generators[0].iter) == 'self.instance_state_modes.items()' and \
            [ast.unparse(i) for i in rr[0].generators[0].ifs] == ['state_modes.%s' % fld]
        R.check(r7, ok, '%s lists every instance whose %s flag is set' % (nm, fld), 'restart_sequence|%s' % nm, pu.loc(),
                'SupvisorsStateModes.%s does not list the instances of instance_state_modes having %s' % (nm, fld))


def run(P, R):
    st = supstates.load()
    R.stats['process_states_source'] = st['source']
    PS = st['members']

    # ---------------------------------------------------------------- R1
    r1 = R.rule('R1', 'constant binding through the hierarchy', 'pickup_logic resolved for Starter and '
                'ApplicationStartJobs is the builtin min (lowest sequence first)', 2)
    rule_pickup(P, R, r1, (('Starter', 'min'), ('StarterModel', 'min'), ('ApplicationStartJobs', 'min'),
                           ('ApplicationStartJobsModel', 'min')))

    # ---------------------------------------------------------------- R2
    r2 = R.rule('R2', 'must-pass-through', 'in ApplicationJobs.next and Commander.next the next group is popped only '
                'under the fact "current_jobs is empty", the popped key is pickup_logic(planned_jobs); an application '
                'leaves the current group only when not in_progress(); in_progress() counts planned and current jobs', 7)
    rule_next_when_empty(P, R, r2)
    plan_before_trigger(P, CallGraph(P), R, r2, 'Starter.start_applications', 'self.store_application')

    # ---------------------------------------------------------------- R3
    r3 = R.rule('R3', 'interval guard', 'sequence 0 is never started automatically: the start plan of '
                'Starter.store_application keeps only keys seq > 0; start_applications stores an application only '
                'under rules.start_sequence > 0; get_start_sequenced_processes filters seq > 0', 3)
    u = P.unit('Starter.store_application')
    comps = [c for c in own_nodes(u.node) if isinstance(c, ast.DictComp)]
    ok = any(ast.unparse(c.generators[0].iter) == 'application.start_sequence.items()' and
             [ast.unparse(i) for i in c.generators[0].ifs] == ['seq > 0'] for c in comps)
    R.check(r3, ok, 'the start plan only keeps positive sequences', 'seq0|store_application', u.loc(),
            'Starter.store_application does not filter `seq > 0` over application.start_sequence')
    u = P.unit('Starter.start_applications')
    fm = factmap(u)
    sc = [c for c in own_nodes(u.node) if isinstance(c, ast.Call) and call_text(c) == 'self.store_application']
    # (whatever the spelling - `> 0` around the call or `<= 0: continue` in front of it - the facts at the call are
    # contradicted by the values 0 and -1 and satisfied by 1)
    from ..paths import holds_when
    seqf = {(f[0], f[1]) for f in fm.at(sc[0]) if 'application.rules.start_sequence' in f[0]} if len(sc) == 1 else set()
    K = 'application.rules.start_sequence'
    ok = len(sc) == 1 and bool(seqf) and holds_when(seqf, {K: 0}) is False and holds_when(seqf, {K: -1}) is False and \
        holds_when(seqf, {K: 1}) is True
    R.check(r3, ok, 'automatic start only for applications with start_sequence > 0', 'seq0|start_applications', u.loc(),
            'Starter.start_applications stores an application without the fact rules.start_sequence > 0')
    u = P.unit('ApplicationStatus.get_start_sequenced_processes')
    rs = [v for v, f, n in returns(u) if v is not None]
    ok = len(rs) == 1 and isinstance(rs[0], ast.ListComp) and \
        any(ast.unparse(i) == 'seq > 0' for g in rs[0].generators for i in g.ifs)
    R.check(r3, ok, 'the sequenced processes exclude sequence 0', 'seq0|get_start_sequenced_processes', u.loc(),
            'get_start_sequenced_processes does not filter seq > 0')

    # ---------------------------------------------------------------- R4
    r4 = R.rule('R4', 'exhaustiveness + result table', 'ProcessStartCommand.on_event returns a ProcessRequestResult for '
                'each of the 8 ProcessStates (no state reaches the implicit None); SUCCESS only for RUNNING without a '
                'pending wait_exit, or an expected EXITED under wait_exit; STARTING/BACKOFF (and RUNNING waiting for '
                'exit) are IN_PROGRESS; every other state FAILED; ApplicationJobs.on_event removes the command and calls '
                'next() under result in [SUCCESS, FAILED] and process_failure under FAILED', 12)
    u = P.unit('ProcessStartCommand.on_event')
    svar = 'process_state'
    sdef = [a for a in own_nodes(u.node) if isinstance(a, ast.Assign) and ast.unparse(a.targets[0]) == svar]
    R.require(len(sdef) == 1 and ast.unparse(sdef[0].value) == "instance_info['state']",
              'ProcessStartCommand.on_event: process_state is not instance_info[state]')
    table = {}
    for v, facts, node in returns(u):
        states = supstates.refine(facts, svar, st)
        if v is None:
            res = None
        else:
            txt = ast.unparse(v)
            R.require(txt.startswith('ProcessRequestResult.'), 'on_event returns %s' % txt)
            res = txt.split('.')[1]
        fs = {tuple(f) for f in facts if not f[0].startswith(svar)}
        for s in states:
            table.setdefault(s, []).append((res, fs))
    for s in PS:
        outs = table.get(s, [])
        results = sorted({str(r) for r, _ in outs})
        R.check(r4, outs and None not in [r for r, _ in outs], 'state %s yields a result (%s)' % (s, results),
                'total|ProcessStartCommand.on_event|%s' % s, u.loc(), 'ProcessStartCommand.on_event returns nothing '
                '(None) for process state %s: the job is never completed by that event' % s)
    want = {'STARTING': {'IN_PROGRESS'}, 'BACKOFF': {'IN_PROGRESS'}, 'RUNNING': {'SUCCESS', 'IN_PROGRESS'},
            'EXITED': {'SUCCESS', 'FAILED'}, 'FATAL': {'FAILED'}, 'STOPPED': {'FAILED'}, 'STOPPING': {'FAILED'},
            'UNKNOWN': {'FAILED'}}
    for s in PS:
        got = {r for r, _ in table.get(s, []) if r is not None}
        R.check(r4, got == want[s], 'state %s -> %s' % (s, sorted(want[s])), 'result|ProcessStartCommand.on_event|%s' % s,
                u.loc(), 'ProcessStartCommand.on_event maps %s to %s, expected %s' % (s, sorted(got), sorted(want[s])))
    succ_run = [fs for r, fs in table.get('RUNNING', []) if r == 'SUCCESS']
    # paths to SUCCESS for RUNNING: no wait_exit rule, or wait_exit ignored (one disjunctive fact or one path each)
    W, I = 'self.process.rules.wait_exit', 'self.ignore_wait_exit'
    paths = {frozenset(f for f in fs if isinstance(f, tuple) and ('wait_exit' in f[0])) for fs in succ_run}
    ok = paths in ({frozenset({(W, False)}), frozenset({(W, True), (I, True)})},
                   {frozenset({(W, False)}), frozenset({(I, True)})},
                   {frozenset({('not %s or %s' % (W, I), True)})})
    R.check(r4, ok, 'RUNNING completes the start only without a pending wait_exit',
            'result|ProcessStartCommand.on_event|wait_exit', u.loc(), 'RUNNING -> SUCCESS is not conditioned by '
            '`not wait_exit or ignore_wait_exit`: %s' % [sorted(x) for x in succ_run])
    succ_ex = [fs for r, fs in table.get('EXITED', []) if r == 'SUCCESS']
    ok = len(succ_ex) == 1 and ('self.process.rules.wait_exit', True) in succ_ex[0] and \
        ("instance_info['expected']", True) in succ_ex[0]
    R.check(r4, ok, 'EXITED completes the start only when expected and wait_exit is set',
            'result|ProcessStartCommand.on_event|exited', u.loc(), 'EXITED -> SUCCESS is under %s' %
            [sorted(x) for x in succ_ex])
    u = P.unit('ApplicationJobs.on_event')
    fm = factmap(u)
    rem = [c for c in own_nodes(u.node) if isinstance(c, ast.Call) and call_text(c) == 'self.current_jobs.remove']
    nxt = [c for c in own_nodes(u.node) if isinstance(c, ast.Call) and call_text(c) == 'self.next']
    pf = [c for c in own_nodes(u.node) if isinstance(c, ast.Call) and call_text(c) == 'self.process_failure']
    done = ('result in [ProcessRequestResult.SUCCESS, ProcessRequestResult.FAILED]', True)
    ok = len(rem) == 1 and len(nxt) == 1 and len(pf) == 1 and \
        {tuple(f) for f in fm.at(rem[0])} == {('command', True), done} and \
        {tuple(f) for f in fm.at(nxt[0])} == {('command', True), done} and \
        ('result == ProcessRequestResult.FAILED', True) in {tuple(f) for f in fm.at(pf[0])}
    R.check(r4, ok, 'a completed command is removed, failure strategy applied on FAILED, next group triggered',
            'completion|ApplicationJobs.on_event', u.loc(), 'ApplicationJobs.on_event does not remove the command / '
            'call next() exactly under result in [SUCCESS, FAILED], or process_failure under FAILED')
    gc = [a for a in own_nodes(u.node) if isinstance(a, ast.Assign) and ast.unparse(a.targets[0]) == 'command']
    ok = len(gc) == 1 and ast.unparse(gc[0].value) == 'self.get_current_command(process.process_name, identifier)'
    R.check(r4, ok, 'the event is matched to the current command by process name and sending instance',
            'completion|match', u.loc(), 'ApplicationJobs.on_event matches the command with %s' %
            [ast.unparse(a.value) for a in gc])

    # ---------------------------------------------------------------- R5
    r5 = R.rule('R5', 'enum dispatch effects', 'starting failure strategy of a required process: ABORT clears the planned '
                'jobs and requests no stop; STOP clears them and sets stop_request; CONTINUE (and optional processes) '
                'change nothing; Starter.after stops the application only under stop_request; Commander.next calls '
                'after() only when the application job is no longer in progress', 6)
    u = P.unit('ApplicationStartJobs.process_failure')
    fm = factmap(u)
    writes = {}
    for a in own_nodes(u.node):
        if isinstance(a, ast.Assign) and ast.unparse(a.targets[0]) in ('self.planned_jobs', 'self.stop_request'):
            fs = {tuple(f) for f in fm.at(a)}
            strat = [f[0].split('.')[-1] for f in fs if f[1] and 'StartingFailureStrategies.' in f[0] and '==' in f[0]]
            if not (len(strat) == 1 and ('process.rules.required', True) in fs):
                # a write shared by several strategies (or computed from the strategy): reported under each of them
                for m_ in (strat or ['?']):
                    writes.setdefault(m_, set()).add('%s=%s' % (ast.unparse(a.targets[0]), ast.unparse(a.value)))
                cs = {c for f in fs if f[1] and ' in [' in f[0] and 'StartingFailureStrategies.' in f[0]
                      for c in ('ABORT', 'STOP', 'CONTINUE') if 'StartingFailureStrategies.' + c in f[0]}
                for m_ in cs:
                    writes.setdefault(m_, set()).add('%s=%s' % (ast.unparse(a.targets[0]), ast.unparse(a.value)))
                continue
            writes.setdefault(strat[0], set()).add('%s=%s' % (ast.unparse(a.targets[0]), ast.unparse(a.value)))
    members = P.enum_members('StartingFailureStrategies')
    R.require(sorted(members) == ['ABORT', 'CONTINUE', 'STOP'], 'StartingFailureStrategies members changed: %s' % members)
    want = {'ABORT': {'self.planned_jobs={}'}, 'STOP': {'self.planned_jobs={}', 'self.stop_request=True'},
            'CONTINUE': set()}
    for m in members:
        R.check(r5, writes.get(m, set()) == want[m], 'required failure under %s writes %s' % (m, sorted(want[m])),
                'strategy|process_failure|%s' % m, u.loc(), 'ApplicationStartJobs.process_failure under %s writes %s, '
                'expected %s' % (m, sorted(writes.get(m, set())), sorted(want[m])))
    # the strategy compared is the one of the failed process (alias locals are already folded by sa.normalise)
    srcs = {f[0].split(' ')[0] for n in own_nodes(u.node) if isinstance(n, ast.stmt) for f in fm.at(n)
            if 'StartingFailureStrategies.' in f[0]}
    R.check(r5, srcs == {'process.rules.starting_failure_strategy'},
            'the strategy applied is the one of the failed process', 'strategy|source', u.loc(),
            'process_failure compares %s with the StartingFailureStrategies members' % sorted(srcs))
    u = P.unit('Starter.after')
    fm = factmap(u)
    sc = [c for c in own_nodes(u.node) if isinstance(c, ast.Call) and call_text(c) == 'self.supvisors.stopper.stop_application']
    ok = len(sc) == 1 and {tuple(f) for f in fm.at(sc[0])} == {('application_job.stop_request', True)} and \
        ast.unparse(sc[0].args[0]) == 'application_job.application'
    R.check(r5, ok, 'the deferred stop is applied exactly when requested', 'strategy|after', u.loc(),
            'Starter.after does not stop application_job.application exactly under stop_request')
    u = P.unit('Commander.next')
    fm = factmap(u)
    ac = [c for c in own_nodes(u.node) if isinstance(c, ast.Call) and call_text(c) == 'self.after']
    ok = len(ac) == 1 and {tuple(f) for f in fm.at(ac[0])} == {('application_job.in_progress()', False)}
    R.check(r5, ok, 'after() runs once in-flight starts have ended', 'strategy|after-call', u.loc(),
            'Commander.next calls after() under %s' % [sorted(tuple(f) for f in fm.at(c)) for c in ac])

    shared.enum_classes(P, R, r5, only=('starting_failure_strategy',))
    shared.strategy_defaults(P, R, r5, 'starting_failure_strategy')

    # ---------------------------------------------------------------- R6
    r6 = R.rule('R6', 'must-call in branch', 'every give-up path reports the failure: no resource -> fail_command + '
                'process_failure; timeout -> fail_command (ApplicationJobs.check); instance lost -> process_failure '
                '(on_instances_invalidation)', 3)
    u = P.unit('ApplicationStartJobs.process_job')
    fm = factmap(u)
    ok = all(any(isinstance(c, ast.Call) and call_text(c) == t and fm.has(c, 'command.identifier', False)
                 for c in own_nodes(u.node)) for t in ('self.fail_command', 'self.process_failure'))
    R.check(r6, ok, 'no resource: failure reported', 'giveup|no-resource', u.loc(),
            'process_job does not report the failure when no identifier was found')
    u = P.unit('ApplicationJobs.check')
    fm = factmap(u)
    fc = [c for c in own_nodes(u.node) if isinstance(c, ast.Call) and call_text(c) == 'self.fail_command']
    ok = len(fc) == 1 and ('result == ProcessRequestResult.TIMED_OUT', True) in {tuple(f) for f in fm.at(fc[0])}
    R.check(r6, ok, 'timeout: failure reported', 'giveup|timeout', u.loc(),
            'ApplicationJobs.check does not call fail_command under TIMED_OUT')
    u = P.unit('ApplicationJobs.on_instances_invalidation')
    fm = factmap(u)
    pf = [c for c in own_nodes(u.node) if isinstance(c, ast.Call) and call_text(c) == 'self.process_failure']
    # (exactly that fact: a command whose request was lost with the instance is a starting failure whether or not the
    # process had already been seen running there - it is still STOPPED when the request never arrived)
    ok = len(pf) == 1 and {(f[0], f[1]) for f in fm.at(pf[0])} == {('command.identifier in invalidated_identifiers', True)}
    R.check(r6, ok, 'host lost: starting failure strategy applied', 'giveup|invalidation', u.loc(),
            'on_instances_invalidation does not call process_failure for the commands of the lost instances')
    shared.request_stamp(P, R, r6)
    shared.reentrant_iterations(P, R, r6)

    # ---------------------------------------------------------------- R7
    r7 = R.rule('R7', 'gate facts', 'restart_sequence (a second automatic distribution) is refused while ANY instance '
                'still has start or stop jobs in progress (Supvisors-wide starting/stopping identifiers, not the local '
                'flags), so that a lower sequence still starting elsewhere is not overtaken', 1)
    rule_restart_sequence(P, R, r7)
    R.assume('The order of requests relative to the TRUE process states over all timings, and wait_exit semantics '
             'end-to-end, are NOT decided.')
