"""Supervisor's process states, read by parsing supervisor/states.py (not imported); frozen copy as fallback."""
import ast
import importlib.util

FROZEN = {'members': ['STOPPED', 'STARTING', 'RUNNING', 'BACKOFF', 'STOPPING', 'EXITED', 'FATAL', 'UNKNOWN'],
          'STOPPED_STATES': ['STOPPED', 'EXITED', 'FATAL', 'UNKNOWN'],
          'RUNNING_STATES': ['RUNNING', 'BACKOFF', 'STARTING']}


def load():
    try:
        spec = importlib.util.find_spec('supervisor.states')
        tree = ast.parse(open(spec.origin).read())
    except Exception:
        return dict(FROZEN, source='frozen copy (supervisor.states not found)')
    out = {'source': spec.origin}
    for n in tree.body:
        if isinstance(n, ast.ClassDef) and n.name == 'ProcessStates':
            out['members'] = [a.targets[0].id for a in n.body if isinstance(a, ast.Assign)]
        if isinstance(n, ast.Assign) and isinstance(n.targets[0], ast.Name) and \
                n.targets[0].id in ('STOPPED_STATES', 'RUNNING_STATES'):
            out[n.targets[0].id] = [x.attr for x in ast.walk(n.value) if isinstance(x, ast.Attribute)]
    for k in ('members', 'STOPPED_STATES', 'RUNNING_STATES'):
        if sorted(out.get(k, [])) != sorted(FROZEN[k]):
            return dict(FROZEN, source='frozen copy (parsed file disagrees: %s)' % k)
    return out


def state_set(e, st):
    """set of ProcessStates names denoted by expression e (constant, list/tuple, STOPPED_STATES, RUNNING_STATES,
    list(RUNNING_STATES) + [..]) or None."""
    if isinstance(e, ast.Attribute) and isinstance(e.value, ast.Name) and e.value.id == 'ProcessStates' \
            and e.attr in st['members']:
        return {e.attr}
    if isinstance(e, ast.Name) and e.id in ('STOPPED_STATES', 'RUNNING_STATES'):
        return set(st[e.id])
    if isinstance(e, (ast.List, ast.Tuple, ast.Set)):
        out = set()
        for x in e.elts:
            s = state_set(x, st)
            if s is None:
                return None
            out |= s
        return out
    if isinstance(e, ast.Call) and isinstance(e.func, ast.Name) and e.func.id in ('list', 'tuple', 'set') and e.args:
        return state_set(e.args[0], st)
    if isinstance(e, ast.BinOp) and isinstance(e.op, ast.Add):
        a, b = state_set(e.left, st), state_set(e.right, st)
        return None if a is None or b is None else a | b
    return None


def refine(facts, var, st):
    """states `var` may hold given facts of the form `var == S`, `var in [...]` (and their negations)."""
    cur = set(st['members'])
    for f in facts:
        c = f.node
        if not (isinstance(c, ast.Compare) and len(c.ops) == 1 and ast.unparse(c.left) == var):
            continue
        if ast.unparse(c) != f[0]:
            continue            # canonical duplicate
        s = state_set(c.comparators[0], st)
        if s is None:
            continue
        pos = isinstance(c.ops[0], (ast.Eq, ast.In, ast.Is))
        neg = isinstance(c.ops[0], (ast.NotEq, ast.NotIn, ast.IsNot))
        if not (pos or neg):
            continue
        if pos == f[1]:
            cur &= s
        else:
            cur -= s
    return cur
