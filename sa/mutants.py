"""Seeded edits for the sensitivity self-test (thorough tier).

Each entry: (property, file under supvisors/, old text, new text, substring expected in the key of a reported finding).
`expect` None marks a behaviour-preserving variant: the property check must report nothing new on it.
Edits are plain text replacements of one occurrence; an edit whose old text is absent from the current tree is skipped
(reported as such), never failed. Every edited module must still compile."""

M = []


def m(prop, f, old, new, expect):
    M.append((prop, f, old, new, expect))


SM = 'statemachine.py'
# ---- C01
m('C01', SM, 'if self.state_modes.is_master() and process.crashed():', 'if process.crashed():', 'C01.R1|unguarded')
m('C01', SM, "        if self.state_modes.is_master():\n            self._master_enter()\n        else:\n            self._slave_enter()",
  "        self._master_enter()", 'C01.R1|')
m('C01', SM, "            if self.state_modes.check_master():\n                # WARN", "            if True:\n                # WARN", 'C01.R2|election-gate')
m('C01', SM, 'if not self.state_modes.check_master(False):', 'if False:', 'C01.R2|consistence')
m('C01', 'statemodes.py', "if new_state != SupvisorsInstanceStates.RUNNING and identifier == self.master_identifier:",
  "if new_state == SupvisorsInstanceStates.ISOLATED and identifier == self.master_identifier:", 'C01.R3|master-reset')
m('C01', 'statemodes.py', "self.master_identifier = min(candidates, key=", "self.master_identifier = max(candidates, key=", 'C01.R3|select|min-nick')
m('C01', 'statemodes.py', "candidates = core_candidates or all_candidates", "candidates = all_candidates", 'C01.R3|select|core-first')
m('C01', 'statemodes.py', "            self.local_state_modes.master_identifier = identifier\n            self.publish_status()",
  "            self.local_state_modes.master_identifier = identifier", 'C01.R4|publish|master_identifier')
m('C01', 'statemodes.py', "            if state not in StateModes.STABLE_STATES:\n                return set()", "            pass", 'C01.R5|stable')
m('C01', SM, "        self.logger.debug(f'FiniteStateMachine.on_state_event:", "        self.logger.trace(f'FiniteStateMachine.on_state_event:", None)
# ---- C02
m('C02', SM, "SupvisorsStates.RESTARTING: [SupvisorsStates.FINAL],", "SupvisorsStates.RESTARTING: [SupvisorsStates.FINAL, SupvisorsStates.OFF],", 'C02.R1|')
m('C02', SM, "SupvisorsStates.FINAL: []}", "SupvisorsStates.FINAL: [SupvisorsStates.OFF]}", 'C02.R1|FINAL')
m('C02', SM, "SupvisorsStates.SYNCHRONIZATION: [SupvisorsStates.OFF,\n                                                      SupvisorsStates.ELECTION],",
  "SupvisorsStates.SYNCHRONIZATION: [SupvisorsStates.OFF,\n                                                      SupvisorsStates.ELECTION, SupvisorsStates.OPERATION],", 'C02.R1|')
m('C02', SM, "            if next_state not in self._Transitions[self.state]:", "            if False:", 'C02.R2|guard')
m('C02', SM, "                self.logger.critical(f'FiniteStateMachine.set_state: unexpected transition from {self.state.name}'", "                self.logger.error(f'FiniteStateMachine.set_state: unexpected transition from {self.state.name}'", None)
m('C02', 'rpcinterface.py', "        self.supvisors.fsm.on_end_sync(master)", "        self.supvisors.state_modes.state = SupvisorsStates.ELECTION\n        self.supvisors.fsm.on_end_sync(master)", 'C02.R2|writer')
m('C02', SM, "                if self.state_modes.master_state == SupvisorsStates.DISTRIBUTION:\n                    return SupvisorsStates.DISTRIBUTION",
  "                if self.state_modes.master_state != SupvisorsStates.ELECTION:\n                    return SupvisorsStates.DISTRIBUTION", 'C02.R4|local-decision')
# ---- C03
m('C03', 'commander.py', "        if not self.current_jobs and self.planned_jobs:", "        if self.planned_jobs:", 'C03.R2|pop-guard|ApplicationJobs.next')
m('C03', 'commander.py', "        if self.planned_jobs and not self.current_jobs:", "        if self.planned_jobs:", 'C03.R2|pop-guard|Commander.next')
m('C03', 'commander.py', "    pickup_logic = min\n    # override default process failure state", "    pickup_logic = max\n    # override default process failure state", 'C03.R1|pickup')
m('C03', 'commander.py', "                          if seq > 0}", "                          if seq >= 0}", 'C03.R3|seq0|store_application')
m('C03', 'commander.py', "ProcessStates.STOPPING, ProcessStates.UNKNOWN):", "ProcessStates.STOPPING):", 'C03.R4|total')
m('C03', 'commander.py', "            if self.process.rules.wait_exit and instance_info['expected']:", "            if instance_info['expected']:", 'C03.R4|result')
m('C03', 'commander.py', "                self.planned_jobs = {}\n                self.stop_request = True", "                self.stop_request = True", 'C03.R5|strategy|process_failure|STOP')
m('C03', 'commander.py', "        if application_job.stop_request:", "        if application_job.stop_request or application_job.application.major_failure:", 'C03.R5|strategy|after')
m('C03', 'commander.py', "                self.fail_command(command.process, '', time.monotonic(), 'No resource available')\n                self.process_failure(process)",
  "                self.fail_command(command.process, '', time.monotonic(), 'No resource available')", 'C03.R6|giveup|no-resource')
m('C03', 'commander.py', "        self.logger.debug(f'Starter.start_applications')", "        self.logger.trace(f'Starter.start_applications')", None)
# ---- C04
m('C04', 'strategy.py', "candidate_identifiers = [identifier for identifier in identifiers if identifier in running_identifiers]",
  "candidate_identifiers = list(identifiers)", 'C04.R3|running-filter')
m('C04', 'strategy.py', "return node_loading + expected_load <= 100, node_loading, instance_loading", "return node_loading + expected_load < 100, node_loading, instance_loading", 'C04.R3|cap|is_loading_valid')
m('C04', 'strategy.py', "node_loading = node_load_map.get(machine_id, 0) + node_load_request_map.get(machine_id, 0)", "node_loading = node_load_map.get(machine_id, 0)", 'C04.R3|cap|node_loading')
m('C04', 'strategy.py', "        return next((identifier for identifier, (validity, _, _) in loading_validity_map.items() if validity), None)",
  "        return next((identifier for identifier, (validity, _, _) in loading_validity_map.items()), None)", 'C04.R3|cap|strategy|ConfigStrategy')
m('C04', 'process.py', "                if identifier in self.info_map and not self.disabled_on(identifier)]", "                if identifier in self.info_map]", 'C04.R4|filter|process')
m('C04', 'commander.py', "        if process.stopped():\n            # TODO: now that load request", "        if not process.running():\n            # TODO: now that load request", 'C04.R1|start-guard')
m('C04', 'commander.py', "                if current_job or planned_job:", "                if current_job:", 'C04.R6|dedup|add_commands')
m('C04', 'commander.py', "                if identifier:\n                    command.update_identifier(identifier)\n            if command.identifier:",
  "                command.update_identifier(identifier)\n            if command.identifier:", 'C04.R1|placement-arg')
m('C04', 'internal_com/mapper.py', "        if sup_id.identifier not in node_identifiers:\n            node_identifiers.append(sup_id.identifier)", "        node_identifiers.append(sup_id.identifier)", 'C04.R7|node-duplicate')
m('C04', 'commander.py', "                                                self.get_process_identifiers(command.process),\n                                                load, load_request_map)",
  "                                                self.identifiers,\n                                                load, load_request_map)", 'C04.R2|candidates')
# ---- C05
m('C05', 'context.py', "                if application.rules.managed and process.conflicting()]", "                if process.conflicting()]", 'C05.R1|managed|Context.conflicts')
m('C05', SM, "        if self.supvisors.starter.in_progress() or self.supvisors.stopper.in_progress():\n            return SupvisorsStates.OPERATION",
  "        if self.supvisors.starter.in_progress():\n            return SupvisorsStates.OPERATION", 'C05.R2|enter')
m('C05', 'strategy.py', "    elif strategy == ConciliationStrategies.INFANTICIDE:\n        instance = InfanticideStrategy(supvisors)",
  "    elif strategy == ConciliationStrategies.INFANTICIDE:\n        instance = SenicideStrategy(supvisors)", 'C05.R3|dispatch|INFANTICIDE')
m('C05', 'strategy.py', "            saved_identifier = min(process.running_identifiers, key=lambda x: process.info_map[x]['uptime'])",
  "            saved_identifier = max(process.running_identifiers, key=lambda x: process.info_map[x]['uptime'])", 'C05.R4|effect|SenicideStrategy|kept')
m('C05', 'strategy.py', "            self.supvisors.stopper.stop_process(process, trigger=False)\n        # trigger all at once",
  "            self.supvisors.stopper.stop_process(process, list(process.running_identifiers)[:1], trigger=False)\n        # trigger all at once", 'C05.R4|effect|StopStrategy')
m('C05', 'strategy.py', "    def conciliate(self, conflicts):\n        \"\"\" Does nothing. \"\"\"\n        pass",
  "    def conciliate(self, conflicts):\n        \"\"\" Does nothing. \"\"\"\n        self.supvisors.stopper.next()", 'C05.R4|effect|USER')
m('C05', 'commander.py', "                    if not identifiers or identifier in identifiers]", "                    if not identifiers or identifier not in identifiers]", 'C05.R5|targets')
# ---- C06
m('C06', 'strategy.py', "        if application in self.stop_application_jobs:\n            self.logger.info(f'RunningFailureHandler.add_restart_application_job:",
  "        if False:\n            self.logger.info(f'RunningFailureHandler.add_restart_application_job:", 'C06.R3|precedence|restart_application_jobs|yield')
m('C06', 'strategy.py', "        self.restart_application_jobs.discard(application)\n        for job_set in", "        for job_set in", 'C06.R3|precedence|stop_application_jobs|evict|restart_application_jobs')
m('C06', 'strategy.py', "            if application.stopped() and process in application.get_start_sequenced_processes():", "            if process.stopped() and process in application.get_start_sequenced_processes():", 'C06.R3|precedence|promotion')
m('C06', 'strategy.py', "        elif strategy == RunningFailureStrategies.RESTART_PROCESS:\n            self.add_restart_process_job(application, process)",
  "        elif strategy == RunningFailureStrategies.RESTART_PROCESS:\n            self.add_continue_process_job(application, process)", 'C06.R2|dispatch|add_job|RESTART_PROCESS')
m('C06', 'strategy.py', "            if process.application_name in job_applications:\n                self.logger.debug(f'RunningFailureHandler.trigger_restart_process_jobs:",
  "            if False:\n                self.logger.debug(f'RunningFailureHandler.trigger_restart_process_jobs:", 'C06.R5|trigger|trigger_restart_process_jobs')
m('C06', SM, "        self.supvisors.failure_handler.trigger_jobs()\n        # check state machine", "        # check state machine", 'C06.R5|trigger|periodic')
m('C06', 'context.py', "                failed_processes.update({process for process in status.running_processes()", "                failed_processes = ({process for process in status.running_processes()", 'C06.R6|accumulate')
m('C06', 'commander.py', "        for command in sum(self.planned_jobs.values(), []):\n            if command.process in failed_processes:\n                failed_processes.remove(command.process)", "        for command in sum(self.planned_jobs.values(), []):", 'C06.R6|planned-win')
# ---- C07
m('C07', 'instancestatus.py', "        return self.has_active_state() and counter_diff > self.supvisors.options.inactivity_ticks", "        return self.has_active_state() and counter_diff >= self.supvisors.options.inactivity_ticks", 'C07.R6|threshold|is_inactive')
m('C07', 'instancestatus.py', "SupvisorsInstanceStates.ISOLATED: ()", "SupvisorsInstanceStates.ISOLATED: (SupvisorsInstanceStates.CHECKING,)", 'C07.R3|row-extra|ISOLATED')
m('C07', 'instancestatus.py', "                    SupvisorsInstanceStates.RUNNING: (SupvisorsInstanceStates.FAILED,),", "                    SupvisorsInstanceStates.RUNNING: (SupvisorsInstanceStates.FAILED, SupvisorsInstanceStates.STOPPED),", 'C07.R3|row-extra|RUNNING')
m('C07', 'instancestatus.py', "            if not self.check_transition(new_state):", "            if False:", 'C07.R2|setter')
m('C07', 'context.py', "        if status.identifier == self.local_identifier:\n            # WARN: getting here would definitely be a bug", "        if False:\n            # WARN: getting here would definitely be a bug", 'C07.R4|isolate-local')
m('C07', SM, "        self.lost_instances, self.lost_processes = self.context.invalidate_failed()", "        self.lost_instances, self.lost_processes = [], set()", 'C07.R5|chain|next')
m('C07', 'process.py', "        if identifier in self.running_identifiers:\n            # update process status with a FATAL payload", "        if identifier in self.running_identifiers and self.conflicting():\n            # update process status with a FATAL payload", 'C07.R5|chain|invalidate_identifier')
m('C07', 'instancestatus.py', "        if remote_sequence_counter < self.remote_sequence_counter:", "        if remote_sequence_counter + 1 < self.remote_sequence_counter:", 'C07.R6|threshold|stealth')
m('C07', 'internal_com/supervisorproxy.py', "        elif self.status.has_active_state():\n            # not needed if not active yet", "        elif self.status.running:\n            # not needed if not active yet", 'C07.R7|bus|handle_exception')
# ---- C08
m('C08', SM, "SupvisorsStates.DISTRIBUTION: [SupvisorsStates.OFF,\n                                                   SupvisorsStates.ELECTION,", "SupvisorsStates.DISTRIBUTION: [SupvisorsStates.OFF,", 'C08.R1|DistributionState|ELECTION')
m('C08', SM, "        if status.identifier == self.state_modes.master_identifier:\n            self.next()", "        if status.identifier == self.state_modes.master_identifier and self.state_modes.is_stable():\n            self.next()", 'C08.R3|hook|on_state_event')
m('C08', SM, "        \"\"\"\n        self._abort_jobs()\n\n    def _check_end_sync_strict", "        \"\"\"\n\n    def _check_end_sync_strict", 'C08.R4|abort|SynchronizationState')
m('C08', SM, "        if strict_sync or list_sync or timeout_sync or core_sync or user_sync:", "        if strict_sync or list_sync or core_sync or user_sync:", 'C08.R7|progress|SynchronizationState')
m('C08', SM, "            # re-evaluate the context to possibly get a more relevant Master\n            self.state_modes.select_master()",
  "            # re-evaluate the context to possibly get a more relevant Master\n            if not self.state_modes.master_identifier:\n                self.state_modes.select_master()", 'C08.R7|progress|ElectionState-select')
m('C08', SM, "            if strategy == SupvisorsFailureStrategies.RESYNC:", "            if strategy == SupvisorsFailureStrategies.CONTINUE:", 'C08.R6|failure-strategy')
m('C08', SM, "            # evaluate current state\n            next_state = self.instance.next()", "            # evaluate current state\n            next_state = None", 'C08.R3|hook|set_state-loop')
# ---- C09
m('C09', 'commander.py', "        self.pickup_logic = max", "        self.pickup_logic = min", 'C09.R1|pickup|ApplicationStopJobs')
m('C09', 'commander.py', "            if application.has_running_processes():\n                self.logger.info(f'Stopper.stop_applications: stopping {application.application_name}')\n                self.store_application(application)",
  "            self.stop_application(application)", 'C09.R2|plan-first')
m('C09', 'commander.py', "        if running:\n            command.stop()", "        if process.running():\n            command.stop()", 'C09.R3|stop-guard')
m('C09', 'commander.py', "                            for process in processes\n                            for identifier in process.running_identifiers]", "                            for process in processes\n                            for identifier in process.info_map]", 'C09.R3|stop-target')
m('C09', SM, "                self.supvisors.rpc_handler.send_restart_all(self.state_modes.master_identifier)", "                self.supvisors.rpc_handler.send_restart(self.state_modes.master_identifier)", 'C09.R')
m('C09', 'internal_com/supervisorproxy.py', "        self.xml_rpc('supvisors.shutdown', self.proxy.supvisors.shutdown, ())", "        self.xml_rpc('supvisors.shutdown', self.proxy.supervisor.shutdown, ())", 'C09.R4|request|remote|SHUTDOWN_ALL')
m('C09', SM, "        self._abort_jobs()\n        self.supvisors.stopper.stop_applications()", "        self._abort_jobs()", 'C09.R5|final-order|stop-phase')
m('C09', 'internal_com/rpchandler.py', "        self.push_request(identifier, RequestHeaders.SHUTDOWN_ALL)", "        self.push_request(identifier, RequestHeaders.RESTART_ALL)", 'C09.R4|request|sender')
# ---- C10
m('C10', SM, "        self.supvisors.starter.check()\n        self.supvisors.stopper.check()", "        self.supvisors.starter.check()", 'C10.R1|chain|fsm.next|stopper')
m('C10', 'commander.py', "            if self.request_sequence_counter + self.wait_ticks < self.instance_status.sequence_counter:", "            if self.request_sequence_counter + self.wait_ticks < self.instance_status.sequence_counter and False:", 'C10.R2|no-deadline|ProcessStopCommand')
m('C10', 'commander.py', "        self.supvisors.rpc_handler.send_start_process(self.identifier, self.process.namespec, self.extra_args)\n        self.update_sequence_counter()", "        self.supvisors.rpc_handler.send_start_process(self.identifier, self.process.namespec, self.extra_args)", 'C10.R2|deadline|stamp')
m('C10', 'listener.py', "                   'state': forced_state, 'forced': True,", "                   'state': forced_state,", 'C10.R3|forced|payload')
m('C10', 'listener.py', "        # update local Supvisors instance\n        self.fsm.on_process_state_event(self.local_status, payload)\n        # publish to the other Supvisors instances\n        self.rpc_handler.send_process_state_event(payload)\n\n    def _subscribe",
  "        # update local Supvisors instance\n        self.fsm.on_process_state_event(self.local_status, payload)\n\n    def _subscribe", 'C10.R3|forced|force_process_state')
m('C10', 'context.py', "            app_proc = self.check_process(status, event, not forced_event)", "            app_proc = self.check_process(status, event)", 'C10.R3|forced|check_source')
m('C10', SM, "        self.logger.debug(f'WorkingState.common_next: invalid={self.lost_instances}')\n        if self.lost_instances:", "        self.logger.debug(f'WorkingState.common_next: invalid={self.lost_instances}')\n        if self.lost_processes:", 'C10.R4|lost|_WorkingState._common_next')
m('C10', 'commander.py', "        for command in list(self.current_jobs):\n            # if no more pending request", "        for command in self.current_jobs:\n            # if no more pending request", 'C10.R4|lost|ApplicationJobs')
m('C10', 'commander.py', "        self._wait_ticks = math.ceil(wait_secs / Tick5Event.period) + self.minimum_ticks", "        self._wait_ticks = math.floor(wait_secs / Tick5Event.period) + self.minimum_ticks", 'C10.R5|ticks|setter')
m('C04', 'commander.py', "            if command.identifier in invalidated_identifiers:\n                command.identifier = None", "            pass", 'C04.R1|preassigned-lost')
m('C10', 'commander.py', "            if command.identifier in invalidated_identifiers:\n                command.identifier = None", "            pass", 'C10.R4|preassigned-lost')
m('C10', 'statemodes.py', "        if new_state in [SupvisorsInstanceStates.STOPPED, SupvisorsInstanceStates.ISOLATED]:", "        if new_state == SupvisorsInstanceStates.STOPPED:", 'C10.R4|modes-reset')
m('C09', 'statemachine.py', "                                                   SupvisorsStates.OPERATION,\n                                                   SupvisorsStates.RESTARTING,", "                                                   SupvisorsStates.OPERATION,", 'C09.R4|reroute|table')
# ---- C11
m('C11', 'process.py', "            if self.stopped():\n                self.running_identifiers = {identifier}", "            if not self.running():\n                self.running_identifiers = {identifier}", 'C11.R3|classify|running')
m('C11', 'process.py', "        if identifier in self.info_map:\n            instance_info = self.info_map[identifier]\n            force_state", "        if identifier in self.running_identifiers:\n            instance_info = self.info_map[identifier]\n            force_state", 'C11.R5|forced|arbitration')
m('C11', 'process.py', "        self.reset_forced_state()\n        # update / check running Supervisors", "        # update / check running Supervisors", 'C11.R2|resynth|ProcessStatus.update_info|reset')
m('C11', 'process.py', "                    info = max(self.info_map.values(), key=lambda x: x['local_mtime'])", "                    info = max(self.info_map.values(), key=lambda x: x['event_time'])", 'C11.R4|synth|latest')
m('C11', 'process.py', "        return next((state for state in list(RUNNING_STATES) + [ProcessStates.STOPPING]", "        return next((state for state in [ProcessStates.STOPPING] + list(RUNNING_STATES)", 'C11.R4|synth|running_state')
m('C11', 'context.py', "                    status.update_process(process)\n                    application.update()", "                    status.update_process(process)\n                    process.running_identifiers.discard('')\n                    application.update()", 'C11.R1|foreign-writer')
m('C11', 'process.py', "        return self.state if self.forced_state is None else self.forced_state", "        return self.forced_state if self.forced_state is not None and self.stopped() else self.state", 'C11.R5|forced|display')
# ---- C12
m('C12', 'listener.py', "                # update local Supvisors instance\n                self.fsm.on_process_disability_event(self.local_status, process_info)\n                # publish to the other Supvisors instances\n                self.rpc_handler.send_process_disability_event(process_info)",
  "                # update local Supvisors instance\n                self.fsm.on_process_disability_event(self.local_status, process_info)", 'C12.R1|pair|on_process_disability')
m('C12', 'listener.py', "        elif header == PublicationHeaders.PROCESS_REMOVED:", "        elif header == PublicationHeaders.PROCESS_ADDED and False:", 'C12.R2|pub|reader|PROCESS_REMOVED')
m('C12', 'internal_com/rpchandler.py', "        self.push_publication(PublicationHeaders.PROCESS_DISABILITY, payload)", "        self.push_publication(PublicationHeaders.PROCESS_ADDED, payload)", 'C12.R2|pub|sender')
m('C12', 'internal_com/supervisorproxy.py', "            self._transfer_states_modes()\n            self._transfer_process_info()\n        # inform local Supvisors that authorization result is available",
  "            self._transfer_states_modes()\n        # inform local Supvisors that authorization result is available", 'C12.R3|snapshot|check_instance')
m('C12', 'context.py', "            for info in all_info:\n                # get or create process\n                process = self.setdefault_process(status.identifier, info)", "            for info in all_info[:1]:\n                # get or create process\n                process = self.setdefault_process(status.identifier, info)", 'C12.R3|snapshot|load')
m('C12', 'context.py', "        # accept events only in CHECKED / RUNNING state\n        if status.state in [SupvisorsInstanceStates.CHECKED, SupvisorsInstanceStates.RUNNING]:\n            self.logger.debug(f'Context.on_process_enabled_event:",
  "        # accept events only in CHECKED / RUNNING state\n        if status.state in [SupvisorsInstanceStates.RUNNING]:\n            self.logger.debug(f'Context.on_process_enabled_event:", 'C12.R4|accept|Context.on_process_disability_event')
m('C12', 'internal_com/supervisorproxy.py', "        if publication_type == PublicationHeaders.TICK or self.status.has_active_state():", "        if publication_type == PublicationHeaders.TICK or self.status.running:", 'C12.R2|pub|forward')
# ---- C13
m('C13', 'context.py', "        if not status.isolated and status.supvisors_id.is_valid(ipv4_address):", "        if status.supvisors_id.is_valid(ipv4_address):", 'C13.R2|filter|is_valid')
m('C13', 'listener.py', "        if not status:\n            self.logger.debug(f'SupervisorListener.read_notification: event from unknown Supvisors={event_origin}')\n            return\n", "", 'C13.R2|filter|SupervisorListener.read_notification')
m('C13', 'internal_com/supervisorproxy.py', "        if not proxy and not status.isolated and not self.stop_event.is_set():", "        if not proxy and not self.stop_event.is_set():", 'C13.R3|proxy|create')
m('C13', 'internal_com/supervisorproxy.py', "        while not self.stop_event.is_set():", "        while not self.stop_event.is_set() or not self.queue.empty():", 'C13.R3|proxy|run-loop')
m('C13', 'context.py', "        if not status.is_checking(timestamp):\n            self.logger.error('Context.on_authorization: auth rejected", "        if status.state != SupvisorsInstanceStates.CHECKING:\n            self.logger.error('Context.on_authorization: auth rejected", 'C13.R4|accept|Context.on_authorization')
m('C13', 'internal_com/supervisorproxy.py', "        auth_info = {'authorization': authorization.value, 'now_monotonic': timestamp}", "        auth_info = {'authorization': authorization.value, 'now_monotonic': time.monotonic()}", 'C13.R4|accept|handshake-timestamp')
m('C13', 'internal_com/supervisorproxy.py', "        if instance_state == SupvisorsInstanceStates.ISOLATED:\n            return AuthorizationTypes.NOT_AUTHORIZED", "        if instance_state == SupvisorsInstanceStates.ISOLATED:\n            return AuthorizationTypes.UNKNOWN", 'C13.R5|verdict|isolated')
m('C13', 'context.py', "            self.logger.warn('Context.on_authorization: the local Supvisors configuration is inconsistent'\n                             f' with the configuration of Supvisors={status.usage_identifier}')\n            self.invalidate(status, True)",
  "            self.logger.warn('Context.on_authorization: the local Supvisors configuration is inconsistent'\n                             f' with the configuration of Supvisors={status.usage_identifier}')\n            self.invalidate(status)", 'C13.R5|verdict|isolate')
m('C13', 'rpcinterface.py', "        return {'auto-fencing': options.auto_fence,\n", "        return {\n", 'C13.R5|verdict|get_strategies')
# ---- C14
m('C14', 'strategy.py', "key=lambda x: (x[2], x[1]))", "key=lambda x: (x[1], x[2]))", 'C14.R2|selection|LessLoadedStrategy')
m('C14', 'strategy.py', "    if strategy == StartingStrategies.MOST_LOADED:\n        return MostLoadedStrategy(supvisors)", "    if strategy == StartingStrategies.MOST_LOADED:\n        return MostLoadedNodeStrategy(supvisors)", 'C14.R1|dispatch|MOST_LOADED')
m('C14', 'strategy.py', "        sorted_identifiers = self.sort_valid_by_node_load(loading_validity_map)\n        return sorted_identifiers[-1][0] if sorted_identifiers else None",
  "        sorted_identifiers = self.sort_valid_by_node_load(loading_validity_map)\n        return sorted_identifiers[0][0] if sorted_identifiers else None", 'C14.R2|selection|MostLoadedNodeStrategy')
m('C14', 'strategy.py', "        if local_identifier not in identifiers:\n            # the local Supvisors instance is not among the candidates\n            return None\n", "", 'C14.R2|selection|LocalStrategy')
m('C14', 'commander.py', "            job = self.job_class(application, start_sequence, strategy, self.supvisors)\n            sequence[application.application_name] = job", "            job = self.job_class(application, start_sequence, application.rules.starting_strategy, self.supvisors)\n            sequence[application.application_name] = job", 'C14.R3|strategy-arg|store_application')
m('C14', 'commander.py', "            if self.distribution == DistributionRules.ALL_INSTANCES:\n                # consider all pending starting requests into global load", "            if self.distribution != DistributionRules.SINGLE_INSTANCE:\n                # consider all pending starting requests into global load", 'C14.R4|distribution|process-rule')
m('C14', 'commander.py', "        identifiers = self.application.possible_identifiers()\n        load_request_map = self.get_load_requests()\n        self.logger.trace(f'ApplicationStartJobs.distribute_to_single_instance", "        identifiers = self.application.possible_node_identifiers()\n        load_request_map = self.get_load_requests()\n        self.logger.trace(f'ApplicationStartJobs.distribute_to_single_instance", 'C14.R4|distribution|single-instance')
# ---- C15
m('C15', 'application.py', "            if type(node.func) is not ast.Name:\n                raise ApplicationStatusParseError(f'unsupported function type={type(node.func).__name__}')\n", "", 'C15.R1|ast-access|field')
m('C15', 'application.py', "            if len(node.args) != 1 or node.keywords:\n                raise ApplicationStatusParseError(f'one single argument expected for function={node.func.id}')\n", "", 'C15.R1|ast-access|index')
m('C15', 'application.py', "        if len(tree.body) != 1 or type(tree.body[0]) is not ast.Expr:", "        if len(tree.body) != 1:", 'C15.R2|single-expr|type')
m('C15', 'application.py', "        try:\n            pattern = re.compile(r'^%s$' % pattern_name)\n        except re.error:\n            raise ApplicationStatusParseError(f'invalid pattern={pattern_name}')", "        pattern = re.compile(r'^%s$' % pattern_name)", 'C15.R3|evaluator-escape')
m('C15', 'application.py', "            if node.func.id not in ['all', 'any']:\n                raise ApplicationStatusParseError(f'unsupported function={node.func.id}')\n", "", 'C15.R4|sink|whitelist')
m('C15', 'application.py', "            elif process.displayed_state == ProcessStates.STOPPING:\n                stopping = True", "            elif process.state == ProcessStates.STOPPING:\n                stopping = True", 'C15.R5|priority|flag|stopping')
m('C15', 'application.py', "        if stopping:\n            # if at least one process is STOPPING, let's consider that application is stopping\n            # here priority is given to STOPPING over STARTING\n            return ApplicationStates.STOPPING\n        if starting:",
  "        if starting and not stopping:", 'C15.R5|priority|return')
m('C15', 'application.py', "        if self.state != ApplicationStates.STOPPED:\n            self.major_failure |= possible_major_failure", "        if self.running():\n            self.major_failure |= possible_major_failure", 'C15.R6|status|confirm')
# ---- C16
m('C16', 'listener.py', "        self.logger.trace(f'SupervisorListener.on_remote_event: type={event.type} data={event.data}')\n        try:\n            if event.type == SUPVISORS_PUBLICATION:\n                self.read_publication(event.data)",
  "        self.logger.trace(f'SupervisorListener.on_remote_event: type={event.type} data={event.data}')\n        if event.type == SUPVISORS_PUBLICATION:\n            self.read_publication(event.data)\n        try:\n            if event.type == SUPVISORS_PUBLICATION:\n                pass", 'C16.R0|guard|SupervisorListener.on_remote_event')
m('C16', 'context.py', "        if status.has_active_state():\n            status.state = SupvisorsInstanceStates.FAILED", "        if True:\n            status.state = SupvisorsInstanceStates.FAILED", 'C16.R2|transition|Context.on_instance_failure')
m('C16', 'context.py', "            try:\n                supvisors_id = self.mapper.add_instance(item)\n            except ValueError:\n                # the discovered Supvisors instance cannot be identified (e.g. host name not resolved locally)\n                self.logger.error(f'Context.on_discovery_event: cannot add the Supvisors instance {item}')\n                return",
  "            supvisors_id = self.mapper.add_instance(item)", 'C16.R1|guard-reached')
m('C16', 'context.py', "        if not event:\n            # the network information could not be retrieved from the remote Supvisors instance\n            # the remote Supvisors instance is likely starting, restarting or shutting down\n            self.logger.warn('Context.on_identification_event: failed to get the network information')\n            return\n", "", 'C16.R3|nullable|IDENTIFICATION')
m('C16', 'rpcinterface.py', "        return self.supvisors.mapper.instances[identifiers[0]].serial()", "        return self.supvisors.mapper.instances[identifier].serial()", 'C16.R7|raw-key')
m('C16', 'commander.py', "        for command in list(self.current_jobs):\n            # get the ProcessStatus method corresponding to condition and call it", "        for command in self.current_jobs:\n            # get the ProcessStatus method corresponding to condition and call it", 'C16.R8|iter-mutation')
m('C16', 'strategy.py', "    if strategy == StartingStrategies.LOCAL:\n        return LocalStrategy(supvisors)\n", "", 'C16.R5|dispatch')
m('C16', 'context.py', "        if status.state == SupvisorsInstanceStates.STOPPED:\n            status.state = SupvisorsInstanceStates.CHECKING\n            self.supvisors.rpc_handler.send_check_instance(status.identifier)",
  "        if status.state != SupvisorsInstanceStates.RUNNING:\n            status.state = SupvisorsInstanceStates.CHECKING\n            self.supvisors.rpc_handler.send_check_instance(status.identifier)", 'C16.R2|transition|Context.on_tick_event')
# ---- C17
m('C17', 'rpcinterface.py', "        self._check_state([SupvisorsStates.OPERATION])", "        self._check_state([SupvisorsStates.OPERATION, SupvisorsStates.CONCILIATION])", 'C17.R1|gate|')
m('C17', 'rpcinterface.py', "        self._check_operating()\n        strategy_enum = self._get_starting_strategy(strategy)\n        # check names\n        application, process = self._get_application_process(namespec)\n        processes = [process] if process else application.processes.values()\n        # check processes are not already running\n        for process in processes:\n            if process.running():\n                self._raise(Faults.ALREADY_STARTED, 'test_start_process', process.namespec)",
  "        strategy_enum = self._get_starting_strategy(strategy)\n        # check names\n        application, process = self._get_application_process(namespec)\n        processes = [process] if process else application.processes.values()\n        # check processes are not already running\n        for process in processes:\n            if process.running():\n                self._raise(Faults.ALREADY_STARTED, 'test_start_process', process.namespec)", 'C17.R1|gate|test_start_process')
m('C17', 'rpcinterface.py', "        # whatever they are already stopped or not, it is safe to disable the processes right now\n        self.supvisors.supervisor_updater.disable_program(program_name)",
  "        pass", None)
m('C17', 'rpcinterface.py', "        self._check_operating()\n        # test that program_name is known to the ServerOptions\n        if program_name not in self.supvisors.server_options.program_configs:\n            self._raise(Faults.BAD_NAME, 'enable', f'program={program_name} unknown to Supvisors')\n        # re-enable the corresponding process to be started\n        self.supvisors.supervisor_updater.enable_program(program_name)",
  "        self._check_operating()\n        # re-enable the corresponding process to be started\n        self.supvisors.supervisor_updater.enable_program(program_name)\n        # test that program_name is known to the ServerOptions\n        if program_name not in self.supvisors.server_options.program_configs:\n            self._raise(Faults.BAD_NAME, 'enable', f'program={program_name} unknown to Supvisors')", 'C17.R2|effect-before|enable')
m('C17', 'rpcinterface.py', "        # check application is managed\n        if not application.rules.managed:\n            self._raise(SupvisorsFaults.NOT_MANAGED.value, 'restart_application', application_name)\n", "", 'C17.R3|doc-not-impl|restart_application')
m('C17', 'rpcinterface.py', "        except ValueError as exc:\n            # no Master instance to perform the request\n            self._raise(SupvisorsFaults.BAD_SUPVISORS_STATE.value, 'shutdown', str(exc))", "        except RuntimeError as exc:\n            # no Master instance to perform the request\n            self._raise(SupvisorsFaults.BAD_SUPVISORS_STATE.value, 'shutdown', str(exc))", 'C17.R4|rpc-escape|shutdown')
m('C17', 'rpcinterface.py', "        if type(strategy) is int:", "        if isinstance(strategy, int):", 'C17.R2|validator-type')
m('C17', 'rpcinterface.py', "        if self.supvisors.fsm.state not in states:", "        if self.supvisors.fsm.state not in states and states:", 'C17.R1|gate|_check_state')
# ---- C18
m('C18', 'sparser.py', "                if value >= 0:\n                    setattr(rules, attr_string, value)", "                if value >= -1:\n                    setattr(rules, attr_string, value)", 'C18.R1|domain|load_sequence|guard')
m('C18', 'sparser.py', "                if 0 <= value <= 100:", "                if 0 <= value:", 'C18.R1|domain|load_expected_loading|guard')
m('C18', 'sparser.py', "        self.load_enum(program_elt, 'starting_failure_strategy', StartingFailureStrategies, rules)", "        self.load_enum(program_elt, 'starting_failure_strategy', RunningFailureStrategies, rules)", 'C18.R1|domain|enum-class')
m('C18', 'sparser.py', "        if application_elt is None:\n            # if not found as it is, try to find a corresponding pattern\n            pattern = self.get_best_pattern(application_name, self.application_patterns)\n            application_elt = self.application_patterns.get(pattern)",
  "        pattern = self.get_best_pattern(application_name, self.application_patterns)\n        application_elt = self.application_patterns.get(pattern) or application_elt", 'C18.R2|exact-first')
m('C18', 'sparser.py', "max(matching_patterns, key=lambda x: len(x[1]))", "max(matching_patterns, key=lambda x: x[1])", 'C18.R2|best-pattern|max-len')
m('C18', 'sparser.py', "            self.load_model_rules(model_elt, rules, loop_check - 1)", "            self.load_model_rules(model_elt, rules, loop_check)", 'C18.R3|recursion|decrease')
m('C18', 'process.py', "        if self.stop_sequence < 0:", "        if self.stop_sequence <= 0:", 'C18.R4|deps|stop_sequence|ProcessRules')
m('C18', 'process.py', "        if self.required and self.start_sequence == 0:", "        if self.required and self.start_sequence < 0:", 'C18.R4|deps|required')
m('C18', 'application.py', "        unassigned_processes = [process for process in process_list\n                                if process.rules.hash_identifiers]", "        unassigned_processes = [process for process in self.processes\n                                if process.rules.hash_identifiers]", 'C18.R4|signs|assign_hash_identifiers')
m('C18', 'options.py', "            if not 1.0 <= period <= 3600.0:\n                raise ValueError\n            return period", "            if 1.0 > period or period > 3600.0:\n                raise ValueError\n            return period", 'C18.R5|options|nan')
m('C18', 'options.py', "            if 10 > histo or histo > 1500:", "            if 10 > histo or histo > 15000:", 'C18.R5|options|interval|stats_histo')
m('C18', 'options.py', "            strategy = StartingStrategies[value.upper()]\n        except KeyError:", "            strategy = StartingStrategies[value.upper()]\n        except IndexError:", 'C18.R5|options|')
m('C18', 'options.py', "        if not self.supvisors_list and SynchronizationOptions.STRICT in self.synchro_options:", "        if self.supvisors_list is None and SynchronizationOptions.STRICT in self.synchro_options:", 'C18.R6|consistency|STRICT')
# ---- C19
m('C19', 'commander.py', "        mock_process.info_map = {identifier: info.copy() for identifier, info in process.info_map.items()}", "        mock_process.info_map = process.info_map.copy()", 'C19.R2|shared-store')
m('C19', 'commander.py', "    def after(self, application_job: ApplicationStartJobs) -> None:\n        \"\"\" Empty method to cancel the application stop possibly requested by the starting failure strategy\n        (it would be performed for real by the Stopper). \"\"\"\n\n", "", 'C19.R1|effect')
m('C19', 'commander.py', "class ApplicationStartJobsModel(ApplicationStartJobs):\n    \"\"\" Model of a ApplicationStartJobs without any extern interaction. \"\"\"\n\n    def fail_command", "class ApplicationStartJobsModel(ApplicationStartJobs):\n    \"\"\" Model of a ApplicationStartJobs without any extern interaction. \"\"\"\n\n    def _fail_command", 'C19.R')
m('C19', 'commander.py', "    def publish_state_modes(self):\n        \"\"\" Empty method to cancel states & mode publication. \"\"\"", "    def publish_state_modes2(self):\n        \"\"\" Empty method to cancel states & mode publication. \"\"\"", 'C19.R')
m('C19', 'commander.py', "    job_class = ApplicationStartJobsModel\n", "    job_class = ApplicationStartJobs\n", 'C19.R0|binding|job_class')
m('C19', 'commander.py', "    def feed_model(self) -> PayloadList:", "    def get_load_requests(self):\n        return {}\n\n    def feed_model(self) -> PayloadList:", 'C19.R3|override|StarterModel|get_load_requests')
# ---- C20
m('C20', 'statscompiler.py', "                uptimes.append(uptime)\n                trunc_depth(uptimes, self.depth)", "                uptimes.append(uptime)", 'C20.R1|untruncated')
m('C20', 'statscompiler.py', "    while len(lst) > depth:", "    if len(lst) > depth + 1:", 'C20.R1|trunc|definition')
m('C20', 'statscompiler.py', "            if stats['now'] - self.ref_stats['now'] >= self.period:", "            if abs(stats['now'] - self.ref_stats['now']) >= self.period:", 'C20.R2|')
m('C20', 'statscompiler.py', "                trunc_depth(self.times, self.depth)\n                # new stats become the reference stats for next integration\n                self.ref_stats = proc_stats\n", "                trunc_depth(self.times, self.depth)\n            # new stats become the reference stats for next integration\n            self.ref_stats = proc_stats\n", 'C20.R2|rollover|ProcStatisticsInstance')
m('C20', 'statscompiler.py', "                self._push_mem_stats(mem)\n", "", 'C20.R3|align|host')
m('C20', 'statscompiler.py', "        if pid == 0:\n            # process has been stopped on Supervisord instance", "        if pid < 0:\n            # process has been stopped on Supervisord instance", 'C20.R4|drop|holder')
m('C20', 'statscollector.py', "                self.processes.pop(idx)", "                self.processes.pop()", 'C20.R4|drop|collector')
m('C20', 'statscompiler.py', "            if ref_in <= last_in and ref_out <= last_out:", "            if (ref_in, ref_out) <= (last_in, last_out):", 'C20.R5|wrap|io_statistics')

# ---- obligations added with the third round of seeded changes
m('C07', 'context.py', "        if status.has_active_state():\n            status.state = SupvisorsInstanceStates.FAILED", "        if status.running:\n            status.state = SupvisorsInstanceStates.FAILED", 'C07.R7|bus|on_instance_failure')
m('C03', 'context.py', "            rules.starting_failure_strategy = application.rules.starting_failure_strategy\n", "", 'C03.R5|strategy|default-before-rules')
m('C06', 'context.py', "            rules.running_failure_strategy = application.rules.running_failure_strategy\n", "", 'C06.R2|strategy|default-before-rules')
m('C08', 'internal_com/supervisorproxy.py', "            self._proxy = None\n            # the proxy is marked disconnected", "            # the proxy is marked disconnected", 'C08.R7|proxy-renewed')
m('C11', 'process.py', "                       'expected': False,\n", "", 'C11.R2|resynth|invalidate|payload')
m('C15', 'application.py', "            if len(node.args) != 1 or node.keywords:", "            if not node.args or node.keywords:", 'C15.R4|sink|arity')
m('C14', 'commander.py', "                                                self.get_process_identifiers(command.process),\n                                                load, load_request_map)", "                                                command.process.possible_identifiers(),\n                                                load, load_request_map)", 'C14.R4|distribution|on_command_added')
m('C05', 'statemachine.py', "    def _master_enter(self) -> None:\n        \"\"\" When entering the CONCILIATION state, automatically conciliate the conflicts. \"\"\"", "    def enter(self) -> None:\n        \"\"\" When entering the CONCILIATION state, automatically conciliate the conflicts. \"\"\"", 'C05.R3|dispatch|enter')
m('C20', 'statscompiler.py', "    while len(lst) > depth:\n        lst.pop(0)", "    if len(lst) > depth:\n        lst.pop(0)", 'C20.R1|trunc|definition')
m('C20', 'statscompiler.py', "        if pid == 0:\n            # process has been stopped", "        if pid < 0:\n            # process has been stopped", 'C20.R4|drop|holder')
m('C09', 'commander.py', "        super().abort()\n        self.application_start_requests = {}\n        self.process_start_requests = {}", "        super().abort()", 'C09.R5|final-order|deferred')
m('C09', 'statemachine.py', "        self._abort_jobs()\n        self.supvisors.stopper.stop_applications()", "        self.supvisors.stopper.stop_applications()\n        self._abort_jobs()", 'C09.R5|final-order|abort-first')
m('C09', 'statemachine.py', "        which forces the FINAL state before everything is stopped.\n        \"\"\"\n        return None", "        which forces the FINAL state before everything is stopped.\n        \"\"\"\n        self.context.activate_checked()\n        return None", 'C09.R5|final-order|no-activation')
m('C16', 'rpcinterface.py', "        if not process:\n            # a namespec such as 'group:*' designates an application, not a process\n            self._raise(Faults.BAD_NAME, 'start_args', f'namespec={namespec} does not designate a process')\n", "", 'C16.R4|namespec-process')
m('C17', 'rpcinterface.py', "        if not process:\n            # a namespec such as 'group:*' designates an application, not a process\n            self._raise(Faults.BAD_NAME, 'start_args', f'namespec={namespec} does not designate a process')\n", "", 'C17.R4|namespec-process')
