"""Shared extraction for the Supvisors FSM rules (C01, C02, C08, C09): tables, state classes, decision sets."""
import ast
from .model import AnalysisError, own_nodes
from .absval import EnumEval, class_table
from .paths import factmap

ENUM = 'SupvisorsStates'
ORDER = ['OFF', 'SYNCHRONIZATION', 'ELECTION', 'DISTRIBUTION', 'OPERATION', 'CONCILIATION']
WORKING = ['DISTRIBUTION', 'OPERATION', 'CONCILIATION']
ENDING = ['RESTARTING', 'SHUTTING_DOWN']
MASTER_DRIVEN = set(WORKING + ENDING)


class Fsm:
    def __init__(self, P):
        self.P = P
        self.cls = P.cls('FiniteStateMachine')
        self.ev = EnumEval(P, ENUM, {'master_state': 'MASTER_STATE'})
        self.members = P.enum_members(ENUM)
        self.transitions, self.trans_node = class_table(P, self.cls, '_Transitions', self.ev, 'set')
        self.instances, self.inst_node = class_table(P, self.cls, '_StateInstances', self.ev, 'class')
        self._dec = {}

    def decisions(self, state):
        """(set of decided values, {value: {(unit, return node)}}) of the state class' next()."""
        if state not in self._dec:
            sites = {}
            d = self.ev.returns(self.instances[state], 'next', None, sites)
            unk = sorted(str(x) for x in d if isinstance(x, str) and x.startswith('?'))
            if unk:
                raise AnalysisError('%s.next(): return value(s) not understood: %s' % (self.instances[state].name, unk))
            self._dec[state] = (d, sites)
        return self._dec[state]

    def method_returns(self, state, name):
        sites = {}
        d = self.ev.returns(self.instances[state], name, None, sites)
        unk = sorted(str(x) for x in d if isinstance(x, str) and x.startswith('?'))
        if unk:
            raise AnalysisError('%s.%s(): return value(s) not understood: %s' % (self.instances[state].name, name, unk))
        return d, sites

    def reachable(self, src, within=None):
        seen, work = set(), [src]
        while work:
            s = work.pop()
            for t in self.transitions.get(s, ()):
                if t not in seen and (within is None or t in within):
                    seen.add(t)
                    work.append(t)
        return seen


def site_key(unit, node):
    return unit.qual


def off_table_decisions(fsm, states):
    """[(state, target, unit, node)] for decisions of `states` that _Transitions refuses."""
    out = []
    for st in states:
        d, sites = fsm.decisions(st)
        for x in sorted(v for v in d if v not in (None, st, 'MASTER_STATE')):
            if x not in fsm.transitions[st]:
                for unit, node in sorted(sites.get(x, ()), key=lambda s: (s[0].qual, s[1].lineno)):
                    out.append((st, x, unit, node))
                if not sites.get(x):
                    out.append((st, x, None, None))
    return out


def rule_decisions_on_table(fsm, R, rid, states):
    """every value a state class' next() can return (other than staying, None or the Master's state) is a
    successor of that state in _Transitions."""
    bad = {(st, x, u, n) for st, x, u, n in off_table_decisions(fsm, states)}
    for st in states:
        d, sites = fsm.decisions(st)
        cname = fsm.instances[st].name
        R.note(rid, 'D(%s)=%s' % (cname, sorted(str(x) for x in d)))
        for x in sorted(v for v in d if v not in (None, st, 'MASTER_STATE')):
            offenders = [(u, n) for (s2, x2, u, n) in bad if s2 == st and x2 == x]
            if not offenders:
                R.ok(rid, '%s.next() may decide %s: allowed by _Transitions[%s]' % (cname, x, st),
                     ', '.join(sorted({'%s:%d' % (u.qual, n.lineno) for u, n in sites.get(x, ())})))
            for u, n in offenders:
                where = u.loc(n) if u else fsm.instances[st].mod.relpath
                R.fail(rid, '%s|%s|%s' % (cname, x, u.qual if u else '?'), where,
                       '%s.next() can decide %s (decided in %s) but _Transitions[%s] does not contain it: the '
                       'transition is refused at every evaluation and the instance stays parked in %s' %
                       (cname, x, u.qual if u else '?', st, st))
