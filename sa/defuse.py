"""Closed forms: an expression rewritten over the parameters, `self` and globals of its function only.

Every local bound exactly once is replaced by what defines it, recursively:
    x = <expr>                  x      -> <expr>
    a, b = <expr>               b      -> <expr>[1]
    for t in <iter>: ...        t      -> each(<iter>)          (tuple targets: each(<iter>)[i])
    [.. for t in <iter> ..]     t      -> each(<iter>)          (the binder itself is renamed `_`)
    with <ctx> as t             t      -> entered(<ctx>)
so that the text a rule compares does not depend on how the function names, hoists or aliases its intermediate values.
Locals bound more than once (flags, accumulators) are left alone.
"""
import ast
import copy

from .model import own_nodes


def _call(name, arg):
    return ast.Call(func=ast.Name(id=name, ctx=ast.Load()), args=[arg], keywords=[])


def _index(e, i):
    return ast.Subscript(value=e, slice=ast.Constant(value=i), ctx=ast.Load())


class DefUse:
    def __init__(self, fn_node):
        self.fn = fn_node
        counts, defs = {}, {}

        def bind(t, v):
            if isinstance(t, ast.Name):
                counts[t.id] = counts.get(t.id, 0) + 1
                defs[t.id] = v
            elif isinstance(t, (ast.Tuple, ast.List)):
                for i, el in enumerate(t.elts):
                    if isinstance(el, ast.Starred):
                        bind(el.value, None)
                    else:
                        bind(el, _index(v, i) if v is not None else None)
            else:
                for x in ast.walk(t):
                    if isinstance(x, ast.Name) and isinstance(x.ctx, ast.Store):
                        counts[x.id] = counts.get(x.id, 0) + 1
        for n in own_nodes(fn_node):
            if isinstance(n, ast.Assign):
                for t in n.targets:
                    bind(t, n.value)
            elif isinstance(n, ast.AnnAssign):
                bind(n.target, n.value)
            elif isinstance(n, ast.AugAssign):
                bind(n.target, None)
                bind(n.target, None)
            elif isinstance(n, ast.NamedExpr):
                bind(n.target, n.value)
            elif isinstance(n, (ast.For, ast.AsyncFor)):
                bind(n.target, _call('each', n.iter))
            elif isinstance(n, ast.withitem) and n.optional_vars is not None:
                bind(n.optional_vars, _call('entered', n.context_expr))
            elif isinstance(n, ast.ExceptHandler) and n.name:
                counts[n.name] = counts.get(n.name, 0) + 2
            elif isinstance(n, (ast.Delete,)):
                for t in n.targets:
                    if isinstance(t, ast.Name):
                        counts[t.id] = counts.get(t.id, 0) + 2
        # a local that is mutated in place (accumulator) is not a value: it is never replaced by its initialiser
        MUT = ('append', 'add', 'update', 'extend', 'pop', 'remove', 'insert', 'clear', 'discard', 'setdefault',
               'popitem', 'sort', 'reverse')
        for n in own_nodes(fn_node):
            if isinstance(n, ast.Call) and isinstance(n.func, ast.Attribute) and isinstance(n.func.value, ast.Name) \
                    and n.func.attr in MUT:
                counts[n.func.value.id] = counts.get(n.func.value.id, 0) + 1
            elif isinstance(n, ast.Subscript) and isinstance(n.value, ast.Name) and isinstance(n.ctx, (ast.Store, ast.Del)):
                counts[n.value.id] = counts.get(n.value.id, 0) + 1
        a = fn_node.args
        params = {x.arg for x in a.posonlyargs + a.args + a.kwonlyargs}
        if a.vararg:
            params.add(a.vararg.arg)
        if a.kwarg:
            params.add(a.kwarg.arg)
        self.params = params
        self.defs = {k: v for k, v in defs.items() if counts.get(k) == 1 and k not in params and v is not None}
        self.multi = {k for k, c in counts.items() if c > 1}

    def closed(self, e, depth=0, bound=None):
        """a copy of e in closed form."""
        e = copy.deepcopy(e)
        for x in ast.walk(e) if isinstance(e, (ast.Name, ast.Tuple, ast.List)) else ():
            if isinstance(x, (ast.Name, ast.Tuple, ast.List)) and not isinstance(x.ctx, ast.Load):
                x.ctx = ast.Load()      # a binding target given as such: its closed form is what it is bound to
        return self._close(e, depth, dict(bound or {}))

    def _close(self, e, depth, bound):
        me = self

        class T(ast.NodeTransformer):
            def visit_Name(self, n):
                if not isinstance(n.ctx, ast.Load):
                    return n
                if n.id in bound:
                    return copy.deepcopy(bound[n.id])
                if n.id in me.defs and depth < 10:
                    return me._close(copy.deepcopy(me.defs[n.id]), depth + 1, {})
                return n

            def _comp(self, n):
                saved = dict(bound)
                for g in n.generators:
                    g.iter = self.visit(g.iter)
                    src = _call('each', copy.deepcopy(g.iter))

                    def bind_t(t, v):
                        if isinstance(t, ast.Name):
                            bound[t.id] = v
                        elif isinstance(t, (ast.Tuple, ast.List)):
                            for i, el in enumerate(t.elts):
                                bind_t(el, _index(v, i))
                    bind_t(g.target, src)
                    g.target = ast.Name(id='_', ctx=ast.Store())
                    g.ifs = [self.visit(c) for c in g.ifs]
                for f in ('elt', 'key', 'value'):
                    if hasattr(n, f):
                        setattr(n, f, self.visit(getattr(n, f)))
                bound.clear()
                bound.update(saved)
                return n
            visit_ListComp = visit_SetComp = visit_GeneratorExp = visit_DictComp = _comp

            def visit_Subscript(self, n):
                self.generic_visit(n)
                if isinstance(n.value, (ast.Tuple, ast.List)) and isinstance(n.slice, ast.Constant) and \
                        isinstance(n.slice.value, int) and isinstance(n.ctx, ast.Load) and \
                        0 <= n.slice.value < len(n.value.elts) and not any(isinstance(x, ast.Starred) for x in n.value.elts):
                    return n.value.elts[n.slice.value]      # (a, b)[0] is a: an unpacked literal tuple
                return n

            def visit_Lambda(self, n):
                saved = dict(bound)
                for i, a in enumerate(n.args.args):
                    bound[a.arg] = ast.Name(id='$%d' % i, ctx=ast.Load())
                    a.arg = '$%d' % i
                n.body = self.visit(n.body)
                bound.clear()
                bound.update(saved)
                return n
        return T().visit(e)

    def text(self, e):
        return ast.unparse(self.closed(e))

    def name(self, ident):
        """closed text of a local by name ('' when it has no single definition)."""
        if ident in self.defs:
            return self.text(ast.Name(id=ident, ctx=ast.Load()))
        return ''

    def locals_defined_by(self, pred):
        """names of the single-assignment locals whose (unclosed) defining expression satisfies pred(expr)."""
        return [k for k, v in self.defs.items() if pred(v)]


_MEMO = {}


def defuse(unit_or_node):
    node = getattr(unit_or_node, 'node', unit_or_node)
    d = _MEMO.get(id(node))
    if d is None or d.fn is not node:
        d = _MEMO[id(node)] = DefUse(node)
    return d


def closed_text(unit, e):
    return defuse(unit).text(e)


def sum_terms(unit, e):
    """sorted closed texts of the operands of a chain of `+` (addition of numbers is commutative)."""
    e = defuse(unit).closed(e)
    out = []

    def walk(x):
        if isinstance(x, ast.BinOp) and isinstance(x.op, ast.Add):
            walk(x.left)
            walk(x.right)
        else:
            out.append(ast.unparse(x))
    walk(e)
    return sorted(out)


def cond_atoms(tests):
    """canonical (text, polarity) atoms of a conjunction of (already closed) conditions."""
    from .paths import canonical
    out = set()

    def walk(t, pol):
        t, flip = canonical(t)
        if flip:
            pol = not pol
        if isinstance(t, ast.UnaryOp) and isinstance(t.op, ast.Not):
            return walk(t.operand, not pol)
        if isinstance(t, ast.BoolOp) and (isinstance(t.op, ast.And) if pol else isinstance(t.op, ast.Or)):
            for v in t.values:
                walk(v, pol)
            return
        out.add((ast.unparse(t), pol))
    for t in tests:
        walk(t, True)
    return out


def comp_view(unit, node):
    """name-independent view of a comprehension: {'kind', 'elt', 'iters', 'conds'} (None when node is not one)."""
    if not isinstance(node, (ast.ListComp, ast.SetComp, ast.DictComp, ast.GeneratorExp)):
        return None
    c = defuse(unit).closed(node)
    kind = {ast.ListComp: 'list', ast.SetComp: 'set', ast.DictComp: 'dict', ast.GeneratorExp: 'gen'}[type(c)]
    elt = (ast.unparse(c.key), ast.unparse(c.value)) if kind == 'dict' else ast.unparse(c.elt)
    return {'kind': kind, 'elt': elt, 'iters': [ast.unparse(g.iter) for g in c.generators],
            'conds': cond_atoms([i for g in c.generators for i in g.ifs]), 'node': node}
